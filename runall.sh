#!/bin/sh
# usage: runall.sh <quick|thorough> <seed>... ; prints one line per check and seed
tier=$1; shift
cd "$(dirname "$0")"
for seed in "$@"; do
  for id in C01 C02 C03 C04 C05 C06 C07 C08 C09 C10 C11 C12 C13 C14 C15 C16 C17 C18 C19 C20; do
    out=$(VERIF_SEED=$seed ./check $id $tier 2>&1); rc=$?
    echo "seed=$seed $id rc=$rc $(echo "$out" | tail -1 | cut -c1-200)"
    [ $rc -ne 0 ] && echo "$out" | tail -40
  done
done

#!/bin/bash
# usage: seedrebase.sh <seed-id>...
# Three-way re-application of seeded/<id>/patch.diff onto /repo HEAD in a scratch worktree; the result replaces patch.diff
# only if the seed's demonstration still fails with it and passes without it. Prints one line per seed.
export GOFLAGS=-mod=mod GOPROXY=off
root=$(cd "$(dirname "$0")" && pwd)
for sid in "$@"; do
  wt=/tmp/verif-rebase/$sid; rm -rf $wt; mkdir -p /tmp/verif-rebase
  git -C /repo worktree add -q --detach $wt HEAD || { echo "$sid worktree-failed"; continue; }
  (
    cd $wt
    if ! git apply -3 $root/seeded/$sid/patch.diff >/dev/null 2>&1; then echo "$sid 3way-failed"; exit; fi
    git reset -q; git diff > /tmp/verif-rebase/$sid.diff
    dirs=""
    for f in $root/seeded/$sid/*_test.go.txt; do
      [ -f "$f" ] || continue
      b=$(basename $f .txt)
      case $b in
        internal_graph_*) d=internal/graph; n=${b#internal_graph_};;
        internal_reflection_*) d=internal/reflection; n=${b#internal_reflection_};;
        echo_*|gin_*|chi_*|fiber_*|http_*) d=${b%%_*}; n=${b#${d}_};;
        *) d=.; n=$b; grep -q '^package graph' $f && d=internal/graph; grep -q '^package reflection' $f && d=internal/reflection;;
      esac
      cp $f $d/$n; dirs="$dirs $d"
    done
    tags=""; ls $root/seeded/$sid | grep -q verif && tags="-tags verif"
    run() { rc=0; for d in $(echo $dirs | tr ' ' '\n' | sort -u); do ( cd $d && timeout 300 go test $tags -vet=off -count=1 -run 'Demo|Mutant|Seeded|ZZ|Zz' . ) >/dev/null 2>&1 || rc=1; done; return $rc; }
    if run; then with=pass; else with=fail; fi
    git apply -R /tmp/verif-rebase/$sid.diff
    if run; then without=pass; else without=fail; fi
    if [ $with = fail ] && [ $without = pass ]; then
      cp /tmp/verif-rebase/$sid.diff $root/seeded/$sid/patch.diff
      python3 - "$root/seeded/$sid/meta.json" "$(git rev-parse --short HEAD)" <<'PY'
import json,sys
p,h=sys.argv[1:3]; d=json.load(open(p))
d['rebased']=(d.get('rebased','')+'; ' if d.get('rebased') else '')+'three-way rebase onto godi %s, demo re-verified (fails with, passes without)'%h
json.dump(d,open(p,'w'),indent=1)
PY
      echo "$sid rebased demo_with=$with demo_without=$without"
    else
      echo "$sid NOT-REBASED demo_with=$with demo_without=$without"
    fi
  )
  git -C /repo worktree remove --force $wt 2>/dev/null
done
rm -rf /tmp/verif-rebase

#!/bin/bash
# usage: seedeval.sh <worktree-dir> <seed-id> <property> [checks...]
# 1. verifies a seeded change independently in a fresh scratch worktree (builds, existing tests pass,
#    demo fails with / passes without); 2. runs the named checks built against that worktree with the change
#    applied (VERIF_REPO) - /repo is not touched, so several seeds can be evaluated at once;
# 3. stores patch, demo and meta.json under /verif/seeded/<seed-id>/.
export VERIF_NOLOCK=1 VERIF_SCRATCH=/tmp/verif-scratch/$2
wt=$1; sid=$2; prop=$3; shift 3; checks=${@:-$prop}
export GOFLAGS=-mod=mod GOPROXY=off
[ -s "$wt/MUTANT.diff" ] || { echo "no MUTANT.diff in $wt"; exit 2; }
demo=$(cd "$wt" && git status --porcelain | grep '^??' | awk '{print $2}' | grep '_test.go$\|demo' | head -5)
scratch=/tmp/ver/$sid; rm -rf "$scratch"; mkdir -p /tmp/ver
git -C /repo worktree add -q --detach "$scratch" HEAD || exit 2
cleanup() { git -C /repo worktree remove --force "$scratch" 2>/dev/null; }
trap cleanup EXIT
( cd "$scratch" && git apply "$wt/MUTANT.diff" ) || { echo "patch does not apply to /repo HEAD"; exit 2; }
mods=$(cd "$scratch" && git diff --name-only | awk -F/ '{ if ($1=="chi"||$1=="echo"||$1=="fiber"||$1=="gin"||$1=="http") print $1; else print "." }' | sort -u)
build_ok=yes; tests_ok=yes
for m in $mods; do
  ( cd "$scratch/$m" && go build ./... ) >/dev/null 2>&1 || build_ok=no
  ( cd "$scratch/$m" && go test -vet=off -count=1 ./... ) >/tmp/ver/$sid.tests.log 2>&1 || tests_ok=no
done
demo_with=unknown; demo_without=unknown
for d in $demo; do mkdir -p "$scratch/$(dirname $d)"; cp "$wt/$d" "$scratch/$d"; done
demodirs=$(for d in $demo; do dirname $d; done | sort -u)
run_demo() { rc=0; for dd in $demodirs; do ( cd "$scratch/$dd" && go test -vet=off -count=1 -run 'Demo|Mutant|Seeded|ZZ|Zz' . ) >/tmp/ver/$sid.demo.log 2>&1 || rc=1; done; return $rc; }
if [ -n "$demo" ]; then
  if run_demo; then demo_with=pass; else demo_with=fail; fi
  ( cd "$scratch" && git apply -R "$wt/MUTANT.diff" )
  if run_demo; then demo_without=pass; else demo_without=fail; fi
fi
echo "verify: build=$build_ok existing_tests=$tests_ok demo_with_change=$demo_with demo_without_change=$demo_without (demo files: $demo)"
# run the checks against the scratch worktree with the change applied (VERIF_REPO), /repo stays untouched
for d in $demo; do rm -f "$scratch/$d"; done
( cd "$scratch" && git apply "$wt/MUTANT.diff" ) || exit 2
results=""
for c in $checks; do
  out=$(cd ${VERIF_ROOT:-/verif} && VERIF_REPO=$scratch VERIF_JOBS=${VERIF_JOBS:-6} ./check $c quick 2>&1); rc=$?
  v=$(echo "$out" | grep -m1 -o 'VIOLATION C[0-9]*/[^:]*' | head -1)
  results="$results $c:quick:rc=$rc[$v]"
  if [ $rc -eq 0 ] && [ "$c" = "$prop" ] && [ -n "$SEED_THOROUGH" ]; then
    out=$(cd ${VERIF_ROOT:-/verif} && VERIF_REPO=$scratch ./check $c thorough 2>&1); rc=$?
    v=$(echo "$out" | grep -m1 -o 'VIOLATION C[0-9]*/[^:]*' | head -1)
    results="$results $c:thorough:rc=$rc[$v]"
  fi
done
cleanup; trap - EXIT
echo "checks:$results"
mkdir -p /verif/seeded/$sid
cp "$wt/MUTANT.diff" /verif/seeded/$sid/patch.diff
for d in $demo; do cp "$wt/$d" /verif/seeded/$sid/$(echo $d | tr / _).txt; done
[ -f "$wt/MUTANT.md" ] && cp "$wt/MUTANT.md" /verif/seeded/$sid/description.md
python3 - "$sid" "$prop" "$build_ok" "$tests_ok" "$demo_with" "$demo_without" "$results" <<'PY'
import json,sys
sid,prop,b,t,dw,dwo,res=sys.argv[1:8]
json.dump({"seed_id":sid,"breaks_property":prop,"verified":{"builds":b,"existing_tests_pass":t,"demo_with_change":dw,"demo_without_change":dwo},
 "check_results":res.split(),"ran":"seedeval.sh: scratch worktree of /repo HEAD + git apply patch.diff; go build/test; demo with and without the change; then ./check <id> quick built against that worktree with the change applied (VERIF_REPO; thorough too when SEED_THOROUGH is set and quick missed); /repo itself is never patched"},
 open('/verif/seeded/%s/meta.json'%sid,'w'),indent=1)
PY

#!/bin/sh
# Offline setup: warm the Go build cache for the harness modules (files on disk only),
# including the race-detector builds used by C09 and C16.
set -e
cd "$(dirname "$0")"
export GOFLAGS=-mod=mod GOPROXY=off GOTOOLCHAIN=auto
[ "$GOSUMDB" = off ] && unset GOSUMDB
for m in harness harness-web; do
  [ -d "$m" ] || continue
  (cd "$m" && go test -c -tags verif -vet=off -o /dev/null ./props) || exit 1
  (cd "$m" && go test -c -race -tags verif -vet=off -o /dev/null ./props) || exit 1
done
echo setup ok

#!/usr/bin/env python3
"""Regenerates MANIFEST.json from checks_cfg.py (run after editing it)."""
import json, os, subprocess
from checks_cfg import CHECKS
ROOT = os.path.dirname(os.path.abspath(__file__))
props = [json.loads(l) for l in open(os.path.join(ROOT, "properties.jsonl"))]
hook_commits = subprocess.run(["git", "-C", "/repo", "log", "--format=%H %s"], capture_output=True, text=True).stdout.splitlines()
hook_commits = [l.split()[0] for l in hook_commits if " verif hooks" in l or l.split(" ", 1)[1].startswith("verif hooks")]
checks, na = [], []
for p in props:
    pid = p["id"]
    c = CHECKS.get(pid)
    if not c:
        na.append({"property_id": pid, "reason": "check not built yet (work in progress; see DESIGN.md section 4 for the planned generated-input check)"})
        continue
    checks.append({
        "property_id": pid,
        "quick_cmd": "./check %s quick" % pid,
        "thorough_cmd": "./check %s thorough" % pid,
        "evidence_file": "/verif/evidence/%s.json" % pid,
        "replay_cmd_template": "./check --replay {path}",
        "engine": "godi-pbt-harness",
        "level_claimed": {"category": c.get("level", "exploration"), "text": c["level_text"], "design_ref": c.get("design_ref", "DESIGN.md section 4 " + pid)},
        "level_note": c["level_note"],
        "technique": c["technique"],
    })
m = {
    "version": 1,
    "setup_cmd": "./setup.sh",
    "hooks": {
        "guard": "verif",
        "enable": "go test -tags verif (the harness modules replace github.com/junioryono/godi/v4 by /repo and build it with the tag on)",
        "baseline_off_cmd": "cd /repo && for m in . chi echo fiber gin http; do (cd $m && GOFLAGS=-mod=mod go test -vet=off -count=1 -timeout 25m ./...) || exit 1; done",
        "source_commits": hook_commits,
        "add_only": True,
    },
    "engines": [{"name": "godi-pbt-harness", "path": "/verif/harness", "serves_properties": [c["property_id"] for c in checks],
                 "kind_free_text": "Go test binaries built against /repo's working tree: pgregory.net/rapid generators (configurations, operation histories, fault plans, schedules) and bounded-exhaustive enumerations, judged by an independent reference model; driven and sharded by ./check"}],
    "checks": checks,
    "not_applicable": na,
    "notes": "Technique family: property-based testing and fuzzing. ./check <ID> <tier> rebuilds from /repo, runs the generated cases, rewrites evidence/<ID>.json. Exit 2 = inconclusive (build failure, deadline). Known findings (genuine defects recorded rather than repaired) and the log of repaired ones: /verif/known_findings.json; a check reports a listed finding as KNOWN-FINDING and exits 0.",
}
json.dump(m, open(os.path.join(ROOT, "MANIFEST.json"), "w"), indent=1)
print("checks:", len(checks), "not_applicable:", len(na))

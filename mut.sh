#!/bin/sh
# usage: mut.sh <check-id> <file> <python-replace-old> <python-replace-new>   (ad-hoc mutant: replace text in /repo/<file>, run check, restore)
[ -z "$VERIF_NOLOCK" ] && exec env VERIF_NOLOCK=1 VERIF_SCRATCH=/tmp/verif-scratch flock -x /tmp/.verif-repo.lock "$0" "$@"
id=$1; f=$2
cd /repo || exit 2
git diff --quiet || { echo "/repo dirty"; exit 2; }
python3 - "$f" "$3" "$4" <<'PY' || { git checkout -- .; exit 2; }
import sys
p,old,new=sys.argv[1],sys.argv[2],sys.argv[3]
s=open(p).read()
if old not in s: print("pattern not found"); sys.exit(1)
open(p,'w').write(s.replace(old,new,1))
PY
GOFLAGS=-mod=mod go build ./... || { git checkout -- .; echo "mutant does not compile"; exit 2; }
cd /verif && ./check "$id" ${5:-quick} > /tmp/mut.$$.log 2>&1; rc=$?
git -C /repo checkout -- .
echo "mutant[$f: $3 => $4] $id -> exit $rc: $(grep -m1 -o 'VIOLATION [A-Z0-9]*/[^:]*' /tmp/mut.$$.log | head -1)"
rm -f /tmp/mut.$$.log

#!/bin/sh
# usage: sens.sh <fix-commit> <check-id> [tier]   -- reverse-applies a fix commit to /repo's working tree,
# runs the check (expected: VIOLATION, exit 1), restores the tree.
[ -z "$VERIF_NOLOCK" ] && exec env VERIF_NOLOCK=1 VERIF_SCRATCH=/tmp/verif-scratch flock -x /tmp/.verif-repo.lock "$0" "$@"
c=$1; id=$2; tier=${3:-quick}
cd /repo || exit 2
git diff --quiet || { echo "/repo dirty"; exit 2; }
git show "$c" | git apply -R || { echo "cannot reverse-apply $c"; exit 2; }
cd /verif && ./check "$id" "$tier" > /tmp/sens.$$.log 2>&1; rc=$?
git -C /repo checkout -- .
echo "revert($c) $id $tier -> exit $rc: $(grep -m1 -o 'VIOLATION [A-Z0-9]*/[^:]*\(\[[^]]*\]\)\?' /tmp/sens.$$.log | head -1) $(grep -c '^VIOLATION property' /tmp/sens.$$.log) violation line(s)"
rm -f /tmp/sens.$$.log
exit $rc

// Package evid collects per-run statistics (cases executed, distinct
// non-trivial cases, samples, label histogram) and writes them where the
// ./check driver picks them up to produce /verif/evidence/<id>.json.
package evid

import (
	"encoding/binary"
	"encoding/json"
	"fmt"
	"hash/fnv"
	"os"
	"sort"
	"sync"
)

// Collector accumulates statistics for one part of one property check.
type Collector struct {
	mu        sync.Mutex
	Property  string
	Part      string
	Rule      string
	evals     int64
	excluded  int64
	nt        map[uint64]struct{}
	samples   []any
	labels    map[string]int64
	maxSample int
	Exhaust   bool
	Notes     []string
}

func New(property, part, rule string) *Collector {
	return &Collector{Property: property, Part: part, Rule: rule, nt: map[uint64]struct{}{}, labels: map[string]int64{}, maxSample: 4}
}

func Hash(s string) uint64 { h := fnv.New64a(); h.Write([]byte(s)); return h.Sum64() }

// Case records one executed case. canon is the canonical encoding used for
// distinctness; sample (may be nil) is what is written out as an example.
func (c *Collector) Case(nontrivial bool, canon string, sample any, labels ...string) {
	c.mu.Lock()
	defer c.mu.Unlock()
	c.evals++
	for _, l := range labels {
		c.labels[l]++
	}
	if !nontrivial {
		return
	}
	h := Hash(canon)
	if _, ok := c.nt[h]; ok {
		return
	}
	c.nt[h] = struct{}{}
	if len(c.samples) < c.maxSample {
		if sample == nil {
			sample = canon
		}
		c.samples = append(c.samples, sample)
	}
}

func (c *Collector) Label(l string)           { c.mu.Lock(); c.labels[l]++; c.mu.Unlock() }
func (c *Collector) LabelN(l string, n int64) { c.mu.Lock(); c.labels[l] += n; c.mu.Unlock() }
func (c *Collector) Excluded()                { c.mu.Lock(); c.excluded++; c.mu.Unlock() }
func (c *Collector) Note(s string)            { c.mu.Lock(); c.Notes = append(c.Notes, s); c.mu.Unlock() }
func (c *Collector) Evals() int64             { c.mu.Lock(); defer c.mu.Unlock(); return c.evals }
func (c *Collector) Distinct() int            { c.mu.Lock(); defer c.mu.Unlock(); return len(c.nt) }

type record struct {
	Property   string           `json:"property"`
	Part       string           `json:"part"`
	Rule       string           `json:"rule"`
	Evals      int64            `json:"evaluations"`
	Distinct   int              `json:"distinct_nontrivial"`
	Excluded   int64            `json:"excluded_known"`
	Samples    []any            `json:"samples"`
	Labels     map[string]int64 `json:"labels"`
	HashFile   string           `json:"hash_file"`
	Exhaustive bool             `json:"exhaustive"`
	Notes      []string         `json:"notes,omitempty"`
}

// Flush appends the record to $VERIF_STATS (JSON lines) and writes the hash
// set next to it. Without VERIF_STATS it prints a one-line summary.
func (c *Collector) Flush() {
	c.mu.Lock()
	defer c.mu.Unlock()
	path := os.Getenv("VERIF_STATS")
	r := record{Property: c.Property, Part: c.Part, Rule: c.Rule, Evals: c.evals, Distinct: len(c.nt), Excluded: c.excluded,
		Samples: c.samples, Labels: c.labels, Exhaustive: c.Exhaust, Notes: c.Notes}
	if path == "" {
		keys := make([]string, 0, len(c.labels))
		for k := range c.labels {
			keys = append(keys, k)
		}
		sort.Strings(keys)
		fmt.Printf("[evid] %s/%s evals=%d distinct_nontrivial=%d excluded=%d\n", c.Property, c.Part, c.evals, len(c.nt), c.excluded)
		for _, k := range keys {
			fmt.Printf("[evid]   %-40s %d\n", k, c.labels[k])
		}
		return
	}
	hf := fmt.Sprintf("%s.%s.%s.%d.hashes", path, c.Property, c.Part, os.Getpid())
	buf := make([]byte, 0, 8*len(c.nt))
	for h := range c.nt {
		buf = binary.LittleEndian.AppendUint64(buf, h)
	}
	_ = os.WriteFile(hf, buf, 0o644)
	r.HashFile = hf
	b, _ := json.Marshal(r)
	f, err := os.OpenFile(path, os.O_APPEND|os.O_CREATE|os.O_WRONLY, 0o644)
	if err != nil {
		fmt.Fprintln(os.Stderr, "evid:", err)
		return
	}
	defer f.Close()
	f.Write(append(b, '\n'))
}

// Violation writes a replay artefact for a failure found outside rapid (bounded
// enumeration, stress loops) and prints the marker line the driver looks for.
func Violation(property, oracle string, payload any) string {
	dir := os.Getenv("VERIF_REPLAY_DIR")
	if dir == "" {
		dir = os.TempDir()
	}
	b, _ := json.MarshalIndent(map[string]any{"property": property, "oracle": oracle, "case": payload}, "", " ")
	name := fmt.Sprintf("%s/%s-%s-%x.json", dir, property, oracle, Hash(string(b)))
	_ = os.WriteFile(name, b, 0o644)
	fmt.Printf("VERIF-VIOLATION property=%s oracle=%s file=%s\n", property, oracle, name)
	return name
}

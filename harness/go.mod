module verif

go 1.24.6

require (
	github.com/junioryono/godi/v4 v4.0.0
	pgregory.net/rapid v1.3.0
)

replace github.com/junioryono/godi/v4 => /repo

package kit

import (
	"fmt"
	"sort"
)

// Owner names the registration and output index that provide an identity.
type Owner struct{ Reg, Out int }

type groupKey struct {
	T     int
	Group string
}

// Model is the reference registry and dependency analysis of a Config,
// computed without consulting godi.
type Model struct {
	Cfg    *Config
	Keyed  map[Ident]Owner
	Groups map[groupKey][]Owner
	Regs   map[int]*Reg
	Order  []int // reg ids in registration order
}

// NewModel builds the registry. It returns an error for a duplicate (type,key).
func NewModel(cfg *Config) (*Model, error) {
	m := &Model{Cfg: cfg, Keyed: map[Ident]Owner{}, Groups: map[groupKey][]Owner{}, Regs: map[int]*Reg{}}
	for i := range cfg.Regs {
		r := &cfg.Regs[i]
		if _, dup := m.Regs[r.ID]; dup {
			return nil, fmt.Errorf("duplicate reg id %d", r.ID)
		}
		m.Regs[r.ID] = r
		m.Order = append(m.Order, r.ID)
		for _, p := range r.Provides() {
			if p.Ident.Group != "" {
				gk := groupKey{p.Ident.T, p.Ident.Group}
				m.Groups[gk] = append(m.Groups[gk], Owner{r.ID, p.Out})
				continue
			}
			if _, dup := m.Keyed[p.Ident]; dup {
				return nil, fmt.Errorf("duplicate identity %v", p.Ident)
			}
			m.Keyed[p.Ident] = Owner{r.ID, p.Out}
		}
	}
	return m, nil
}

func (m *Model) Owner(id Ident) (Owner, bool) {
	if id.Group != "" {
		return Owner{}, false
	}
	o, ok := m.Keyed[id]
	return o, ok
}

func (m *Model) Members(t int, g string) []Owner { return m.Groups[groupKey{t, g}] }

// DepTargets returns the registrations a dependency resolves to (several for a
// group, none when unregistered or built-in).
func (m *Model) DepTargets(d DepSpec) []Owner {
	if d.Ignored || d.Builtin != 0 {
		return nil
	}
	if d.Group != "" {
		return m.Members(d.T, d.Group)
	}
	if o, ok := m.Keyed[Ident{T: d.T, Key: d.Key}]; ok {
		return []Owner{o}
	}
	return nil
}

// RegEdges lists (with multiplicity removed) the registrations r depends on.
func (m *Model) RegEdges(r *Reg) []int {
	seen := map[int]bool{}
	var out []int
	for _, d := range r.Deps {
		for _, o := range m.DepTargets(d) {
			if !seen[o.Reg] {
				seen[o.Reg] = true
				out = append(out, o.Reg)
			}
		}
	}
	sort.Ints(out)
	return out
}

// IsRegEdge reports whether registration u declares a dependency provided by v.
func (m *Model) IsRegEdge(u, v int) bool {
	r := m.Regs[u]
	if r == nil {
		return false
	}
	for _, x := range m.RegEdges(r) {
		if x == v {
			return true
		}
	}
	return false
}

// CyclicRegs returns the set of registrations lying on a directed cycle.
func (m *Model) CyclicRegs() map[int]bool {
	adj := map[int][]int{}
	for _, id := range m.Order {
		adj[id] = m.RegEdges(m.Regs[id])
	}
	on := map[int]bool{}
	for _, s := range m.Order {
		// is s reachable from itself?
		seen := map[int]bool{}
		st := append([]int(nil), adj[s]...)
		for len(st) > 0 {
			u := st[len(st)-1]
			st = st[:len(st)-1]
			if seen[u] {
				continue
			}
			seen[u] = true
			st = append(st, adj[u]...)
		}
		if seen[s] {
			on[s] = true
		}
	}
	return on
}

func (m *Model) Cyclic() bool { return len(m.CyclicRegs()) > 0 }

// Conflict describes a captive dependency: a singleton/transient declaring a
// dependency whose registration is scoped.
type Conflict struct{ From, To int }

func (m *Model) LifetimeConflicts() []Conflict {
	var out []Conflict
	for _, id := range m.Order {
		r := m.Regs[id]
		if r.Life == Scoped {
			continue
		}
		for _, v := range m.RegEdges(r) {
			if m.Regs[v].Life == Scoped {
				out = append(out, Conflict{id, v})
			}
		}
	}
	return out
}

// MissingDep is an unsatisfied required dependency.
type MissingDep struct {
	Reg int
	Dep DepSpec
}

func (m *Model) Missing() []MissingDep {
	var out []MissingDep
	for _, id := range m.Order {
		r := m.Regs[id]
		for _, d := range r.Deps {
			if d.Ignored || d.Optional || d.Group != "" {
				continue
			}
			if d.Builtin != 0 {
				if d.Key == "" {
					continue // the built-in itself
				}
				out = append(out, MissingDep{id, d}) // keyed request for a reserved type can never be registered
				continue
			}
			if _, ok := m.Keyed[Ident{T: d.T, Key: d.Key}]; !ok {
				out = append(out, MissingDep{id, d})
			}
		}
	}
	return out
}

// Verdict classes of Build
const (
	VOK       = "ok"
	VCircular = "circular"
	VLifetime = "lifetime"
	VMissing  = "missing"
	VCtor     = "constructor"
	VOther    = "other"
)

// ExpectedVerdict (fault-free): circular, else lifetime, else missing, else ok.
func (m *Model) ExpectedVerdict() string {
	switch {
	case m.Cyclic():
		return VCircular
	case len(m.LifetimeConflicts()) > 0:
		return VLifetime
	case len(m.Missing()) > 0:
		return VMissing
	}
	return VOK
}

// AllIdents lists every registered identity: keyed ones, and one entry per
// group (Group != "").
func (m *Model) AllIdents() []Ident {
	var ids []Ident
	for id := range m.Keyed {
		ids = append(ids, id)
	}
	for gk := range m.Groups {
		ids = append(ids, Ident{T: gk.T, Group: gk.Group})
	}
	sort.Slice(ids, func(i, j int) bool {
		a, b := ids[i], ids[j]
		if a.T != b.T {
			return a.T < b.T
		}
		if a.Key != b.Key {
			return a.Key < b.Key
		}
		return a.Group < b.Group
	})
	return ids
}

// Depth returns the length of the longest dependency chain below reg (acyclic only).
func (m *Model) Depth(reg int) int {
	best := 0
	for _, v := range m.RegEdges(m.Regs[reg]) {
		if d := m.Depth(v) + 1; d > best {
			best = d
		}
	}
	return best
}

// NilOutput reports whether the identity is provided by an output that its
// constructor always returns as nil (registered, but there is nothing to resolve).
func (m *Model) NilOutput(id Ident) bool {
	if id.T == TVoid {
		return true // a named initializer: an empty struct, no instance
	}
	if o, ok := m.Owner(id); ok {
		r := m.Regs[o.Reg]
		return o.Out < len(r.Outs) && r.Outs[o.Out].Nil
	}
	return false
}

package kit

import (
	"context"
	"fmt"
	"reflect"

	"github.com/junioryono/godi/v4"
)

// Base carries the ledger entry of a harness-made service instance. It has
// non-zero size so that pointer identity is a usable observable.
type Base struct {
	E    *Entry
	Held []any // what the instance keeps alive (its arguments), when World.HoldArgs is set
}

func (b *Base) hold(v any) { b.Held = append(b.Held, v) }

func (b *Base) Ent() *Entry     { return b.E }
func (b *Base) SetEnt(e *Entry) { b.E = e }
func (b *Base) IsI0()           {}
func (b *Base) IsI1()           {}
func (b *Base) IsI2()           {}
func (b *Base) IsI3()           {}

// Svc is implemented by every harness service type.
type Svc interface {
	Ent() *Entry
	SetEnt(*Entry)
	hold(any)
}

type I0 interface {
	Svc
	IsI0()
}
type I1 interface {
	Svc
	IsI1()
}
type I2 interface {
	Svc
	IsI2()
}
type I3 interface {
	Svc
	IsI3()
}

const NumIface = 4

// Type ids: 0..NumConcrete-1 concrete pointer types (*D0..,*N0..), then the
// interfaces I0..I2.
const (
	TI0 = NumConcrete + iota
	TI1
	TI2
	TI3
	NumTypes
)

var ifaceTypes = []reflect.Type{
	reflect.TypeOf((*I0)(nil)).Elem(),
	reflect.TypeOf((*I1)(nil)).Elem(),
	reflect.TypeOf((*I2)(nil)).Elem(),
	reflect.TypeOf((*I3)(nil)).Elem(),
}

var (
	CtxType      = reflect.TypeOf((*context.Context)(nil)).Elem()
	ScopeType    = reflect.TypeOf((*godi.Scope)(nil)).Elem()
	ProviderType = reflect.TypeOf((*godi.Provider)(nil)).Elem()
	ErrorType    = reflect.TypeOf((*error)(nil)).Elem()
	InType       = reflect.TypeOf(godi.In{})
	OutType      = reflect.TypeOf(godi.Out{})
)

// RType maps a type id to its reflect.Type.
func RType(t int) reflect.Type {
	if t == TVoid {
		return voidType
	}
	if t == TSl {
		return slType
	}
	if t < NumConcrete {
		return ConcreteTypes[t]
	}
	return ifaceTypes[t-NumConcrete]
}

func IsIface(t int) bool { return t >= NumConcrete && t < NumTypes }

// TVoid is the pseudo type id of struct{}: a named initializer function is a
// keyed service of that type (godi stores an empty struct for it).
const TVoid = NumTypes

var voidType = reflect.TypeOf(struct{}{})

// TSl is the pseudo type id of a service whose own type is the unnamed slice
// type []I0 - the very type a group field over I0 has. Its values are
// one-element slices around a carrier instance (a non-disposable pointer type
// of the universe) that holds the ledger entry; it is registered plain or under
// a name, never in a group, and never stands behind an interface alias.
const TSl = NumTypes + 1

var slType = reflect.TypeOf([]I0(nil))

// IsSliceSvc reports whether t is a slice-typed service type.
func IsSliceSvc(t int) bool { return t == TSl }

// svcOf returns the harness instance behind a value the container handed out:
// the value itself, or the carrier inside a slice-typed service.
func svcOf(v any) Svc {
	if sl, ok := v.([]I0); ok {
		if len(sl) != 1 {
			return nil
		}
		v = sl[0]
	}
	if s, ok := v.(Svc); ok && s != nil && !isNilValue(v) {
		return s
	}
	return nil
}

// wrapOut turns a freshly made instance into the value a constructor returns
// for an output of declared type id t.
func wrapOut(t int, obj reflect.Value, target reflect.Type) reflect.Value {
	if t == TSl {
		return reflect.ValueOf([]I0{obj.Interface().(I0)})
	}
	return obj.Convert(target)
}

func IsDisposable(t int) bool { return t < NumD }

func TypeName(t int) string {
	switch {
	case t == TVoid:
		return "void"
	case t == TSl:
		return "SL"
	case t < NumD:
		return fmt.Sprintf("D%d", t)
	case t < NumConcrete:
		return fmt.Sprintf("N%d", t-NumD)
	default:
		return fmt.Sprintf("I%d", t-NumConcrete)
	}
}

// AsOption returns godi.As[I]() for an interface type id.
func AsOption(t int) godi.AddOption {
	switch t {
	case TI0:
		return godi.As[I0]()
	case TI1:
		return godi.As[I1]()
	case TI2:
		return godi.As[I2]()
	case TI3:
		return godi.As[I3]()
	}
	panic("AsOption: not an interface type id")
}

// BuiltinType maps builtin ids (1 ctx, 2 scope, 3 provider) to types.
func BuiltinType(b int) reflect.Type {
	switch b {
	case 1:
		return CtxType
	case 2:
		return ScopeType
	case 3:
		return ProviderType
	}
	panic("bad builtin")
}

package kit

import (
	"fmt"
	"pgregory.net/rapid"
	"reflect"
)

// GenOpts selects which registration forms a generated configuration may use.
type GenOpts struct {
	MinRegs, MaxRegs int
	Lifetimes        []int // allowed lifetimes (nil = all three)
	Multi            bool  // multi-return constructors
	Out              bool  // result objects
	OutGroupFields   bool  // result-object fields with group tags
	Instance         bool  // instance values
	Void             bool  // scoped initialiser functions
	As               bool  // interface aliases
	MultiAs          bool  // several aliases on one registration
	Groups           bool
	Keys             bool
	MultiGroup       bool // multi-return constructor with Group option
	OptionalMissing  bool // optional deps / empty groups with no provider
	Builtins         bool
	Err              bool // (T, error) forms
	Iface            bool // outputs declared as interface types
	MaxDeps          int
	NilOuts          bool // multi-return constructors may always return nil for a secondary interface output
	VoidAnyLife      bool // initializer-shaped functions registered with any lifetime (C08)
	DisposableBias   bool // prefer D types
	ChainBias        bool // prefer depending on recently generated services (deeper chains)
	AltImpl          bool // interface-typed outputs whose concrete implementation alternates between invocations
	Drops            bool // one identity of a multi-identity registration is removed again right after the call
	EmbedIn          bool // parameter objects that declare a dependency through an embedded field (static constructors)
	OptionalBias     bool // half of the dependencies on registered services are optional
	NamedVoid        bool // initializer functions registered with a name (resolvable as a keyed empty struct)
	SliceSvc         bool // services whose own type is the unnamed slice type []I0 (plain or named), next to groups over I0
	Ghosts           bool // registrations that are added and removed again while the collection is assembled
	GroupBridge      bool // a consumer -> group -> member -> chain of singletons family whose only ordering path runs through the group
	StandIns         bool // a registration replaces a stand-in that was registered under its identity some calls earlier and removed right before
	PtrIn            bool // parameter objects taken by pointer
	PtrErr           bool // error results declared with a concrete pointer type
	ReplaceBias      bool // every multi-output registration that allows it loses one identity to a replacement registered later
	BuildModes       bool // Build / BuildWithContext (cancellable, cancelled afterwards) / BuildWithOptions (timeout)
	SameOuts         bool // a multi-return constructor that hands back one instance under two declared types
	SigTwins         bool // a second registration with the very signature of another one (shared analysis), other lifetime, other group/name
	PreBuild         bool // the collection is built (and the provider used and closed) once before all registrations are in
}

func FullOpts() GenOpts {
	return GenOpts{MinRegs: 1, MaxRegs: 9, Multi: true, Out: true, OutGroupFields: true, Instance: true, Void: true, As: true, MultiAs: true,
		Groups: true, Keys: true, MultiGroup: true, OptionalMissing: true, Builtins: true, Err: true, Iface: true, MaxDeps: 3, NilOuts: true, AltImpl: true, Drops: true, PreBuild: true, NamedVoid: true, VoidAnyLife: true, EmbedIn: true, SliceSvc: true, Ghosts: true, SigTwins: true, GroupBridge: true, SameOuts: true, BuildModes: true, StandIns: true, PtrIn: true, PtrErr: true}
}

// NeverType is a concrete type id that generated configurations never provide.
const NeverType = NumConcrete - 1

// NeverKey / NeverGroup are never used by generated providers.
const (
	NeverKey   = "zz"
	NeverGroup = "empty"
)

type avail struct {
	id   Ident
	life int
	reg  int
}

type genState struct {
	o         GenOpts
	avail     []avail            // keyed / plain identities provided so far
	used      map[Ident]bool     // (T,Key) taken
	groups    map[groupKey][]int // lifetimes of members
	closedGrp map[groupKey]bool
}

// (one name and one group contain a space: names are free text, only backquotes are refused)
var keyPool = []string{"", "", "a", "b b"}
var groupPool = []string{"g", "h h"}

func (g *genState) freshIdent(t *rapid.T, allowGroup bool) (Ident, int, bool) {
	for try := 0; try < 20; try++ {
		var ty, impl int
		if g.o.SliceSvc && rapid.IntRange(0, 11).Draw(t, "slicesvc") == 0 {
			// a service of type []I0: never grouped; the carrier is a non-disposable pointer type
			id := Ident{T: TSl}
			if g.o.Keys {
				id.Key = rapid.SampledFrom(keyPool).Draw(t, "slkey")
			}
			if g.used[id] {
				continue
			}
			return id, NumD + rapid.IntRange(0, 3).Draw(t, "slcarrier"), true
		}
		if g.o.Iface && rapid.IntRange(0, 4).Draw(t, "iface") == 0 {
			ty = NumConcrete + rapid.IntRange(0, NumIface-1).Draw(t, "it")
			impl = g.concrete(t)
		} else {
			ty = g.concrete(t)
			impl = ty
		}
		id := Ident{T: ty}
		grpOdds := 3
		if IsIface(ty) {
			grpOdds = 1 // interface-typed services are grouped more often (alias groups of different sizes)
		}
		if allowGroup && g.o.Groups && rapid.IntRange(0, grpOdds).Draw(t, "grp") == 0 {
			id.Group = rapid.SampledFrom(groupPool).Draw(t, "group")
			// several groups over one element type (validators and rules, handlers and
			// middlewares): every other grouped service joins or parallels an existing group's type
			if len(g.groups) > 0 && ty == impl && rapid.Bool().Draw(t, "sameGroupType") {
				var gks []groupKey
				for gk := range g.groups {
					if !IsIface(gk.T) && !IsSliceSvc(gk.T) && gk.T != TVoid {
						gks = append(gks, gk)
					}
				}
				if len(gks) > 0 {
					sortGroupKeys(gks)
					ty = rapid.SampledFrom(gks).Draw(t, "groupTypeOf").T
					impl = ty
					id.T = ty
				}
			}
			if g.closedGrp[groupKey{ty, id.Group}] {
				continue
			}
			return id, impl, true
		}
		if g.o.Keys {
			id.Key = rapid.SampledFrom(keyPool).Draw(t, "key")
		}
		if g.used[id] {
			continue
		}
		return id, impl, true
	}
	return Ident{}, 0, false
}

func (g *genState) concrete(t *rapid.T) int {
	if g.o.DisposableBias && rapid.IntRange(0, 2).Draw(t, "dbias") > 0 {
		return rapid.IntRange(0, NumD-1).Draw(t, "ct")
	}
	return rapid.IntRange(0, NeverType-1).Draw(t, "ct")
}

func (g *genState) take(id Ident, life, reg int) {
	if id.Group != "" {
		gk := groupKey{id.T, id.Group}
		g.groups[gk] = append(g.groups[gk], life)
		return
	}
	g.used[id] = true
	g.avail = append(g.avail, avail{id, life, reg})
}

// genDeps draws dependencies for a registration of the given lifetime from
// what has been generated so far (so the dependency relation is acyclic and
// free of lifetime conflicts by construction).
func (g *genState) genDeps(t *rapid.T, life int) (deps []DepSpec, needIn bool) {
	n := rapid.IntRange(0, g.o.MaxDeps).Draw(t, "ndeps")
	for i := 0; i < n; i++ {
		switch k := rapid.IntRange(0, 9).Draw(t, "depkind"); {
		case k <= 5: // a provided identity
			var cands []avail
			for _, a := range g.avail {
				if life != Scoped && a.life == Scoped {
					continue
				}
				cands = append(cands, a)
			}
			if len(cands) == 0 {
				continue
			}
			if g.o.ChainBias && len(cands) > 3 && rapid.IntRange(0, 9).Draw(t, "chain") < 6 {
				cands = cands[len(cands)-3:] // prefer recently generated services: longer dependency chains
			}
			a := rapid.SampledFrom(cands).Draw(t, "dep")
			d := DepSpec{T: a.id.T, Key: a.id.Key}
			optOdds := 5
			if g.o.OptionalBias {
				optOdds = 1
			}
			if rapid.IntRange(0, optOdds).Draw(t, "opt") == 0 {
				d.Optional = true
			}
			deps = append(deps, d)
		case k == 6: // a group
			if !g.o.Groups {
				continue
			}
			var cands []groupKey
			for gk, lifes := range g.groups {
				ok := true
				if life != Scoped {
					for _, l := range lifes {
						if l == Scoped {
							ok = false
						}
					}
				}
				if ok {
					cands = append(cands, gk)
				}
			}
			if len(cands) == 0 {
				continue
			}
			sortGroupKeys(cands)
			gk := rapid.SampledFrom(cands).Draw(t, "gdep")
			g.closedGrp[gk] = true
			gd := DepSpec{T: gk.T, Group: gk.Group}
			odds := 5
			if gk.T == TI0 {
				odds = 1 // groups over I0 share their field type with the slice-typed service
			}
			if rapid.IntRange(0, odds).Draw(t, "groupAndName") == 0 {
				// a group field that also carries a name tag: filled from the group, the name is ignored -
				// also when a service of the field's own slice type is registered under that very name
				gd.Key = rapid.SampledFrom([]string{"alsonamed", "a", "b b"}).Draw(t, "alsoName")
				if gk.T == TI0 {
					// ... in particular when a service of the field's own type []I0 is registered under a name
					for _, a := range g.avail {
						if IsSliceSvc(a.id.T) && a.id.Key != "" {
							gd.Key = a.id.Key
						}
					}
				}
			}
			deps = append(deps, gd)
		case k == 7: // built-in
			if !g.o.Builtins {
				continue
			}
			deps = append(deps, DepSpec{Builtin: rapid.IntRange(1, 3).Draw(t, "builtin"), Optional: rapid.IntRange(0, 3).Draw(t, "optbuiltin") == 0})
		case k == 8: // optional dependency with no provider / empty group
			if !g.o.OptionalMissing {
				continue
			}
			if rapid.Bool().Draw(t, "emptygroup") {
				deps = append(deps, DepSpec{T: rapid.IntRange(0, NumTypes-1).Draw(t, "egt"), Group: NeverGroup})
			} else if rapid.Bool().Draw(t, "nevertype") {
				deps = append(deps, DepSpec{T: NeverType, Optional: true})
			} else {
				deps = append(deps, DepSpec{T: rapid.IntRange(0, NumTypes-1).Draw(t, "omt"), Key: NeverKey, Optional: true})
			}
		case k == 9: // ignored field
			deps = append(deps, DepSpec{T: rapid.IntRange(0, NeverType-1).Draw(t, "igt"), Ignored: true})
		}
	}
	for _, d := range deps {
		if d.Key != "" || d.Group != "" || d.Optional || d.Ignored {
			needIn = true
		}
	}
	return
}

func sortGroupKeys(ks []groupKey) {
	for i := 1; i < len(ks); i++ {
		for j := i; j > 0 && (ks[j].T < ks[j-1].T || (ks[j].T == ks[j-1].T && ks[j].Group < ks[j-1].Group)); j-- {
			ks[j], ks[j-1] = ks[j-1], ks[j]
		}
	}
}

// GenConfig generates a configuration that is buildable by construction: no
// duplicate identity, acyclic, no captive dependency, nothing required missing.
// Registrations are generated in dependency order and then shuffled, so the
// registration order is arbitrary.
func GenConfig(t *rapid.T, o GenOpts) *Config {
	g := &genState{o: o, used: map[Ident]bool{}, groups: map[groupKey][]int{}, closedGrp: map[groupKey]bool{}}
	lifes := o.Lifetimes
	if lifes == nil {
		lifes = []int{Singleton, Scoped, Transient}
	}
	n := rapid.IntRange(o.MinRegs, o.MaxRegs).Draw(t, "nregs")
	var regs []Reg
	for i := 0; i < n; i++ {
		r := Reg{ID: i, Life: rapid.SampledFrom(lifes).Draw(t, "life")}
		forms := []int{FormPlain, FormPlain, FormPlain}
		if o.Multi {
			forms = append(forms, FormMulti)
		}
		if o.Out {
			forms = append(forms, FormOut)
		}
		if o.Instance {
			forms = append(forms, FormInstance)
		}
		if o.Void && (r.Life == Scoped || o.VoidAnyLife) {
			forms = append(forms, FormVoid)
		}
		r.Form = rapid.SampledFrom(forms).Draw(t, "form")
		ok := true
		switch r.Form {
		case FormPlain, FormInstance:
			if o.As && rapid.IntRange(0, 4).Draw(t, "useAs") == 0 {
				// concrete implementation registered under 1..2 interface aliases
				impl := g.concrete(t)
				r.Outs = []OutSpec{{T: impl, Impl: impl}}
				na := 1
				if o.MultiAs {
					na = rapid.IntRange(1, 2).Draw(t, "nas")
				}
				ifs := rapid.Permutation([]int{TI0, TI1, TI2, TI3}).Draw(t, "aliases")[:na]
				var key, group string
				if o.Groups && rapid.IntRange(0, 1).Draw(t, "asgrp") == 0 {
					group = rapid.SampledFrom(groupPool).Draw(t, "asgroup")
				} else if o.Keys {
					key = rapid.SampledFrom(keyPool).Draw(t, "askey")
				}
				for _, a := range ifs {
					id := Ident{T: a, Key: key, Group: group}
					if (group == "" && g.used[id]) || (group != "" && g.closedGrp[groupKey{a, group}]) {
						ok = false
					}
				}
				if !ok {
					break
				}
				r.As, r.Name, r.Group = ifs, key, group
				for _, a := range ifs {
					g.take(Ident{T: a, Key: key, Group: group}, r.Life, i)
				}
			} else {
				id, impl, found := g.freshIdent(t, true)
				if !found {
					ok = false
					break
				}
				if r.Form == FormInstance && id.T != impl && !IsSliceSvc(id.T) {
					// an instance value is registered under its own concrete type
					id.T = impl
					if id.Group == "" && g.used[id] {
						ok = false
						break
					}
					if id.Group != "" && g.closedGrp[groupKey{id.T, id.Group}] {
						ok = false
						break
					}
				}
				r.Outs = []OutSpec{{T: id.T, Impl: impl}}
				r.Name, r.Group = id.Key, id.Group
				g.take(id, r.Life, i)
			}
		case FormMulti:
			k := rapid.IntRange(2, 3).Draw(t, "nouts")
			group := ""
			if o.MultiGroup && o.Groups && rapid.IntRange(0, 3).Draw(t, "mgrp") == 0 {
				group = rapid.SampledFrom(groupPool).Draw(t, "mgroup")
			}
			seen := map[int]bool{}
			for j := 0; j < k && ok; j++ {
				found := false
				for try := 0; try < 20; try++ {
					ty := g.concrete(t)
					id := Ident{T: ty, Group: group}
					if seen[ty] || (group == "" && g.used[id]) || (group != "" && g.closedGrp[groupKey{ty, group}]) {
						continue
					}
					seen[ty] = true
					r.Outs = append(r.Outs, OutSpec{T: ty, Impl: ty})
					found = true
					break
				}
				ok = ok && found
			}
			if ok && o.NilOuts && group == "" && len(r.Outs) < 3 && rapid.IntRange(0, 2).Draw(t, "nilout") == 0 {
				// a secondary interface-typed output the constructor always leaves nil
				it := NumConcrete + rapid.IntRange(0, NumIface-1).Draw(t, "nilT")
				if id := (Ident{T: it}); !g.used[id] {
					g.used[id] = true // registered, but nothing can depend on it
					r.Outs = append(r.Outs, OutSpec{T: it, Impl: r.Outs[0].Impl, Nil: true})
				}
			}
			if ok && o.SameOuts && len(r.Outs) < 3 && ConcreteTypes[r.Outs[0].Impl].Kind() == reflect.Pointer && rapid.IntRange(0, 4).Draw(t, "sameout") == 0 {
				// one more output, interface-typed, for which the constructor hands back the very
				// instance of its first output
				it := NumConcrete + rapid.IntRange(0, NumIface-1).Draw(t, "sameT")
				id := Ident{T: it, Group: group}
				if (group == "" && !g.used[id]) || (group != "" && !g.closedGrp[groupKey{it, group}]) {
					r.Outs = append(r.Outs, OutSpec{T: it, Impl: r.Outs[0].Impl, Same: true, SameAs: 0})
				}
			}
			if ok && o.NilOuts && group == "" && rapid.IntRange(0, 4).Draw(t, "typednil") == 0 {
				// a secondary pointer-typed output the constructor always leaves nil (a typed nil
				// pointer whose type has methods - Close() among them for the D types)
				var cand []int
				for j := 1; j < len(r.Outs); j++ {
					if !r.Outs[j].Nil && !IsIface(r.Outs[j].T) && ConcreteTypes[r.Outs[j].T].Kind() == reflect.Pointer {
						cand = append(cand, j)
					}
				}
				if len(cand) > 0 {
					j := rapid.SampledFrom(cand).Draw(t, "typednilIdx")
					r.Outs[j].Nil = true
					g.used[Ident{T: r.Outs[j].T}] = true // registered, but nothing can depend on it
				}
			}
			if ok {
				r.Group = group
				for _, os := range r.Outs {
					if os.Nil {
						continue
					}
					g.take(Ident{T: os.T, Group: group}, r.Life, i)
				}
			}
		case FormOut:
			k := rapid.IntRange(1, 3).Draw(t, "nfields")
			seen := map[Ident]bool{}
			for j := 0; j < k; j++ {
				id, impl, found := g.freshIdent(t, o.OutGroupFields)
				if !found || (id.Group == "" && seen[id]) {
					continue
				}
				seen[id] = true
				r.Outs = append(r.Outs, OutSpec{T: id.T, Impl: impl, Key: id.Key, Group: id.Group})
			}
			if len(r.Outs) == 0 {
				ok = false
				break
			}
			if o.SameOuts && len(r.Outs) < 3 && !r.Outs[0].Nil && !IsSliceSvc(r.Outs[0].T) && ConcreteTypes[r.Outs[0].Impl].Kind() == reflect.Pointer && rapid.IntRange(0, 5).Draw(t, "samefield") == 0 {
				// one more field, interface-typed, that the constructor fills with the very instance of its first field
				it := NumConcrete + rapid.IntRange(0, NumIface-1).Draw(t, "samefieldT")
				id := Ident{T: it}
				if g.o.Keys {
					id.Key = rapid.SampledFrom(keyPool).Draw(t, "samefieldKey")
				}
				if !g.used[id] && !seen[id] {
					seen[id] = true
					r.Outs = append(r.Outs, OutSpec{T: it, Impl: r.Outs[0].Impl, Key: id.Key, Same: true, SameAs: 0})
				}
			}
			if o.NilOuts && len(r.Outs) >= 2 && rapid.IntRange(0, 3).Draw(t, "nilfield") == 0 {
				// a field the constructor always leaves nil - not the last one, so that whatever
				// godi derives from field positions has something to get wrong; nothing may depend on it
				var cand []int
				hasSame := false
				for _, os := range r.Outs {
					hasSame = hasSame || os.Same
				}
				for j, os := range r.Outs[:len(r.Outs)-1] {
					if os.Same || (j == 0 && hasSame) {
						continue
					}
					if os.Group == "" && (IsIface(os.T) || ConcreteTypes[os.Impl].Kind() == reflect.Pointer) {
						cand = append(cand, j)
					}
				}
				if len(cand) > 0 {
					r.Outs[rapid.SampledFrom(cand).Draw(t, "nilfieldIdx")].Nil = true
				}
			}
			for _, os := range r.Outs {
				if os.Nil {
					g.used[Ident{T: os.T, Key: os.Key}] = true // registered, but nothing can depend on it
					continue
				}
				g.take(Ident{T: os.T, Key: os.Key, Group: os.Group}, r.Life, i)
			}
		case FormVoid:
			if o.NamedVoid && r.Life == Scoped && rapid.IntRange(0, 2).Draw(t, "namedvoid") == 0 {
				r.Name = fmt.Sprintf("init%d", i)
				// a named initializer is a keyed service of type struct{}: others may depend on it
				// (a field `struct{}` tagged with its name), which runs it - once - before them
				g.take(Ident{T: TVoid, Key: r.Name}, r.Life, i)
			}
		}
		if !ok {
			continue
		}
		if r.Form != FormInstance {
			// deps must be drawn before the registration's own outputs become available: remove them temporarily
			own := 0
			for _, a := range g.avail {
				if a.reg == i {
					own++
				}
			}
			saved := g.avail
			g.avail = g.avail[:len(g.avail)-own]
			// own group memberships must not be consumed by itself either
			var needIn bool
			r.Deps, needIn = g.genDepsExcludingOwnGroups(t, r)
			g.avail = saved
			r.UseIn = needIn || (len(r.Deps) > 0 && rapid.IntRange(0, 3).Draw(t, "useIn") == 0)
			r.PtrIn = o.PtrIn && r.UseIn && rapid.IntRange(0, 2).Draw(t, "ptrIn") == 0
			if o.Err {
				r.HasErr = rapid.IntRange(0, 2).Draw(t, "hasErr") == 0
				if o.PtrErr && r.HasErr {
					switch rapid.IntRange(0, 7).Draw(t, "errType") {
					case 0, 1:
						r.PtrErr = true
					case 2:
						r.SliceErr = true
					}
				}
			}
		}
		if o.AltImpl && (r.Form == FormPlain || r.Form == FormOut) && len(r.As) == 0 {
			for j := range r.Outs {
				os := &r.Outs[j]
				repeated := false // handed back a second time as another output: stays one pointer-typed implementation
				for _, other := range r.Outs {
					repeated = repeated || (other.Same && other.SameAs == j)
				}
				if !IsIface(os.T) || os.Nil || os.Same || repeated || rapid.IntRange(0, 1).Draw(t, "alt") == 0 {
					continue
				}
				// the other implementation differs in whether it has a Close method
				if IsDisposable(os.Impl) {
					os.Alt = NumD + rapid.IntRange(0, NeverType-NumD-1).Draw(t, "altN")
				} else {
					os.Alt = rapid.IntRange(0, NumD-1).Draw(t, "altD")
				}
				os.HasAlt = true
			}
		}
		regs = append(regs, r)
	}
	if o.SigTwins && len(regs) > 0 && rapid.IntRange(0, 3).Draw(t, "sigtwin") == 0 {
		if tw, ok := g.genSigTwin(t, regs); ok {
			regs = append(regs, tw)
		}
	}
	if o.SliceSvc {
		// a variadic constructor: func(deps..., xs ...I0) declares a dependency on the service of
		// type []I0 (if there is an un-keyed one) and is called with that slice spread out
		pi, plife := -1, 0
		for i, r := range regs {
			for _, p := range r.Provides() {
				if p.Ident == (Ident{T: TSl}) && !(p.Out < len(r.Outs) && r.Outs[p.Out].Nil) {
					pi, plife = i, r.Life
				}
			}
		}
		if pi >= 0 {
			var cands []int
			for i := pi + 1; i < len(regs); i++ {
				r := regs[i]
				if r.Form != FormInstance && !r.UseIn && r.Kind == KindMakeFunc && (r.Life == Scoped || plife != Scoped) {
					cands = append(cands, i)
				}
			}
			if len(cands) > 0 && rapid.Bool().Draw(t, "variadic") {
				r := &regs[rapid.SampledFrom(cands).Draw(t, "variadicReg")]
				r.Deps = append(r.Deps, DepSpec{T: TSl})
				r.Variadic = true
			}
		}
	}
	if o.GroupBridge && rapid.IntRange(0, 7).Draw(t, "bridge") == 0 {
		regs = append(regs, genGroupBridge(t, regs)...)
	}
	if o.EmbedIn {
		genEmbeds(t, regs)
	}
	if o.Drops {
		regs = genDrops(t, regs, o.ReplaceBias)
	}
	// shuffle registration order (a registration that re-registers a removed identity stays behind the remover)
	perm := rapid.Permutation(seq(len(regs))).Draw(t, "regorder")
	cfg := &Config{}
	for _, i := range perm {
		cfg.Regs = append(cfg.Regs, regs[i])
	}
	for changed := true; changed; {
		changed = false
		pos := map[int]int{}
		for i, r := range cfg.Regs {
			pos[r.ID] = i
		}
		for i, r := range cfg.Regs {
			for _, before := range r.After {
				if j, ok := pos[before]; ok && j > i {
					cfg.Regs[i], cfg.Regs[j] = cfg.Regs[j], cfg.Regs[i]
					changed = true
					break
				}
			}
			if changed {
				break
			}
		}
	}
	if o.Groups {
		cfg.Scribble = rapid.IntRange(0, 2).Draw(t, "scribble") == 0
	}
	if o.PreBuild && len(cfg.Regs) >= 2 && rapid.IntRange(0, 3).Draw(t, "prebuild") == 0 {
		cfg.PreBuild = rapid.IntRange(1, len(cfg.Regs)-1).Draw(t, "prebuildN")
	}
	if o.StandIns {
		for i := range cfg.Regs {
			r := &cfg.Regs[i]
			if (r.Form != FormPlain && r.Form != FormInstance) || len(r.As) > 0 || r.Group != "" || len(r.After) > 0 || len(r.Dropped) > 0 || r.HasCtorOf {
				continue
			}
			if rapid.IntRange(0, 6).Draw(t, "standin") == 0 {
				r.StandIn, r.StandInLead, r.StandInLife = true, rapid.IntRange(1, 4).Draw(t, "standinLead"), rapid.IntRange(0, 2).Draw(t, "standinLife")
			}
		}
	}
	if o.BuildModes {
		cfg.BuildMode = rapid.SampledFrom([]int{0, 0, 0, 1, 2}).Draw(t, "buildMode")
	}
	if o.Ghosts && len(cfg.Regs) >= 2 && rapid.IntRange(0, 2).Draw(t, "ghosts") == 0 {
		ng := rapid.IntRange(1, 2).Draw(t, "nghosts")
		for k := 0; k < ng; k++ {
			gh := Ghost{T: rapid.IntRange(0, NeverType-1).Draw(t, "ghostT"), Key: fmt.Sprintf("ghost%d", k), Life: rapid.IntRange(0, 2).Draw(t, "ghostLife")}
			if k == 0 && rapid.IntRange(0, 3).Draw(t, "ghostPlain") == 0 {
				gh.T, gh.Key = NeverType, "" // an un-keyed registration of the type nothing else provides
			}
			gh.At = rapid.IntRange(0, len(cfg.Regs)-1).Draw(t, "ghostAt")
			gh.Span = rapid.IntRange(0, len(cfg.Regs)-1-gh.At).Draw(t, "ghostSpan")
			cfg.Ghosts = append(cfg.Ghosts, gh)
		}
	}
	return cfg
}

// genSigTwin adds a registration whose function value has exactly the
// signature of an existing one (for reflect.MakeFunc values that also means the
// same code pointer, hence one shared analysis record inside godi) but another
// lifetime and another group or name. Nothing depends on the twin.
func (g *genState) genSigTwin(t *rapid.T, regs []Reg) (Reg, bool) {
	var cands []int
	for i, r := range regs {
		hasNil := false
		for _, os := range r.Outs {
			hasNil = hasNil || os.Nil
		}
		if (r.Form == FormPlain || r.Form == FormMulti) && len(r.As) == 0 && len(r.Dropped) == 0 && !hasNil && !IsSliceSvc(r.Outs[0].T) {
			cands = append(cands, i)
		}
	}
	if len(cands) == 0 {
		return Reg{}, false
	}
	src := regs[rapid.SampledFrom(cands).Draw(t, "twinOf")]
	nextID := 0
	for _, r := range regs {
		if r.ID >= nextID {
			nextID = r.ID + 1
		}
	}
	tw := Reg{ID: nextID, Form: src.Form, HasErr: src.HasErr, PtrErr: src.PtrErr, SliceErr: src.SliceErr, UseIn: src.UseIn, PtrIn: src.PtrIn, IsTwin: true, TwinOf: src.ID,
		Outs: append([]OutSpec(nil), src.Outs...), Deps: append([]DepSpec(nil), src.Deps...)}
	// lifetimes the dependencies allow: anything long-lived must not depend on a scoped service
	scopedDep := false
	for _, d := range tw.Deps {
		if d.Builtin != 0 || d.Ignored {
			continue
		}
		if d.Group != "" {
			for _, l := range g.groups[groupKey{d.T, d.Group}] {
				scopedDep = scopedDep || l == Scoped
			}
			continue
		}
		for _, a := range g.avail {
			if a.id.T == d.T && a.id.Key == d.Key && a.life == Scoped {
				scopedDep = true
			}
		}
	}
	var lifes []int
	for _, l := range []int{Singleton, Scoped, Transient} {
		if l != src.Life && (l == Scoped || !scopedDep) {
			lifes = append(lifes, l)
		}
	}
	if len(lifes) == 0 {
		return Reg{}, false
	}
	tw.Life = rapid.SampledFrom(lifes).Draw(t, "twinLife")
	// another group (groups accumulate members) or, for a single output, another name
	for _, grp := range rapid.Permutation(append([]string(nil), groupPool...)).Draw(t, "twinGroups") {
		ok := true
		for _, os := range tw.Outs {
			if g.closedGrp[groupKey{os.T, grp}] {
				ok = false
			}
		}
		// a member of a group must not consume that very group
		for _, d := range tw.Deps {
			for _, os := range tw.Outs {
				if d.Group == grp && d.T == os.T {
					ok = false
				}
			}
		}
		if ok && (grp != src.Group || rapid.Bool().Draw(t, "twinSameGroup")) {
			tw.Group = grp
			break
		}
	}
	if tw.Group == "" {
		if tw.Form != FormPlain {
			return Reg{}, false
		}
		for _, k := range []string{"b b", "a", "tw"} {
			if id := (Ident{T: tw.Outs[0].T, Key: k}); !g.used[id] && k != src.Name {
				tw.Name = k
				break
			}
		}
		if tw.Name == "" {
			return Reg{}, false
		}
	}
	for i, os := range tw.Outs {
		if os.Nil {
			continue
		}
		id := Ident{T: os.T, Group: tw.Group}
		if i == 0 {
			id.Key = tw.Name
		}
		g.take(id, tw.Life, tw.ID)
	}
	return tw, true
}

func (g *genState) genDepsExcludingOwnGroups(t *rapid.T, r Reg) ([]DepSpec, bool) {
	// temporarily hide groups this registration is a member of
	hidden := map[groupKey][]int{}
	for _, p := range r.Provides() {
		if p.Ident.Group != "" {
			gk := groupKey{p.Ident.T, p.Ident.Group}
			if _, done := hidden[gk]; !done {
				hidden[gk] = g.groups[gk]
				delete(g.groups, gk)
			}
		}
	}
	deps, needIn := g.genDeps(t, r.Life)
	// a member of one group of T often consumes ANOTHER group of the same T (validators that run
	// the rules, ...): member ordinals of the two groups coincide, their identities do not
	var siblings []groupKey
	for gk := range hidden {
		for other, lifes := range g.groups {
			if other.T != gk.T || other.Group == gk.Group {
				continue
			}
			ok := true
			if r.Life != Scoped {
				for _, l := range lifes {
					if l == Scoped {
						ok = false
					}
				}
			}
			if ok {
				siblings = append(siblings, other)
			}
		}
	}
	if len(siblings) > 0 && len(deps) < g.o.MaxDeps+1 && rapid.Bool().Draw(t, "siblingGroup") {
		sortGroupKeys(siblings)
		gk := rapid.SampledFrom(siblings).Draw(t, "siblingGroupKey")
		g.closedGrp[gk] = true
		deps = append(deps, DepSpec{T: gk.T, Group: gk.Group})
		needIn = true
	}
	for gk, v := range hidden {
		g.groups[gk] = v
	}
	return deps, needIn
}

func seq(n int) []int {
	s := make([]int, n)
	for i := range s {
		s[i] = i
	}
	return s
}

// GenKindsConfig generates a configuration made only of plain constructors of
// the static function-value kinds (closures of one factory, method values,
// generic instantiations) mixed with reflect.MakeFunc ones, many of them with
// identical signatures, registered under distinct names.
func GenKindsConfig(t *rapid.T) *Config {
	cfg := &Config{}
	id := 0
	type base struct {
		argT int
		life int
	}
	var bases []base
	provFor := map[int][2]int{0: {0, -1}, NumD: {NumD, -1}, TI0: {1, TI0}, TI1: {NumD + 1, TI1}} // arg type -> (concrete T, alias)
	for _, a := range KindArgTypes {
		if rapid.IntRange(0, 3).Draw(t, "base") == 0 {
			continue
		}
		pf := provFor[a]
		r := Reg{ID: id, Life: rapid.IntRange(0, 2).Draw(t, "blife"), Form: FormPlain, Outs: []OutSpec{{T: pf[0], Impl: pf[0]}},
			Kind: rapid.IntRange(0, 3).Draw(t, "bkind"), HasErr: rapid.Bool().Draw(t, "berr")}
		if pf[1] >= 0 {
			r.As = []int{pf[1]}
		}
		cfg.Regs = append(cfg.Regs, r)
		bases = append(bases, base{a, r.Life})
		id++
	}
	n := rapid.IntRange(2, 8).Draw(t, "consumers")
	for i := 0; i < n; i++ {
		r := Reg{ID: id, Life: rapid.IntRange(0, 2).Draw(t, "life"), Form: FormPlain, Name: "k" + string(rune('0'+i)),
			Kind: rapid.IntRange(0, 3).Draw(t, "kind"), HasErr: rapid.IntRange(0, 2).Draw(t, "err") == 0}
		ty := rapid.SampledFrom(KindTypes).Draw(t, "T")
		r.Outs = []OutSpec{{T: ty, Impl: ty}}
		var cands []base
		for _, b := range bases {
			if r.Life == Scoped || b.life != Scoped {
				cands = append(cands, b)
			}
		}
		if len(cands) > 0 && rapid.IntRange(0, 2).Draw(t, "hasdep") != 0 {
			b := rapid.SampledFrom(cands).Draw(t, "dep")
			r.Deps = []DepSpec{{T: b.argT}}
		}
		cfg.Regs = append(cfg.Regs, r)
		id++
	}
	perm := rapid.Permutation(seq(len(cfg.Regs))).Draw(t, "order")
	out := &Config{}
	for _, i := range perm {
		out.Regs = append(out.Regs, cfg.Regs[i])
	}
	return out
}

// genDrops lets some registrations that register several identities lose one
// of them again (Remove / RemoveKeyed right after the Add call). Only an
// identity nobody depends on is dropped, at least one real output stays, and
// Remove(T) is only used for a type that has no keyed or grouped registration
// (its documentation and its implementation disagree about those).
func genDrops(t *rapid.T, regs []Reg, replaceBias bool) []Reg {
	needed := map[Ident]bool{}
	typeHasKeyedOrGroup := map[int]bool{}
	for _, r := range regs {
		for _, d := range r.Deps {
			if d.Builtin == 0 && !d.Ignored {
				needed[Ident{T: d.T, Key: d.Key}] = true
			}
		}
		for _, p := range r.AllProvides() {
			if p.Ident.Key != "" || p.Ident.Group != "" {
				typeHasKeyedOrGroup[p.Ident.T] = true
			}
		}
	}
	nextID := 0
	for _, r := range regs {
		if r.ID >= nextID {
			nextID = r.ID + 1
		}
	}
	var again []Reg
	for i := range regs {
		r := &regs[i]
		all := r.AllProvides()
		if len(all) < 2 || r.Form == FormInstance {
			continue
		}
		var cand []int
		for k, p := range all {
			if p.Ident.Group != "" || needed[p.Ident] {
				continue
			}
			if p.Ident.Key == "" && typeHasKeyedOrGroup[p.Ident.T] {
				continue
			}
			// something real must remain
			rest := 0
			for k2, p2 := range all {
				if k2 != k && !(p2.Out < len(r.Outs) && r.Outs[p2.Out].Nil) {
					rest++
				}
			}
			if rest > 0 {
				cand = append(cand, k)
			}
		}
		if len(cand) == 0 || (!replaceBias && rapid.IntRange(0, 2).Draw(t, "drop") != 0) {
			continue
		}
		k := rapid.SampledFrom(cand).Draw(t, "dropIdx")
		r.Dropped = map[int]bool{k: true}
		{
			// half of the time somebody else registers the removed identity again (the
			// documented way of replacing one service of a module by a mock)
			if replaceBias || rapid.Bool().Draw(t, "reAdd") {
				id := all[k].Ident
				impl := id.T
				if IsIface(impl) {
					impl = rapid.IntRange(0, NumD-1).Draw(t, "reAddImpl")
				} else if IsSliceSvc(impl) {
					impl = NumD + rapid.IntRange(0, 3).Draw(t, "reAddCarrier")
				}
				life := rapid.IntRange(0, 2).Draw(t, "reAddLife")
				if replaceBias && rapid.Bool().Draw(t, "reAddSameLife") {
					life = r.Life // a mock takes the place of the real thing
				}
				again = append(again, Reg{ID: nextID, Life: life, Form: FormPlain,
					Outs: []OutSpec{{T: id.T, Impl: impl}}, Name: id.Key, HasErr: rapid.Bool().Draw(t, "reAddErr"), After: []int{r.ID}})
				nextID++
			}
		}
	}
	return append(regs, again...)
}

// genGroupBridge appends a small family under fresh identities: a chain of
// 1-3 services X0 <- X1 <- .., a member M of a fresh group that depends on the
// end of the chain, and a consumer S of that group (through a group field or a
// slice parameter). The only path from S to the chain runs through the group
// and its member, whatever the member's lifetime is: Build has to order the
// chain before S, and resolution has to wire it, through that path alone.
func genGroupBridge(t *rapid.T, regs []Reg) []Reg {
	nextID := 0
	for _, r := range regs {
		if r.ID >= nextID {
			nextID = r.ID + 1
		}
	}
	consumerLife := rapid.IntRange(0, 2).Draw(t, "bridgeConsumerLife")
	memberLife := rapid.IntRange(0, 2).Draw(t, "bridgeMemberLife")
	if consumerLife != Scoped && memberLife == Scoped {
		memberLife = Transient
	}
	depth := rapid.IntRange(1, 3).Draw(t, "bridgeDepth")
	var out []Reg
	var prev *DepSpec
	for i := 0; i < depth; i++ {
		life := Singleton
		if memberLife == Scoped && rapid.Bool().Draw(t, "bridgeChainScoped") {
			life = Scoped
		}
		if prev != nil && life == Singleton {
			// a singleton link cannot follow a scoped one
			for _, r := range out {
				if r.Life == Scoped {
					life = Scoped
				}
			}
		}
		ty := rapid.IntRange(0, NeverType-1).Draw(t, "bridgeT")
		r := Reg{ID: nextID, Life: life, Form: FormPlain, Outs: []OutSpec{{T: ty, Impl: ty}}, Name: fmt.Sprintf("br%d", i), HasErr: rapid.Bool().Draw(t, "bridgeErr")}
		nextID++
		if prev != nil {
			r.Deps = []DepSpec{*prev}
			r.UseIn = true
		}
		prev = &DepSpec{T: ty, Key: r.Name}
		out = append(out, r)
	}
	mt := rapid.IntRange(0, NeverType-1).Draw(t, "bridgeMemberT")
	if rapid.Bool().Draw(t, "bridgeSiblingGroup") {
		// one more layer: a second group over the SAME element type ("rules" next to
		// "validators") whose members hang on the chain; the members of the first group consume
		// that sibling group. Member ordinals of the two groups coincide, their identities do not.
		ns := rapid.IntRange(1, 2).Draw(t, "bridgeSiblings")
		for k := 0; k < ns; k++ {
			sl := memberLife
			if memberLife == Scoped && rapid.Bool().Draw(t, "bridgeSiblingLong") {
				sl = rapid.SampledFrom([]int{Singleton, Transient}).Draw(t, "bridgeSiblingLife")
				for _, r := range out {
					if r.Life == Scoped {
						sl = Scoped // the chain it depends on has a scoped link
					}
				}
			}
			m := Reg{ID: nextID, Life: sl, Form: FormPlain, Outs: []OutSpec{{T: mt, Impl: mt}}, Group: "br2", UseIn: true, Deps: []DepSpec{*prev}}
			nextID++
			out = append(out, m)
		}
		prev = &DepSpec{T: mt, Group: "br2"}
	}
	nm := rapid.IntRange(1, 2).Draw(t, "bridgeMembers")
	for k := 0; k < nm; k++ {
		m := Reg{ID: nextID, Life: memberLife, Form: FormPlain, Outs: []OutSpec{{T: mt, Impl: mt}}, Group: "br", UseIn: true}
		nextID++
		if k == 0 {
			m.Deps = []DepSpec{*prev}
		} else {
			m.UseIn = false
		}
		out = append(out, m)
	}
	ct := rapid.IntRange(0, NeverType-1).Draw(t, "bridgeConsumerT")
	c := Reg{ID: nextID, Life: consumerLife, Form: FormPlain, Outs: []OutSpec{{T: ct, Impl: ct}}, Name: "brc",
		Deps: []DepSpec{{T: mt, Group: "br"}}, UseIn: true}
	out = append(out, c)
	return out
}

package kit

import (
	"fmt"
	"strings"
)

// Lifetimes
const (
	Singleton = 0
	Scoped    = 1
	Transient = 2
)

// Forms of registration
const (
	FormPlain    = 0 // func(deps) T [, error]
	FormMulti    = 1 // func(deps) (T0, T1[, T2]) [, error]
	FormOut      = 2 // func(deps) struct{godi.Out; ...} [, error]
	FormInstance = 3 // a value, not a function
	FormVoid     = 4 // func(deps) or func(deps) error  (scope initialiser)
)

// Function-value kinds (C04)
const (
	KindMakeFunc = 0
	KindClosure  = 1 // closure from a noinline factory (shared code pointer)
	KindMethod   = 2 // method value bound to a receiver
	KindGeneric  = 3 // instantiation of a generic function
	KindTopLevel = 4
)

// Ident is a service identity: (type, key) or (type, group).
type Ident struct {
	T     int
	Key   string // "" = none
	Group string // "" = none
}

func (i Ident) String() string {
	s := TypeName(i.T)
	if i.Key != "" {
		s += ":" + i.Key
	}
	if i.Group != "" {
		s += "[" + i.Group + "]"
	}
	return s
}

// OutSpec is one output of a constructor.
type OutSpec struct {
	T     int    // declared type id (concrete or interface)
	Impl  int    // concrete type id allocated (== T when T is concrete)
	Key   string // result-object field name tag
	Group string // result-object field group tag
	Nil   bool   // the constructor always returns nil for this (interface-typed, secondary) output
	// HasAlt: the declared type is an interface and the constructor returns a
	// value of concrete type Alt instead of Impl on every second invocation
	// (implementations chosen at run time: one may have a Close method, the
	// other not).
	HasAlt bool
	Alt    int
	// Same: the constructor returns for this (interface-typed) output the very
	// instance it returns for output SameAs - one instance handed back under
	// two declared types, func() (io.Reader, io.Writer) { return b, b }.
	Same   bool
	SameAs int
}

// DepSpec is one declared dependency.
type DepSpec struct {
	T        int
	Key      string
	Group    string
	Optional bool
	Builtin  int  // 0 none, 1 context.Context, 2 godi.Scope, 3 godi.Provider
	Ignored  bool // In-struct field tagged inject:"-" (no dependency at all)
}

func (d DepSpec) Ident() Ident { return Ident{T: d.T, Key: d.Key, Group: d.Group} }

func (d DepSpec) String() string {
	if d.Builtin != 0 {
		s := []string{"", "ctx", "scope", "provider"}[d.Builtin]
		if d.Key != "" {
			s += ":" + d.Key
		}
		return s
	}
	s := d.Ident().String()
	if d.Optional {
		s += "?"
	}
	if d.Ignored {
		s += "!ignored"
	}
	return s
}

// Reg is one registration call.
type Reg struct {
	ID     int
	Life   int
	Form   int
	Outs   []OutSpec
	HasErr bool
	// PtrErr: the error result is declared with a concrete pointer type that implements error
	// (func(...) (T, *ConfigError)); nil means success (synthesised constructors only)
	PtrErr bool
	// Locate: the constructor looks this identity up through the Scope or Provider it was injected with
	// (a service locator: a dependency the container does not know) and reports the error it gets
	Locate *Ident
	// SliceErr: the error result is declared with a slice-kind type that implements error
	// (validation errors: type FieldErrors []error); nil means success
	SliceErr bool
	UseIn    bool
	// PtrIn: the parameter object is taken by pointer (func(p *Params)); the harness keeps the
	// pointer, as a service that stores its parameter object would (synthesised constructors only)
	PtrIn  bool
	Deps   []DepSpec
	Name   string
	Group  string
	As     []int
	Kind   int
	BadOpt int // hostile option appended to the call (C15/C17/C20)
	// HasCtorOf: the registration call passes the very function value that
	// registration CtorOf was registered with (one constructor registered twice,
	// under another name / lifetime). The ledger cannot tell the two apart, so
	// this is only used where nothing is constructed (Build must fail).
	HasCtorOf bool
	CtorOf    int
	// StandIn: StandInLead registration calls before this registration is
	// issued, another constructor is registered under its (single) identity with
	// lifetime StandInLife; right before this registration's own call the
	// stand-in is removed again (the documented way of replacing a service by a
	// mock: Remove, then Add). The stand-in is no part of the model.
	StandIn     bool
	StandInLead int
	StandInLife int
	// Variadic: the constructor is variadic; its last dependency (a service of
	// the slice type []I0) is declared as "...I0".
	Variadic bool
	// IsTwin: the function value has exactly the signature of registration TwinOf's
	// (another function value, another lifetime, another group or name).
	IsTwin bool
	TwinOf int
	// After: ids of registrations whose calls must come before this one (it
	// registers an identity again that one of them registered and removed).
	After []int
	// Dropped: indices into AllProvides() of identities that are removed from
	// the collection again (Remove / RemoveKeyed) right after the registration
	// call. The constructor still produces those outputs, but they are not
	// services: the registration behaves as if it had never provided them.
	Dropped map[int]bool
}

// Hostile options
const (
	BadOptNone       = 0
	BadOptNil        = 1 // a nil AddOption: ignored by contract
	BadOptAsNonIface = 2 // godi.As[int](): invalid
	BadOptBackquote  = 3 // godi.Name with a backquote: invalid
	BadOptAsAnyVoid  = 4 // godi.As[any]() on a function that returns nothing (only generated for those): there is no value to provide under an interface - invalid
)

// InvalidOptions reports whether the option combination must be rejected.
func (r Reg) InvalidOptions() bool {
	if r.Form == FormOut {
		for _, o := range r.Outs {
			if o.Key != "" && o.Group != "" {
				return true // a result-object field is a named service or a group member, not both
			}
		}
	}
	return (r.Name != "" && r.Group != "") || r.BadOpt == BadOptAsNonIface || r.BadOpt == BadOptBackquote || (r.BadOpt == BadOptAsAnyVoid && r.Form == FormVoid)
}

func (r Reg) String() string {
	var sb strings.Builder
	fmt.Fprintf(&sb, "r%d:%s/%s", r.ID, []string{"Sing", "Scop", "Tran"}[r.Life], []string{"plain", "multi", "out", "inst", "void"}[r.Form])
	if r.Kind != 0 {
		fmt.Fprintf(&sb, "/k%d", r.Kind)
	}
	sb.WriteString("(")
	for i, o := range r.Outs {
		if i > 0 {
			sb.WriteString(",")
		}
		sb.WriteString(TypeName(o.T))
		if o.Impl != o.T {
			sb.WriteString("=" + TypeName(o.Impl))
			if o.HasAlt {
				sb.WriteString("/" + TypeName(o.Alt))
			}
		}
		if o.Nil {
			sb.WriteString("=nil")
		}
		if o.Same {
			fmt.Fprintf(&sb, "=the-instance-of-output-%d", o.SameAs)
		}
		if o.Key != "" {
			sb.WriteString(":" + o.Key)
		}
		if o.Group != "" {
			sb.WriteString("[" + o.Group + "]")
		}
	}
	if r.HasErr && r.SliceErr && r.Kind == KindMakeFunc {
		sb.WriteString(",[]err")
	} else if r.HasErr && r.PtrErr && r.Kind == KindMakeFunc {
		sb.WriteString(",*err")
	} else if r.HasErr {
		sb.WriteString(",err")
	}
	sb.WriteString(")")
	if r.Name != "" {
		sb.WriteString(" name=" + r.Name)
	}
	if r.Group != "" {
		sb.WriteString(" group=" + r.Group)
	}
	if len(r.As) > 0 {
		sb.WriteString(" as=")
		for _, a := range r.As {
			sb.WriteString(TypeName(a))
		}
	}
	if r.HasCtorOf {
		fmt.Fprintf(&sb, " same-function-as=r%d", r.CtorOf)
	}
	if r.Locate != nil {
		fmt.Fprintf(&sb, " (looks %s up through the Scope/Provider it is given)", *r.Locate)
	}
	if r.IsTwin {
		fmt.Fprintf(&sb, " (same signature as r%d)", r.TwinOf)
	}
	if r.Variadic {
		sb.WriteString(" (variadic: last parameter ...I0)")
	}
	if standInOK(&r) {
		fmt.Fprintf(&sb, " (replaces a %s stand-in registered %d calls earlier and removed right before)", []string{"Sing", "Scop", "Tran"}[r.StandInLife], r.StandInLead)
	}
	if len(r.After) > 0 {
		fmt.Fprintf(&sb, " (registered after r%d removed it)", r.After[0])
	}
	if r.Kind == 6 && twinShapeOK(&r) {
		sb.WriteString(" (parameter object: one of two local types both called 'params')")
	}
	if r.Kind == 5 && embedShapeOK(&r) {
		sb.WriteString(" (dependency declared through an embedded In field)")
	}
	if len(r.Dropped) > 0 {
		sb.WriteString(" removed=")
		for i, p := range r.AllProvides() {
			if r.Dropped[i] {
				sb.WriteString(p.Ident.String() + ",")
			}
		}
	}
	if len(r.Deps) > 0 {
		if r.UseIn && r.PtrIn && r.Kind == KindMakeFunc {
			sb.WriteString(" in*{")
		} else if r.UseIn {
			sb.WriteString(" in{")
		} else {
			sb.WriteString(" <-{")
		}
		for i, d := range r.Deps {
			if i > 0 {
				sb.WriteString(",")
			}
			sb.WriteString(d.String())
		}
		sb.WriteString("}")
	}
	return sb.String()
}

// Config is an ordered list of registrations.
type Config struct {
	Regs []Reg
	// PreBuild > 0: the first PreBuild registrations (in registration order)
	// are registered and the collection is built, used and closed once before
	// the remaining registrations are added and the collection is built for
	// real. Building is not supposed to leave anything behind in the collection.
	PreBuild int
	// LateDuringBuild: instead of building the collection once after the first PreBuild registrations,
	// the remaining registration calls are issued by a second goroutine while the one and only Build is
	// under way - started from the LateAt-th time Build looks at its context. Collection documents that
	// it is to be configured before Build; what is asked here is only what holds for the provider that a
	// successful Build returned, whichever registrations it saw.
	LateDuringBuild bool
	LateAt          int
	// Ghosts are registrations that come and go while the collection is being
	// assembled: each is registered before the At-th registration call and
	// removed again (Remove / RemoveKeyed) after Span further calls - at the
	// latest before Build. They are no part of the model: a later Build must
	// behave as if they had never existed, and their constructors never run.
	Ghosts []Ghost
	// BuildMode: 0 Build(); 1 BuildWithContext with a cancellable, value-carrying
	// context that the caller cancels once Build has returned; 2 BuildWithOptions
	// with a (generous) build timeout. The provider is the same in all three.
	BuildMode int
	// Scribble: user code treats the slices it is given as its own - a constructor reorders the
	// group slices it was injected with (after the harness has recorded them), the caller of
	// GetGroup reorders the result. Nobody else may ever see that.
	Scribble bool
}

// Ghost is a registration that is removed again before Build (see Config.Ghosts).
type Ghost struct {
	T    int    // a concrete type id
	Key  string // "" only for NeverType, which nothing else provides
	Life int
	At   int // registered before the At-th registration call (0-based)
	Span int // removed after Span further registration calls
}

func (g Ghost) String() string {
	return fmt.Sprintf("ghost(%s %s, added before call %d, removed %d calls later)", []string{"Sing", "Scop", "Tran"}[g.Life], Ident{T: g.T, Key: g.Key}, g.At, g.Span)
}

func (c *Config) String() string {
	parts := make([]string, len(c.Regs))
	for i, r := range c.Regs {
		parts[i] = r.String()
	}
	for _, g := range c.Ghosts {
		parts = append(parts, g.String())
	}
	if c.BuildMode != 0 {
		parts = append(parts, []string{"", "[BuildWithContext, context cancelled after Build]", "[BuildWithOptions, build timeout]"}[c.BuildMode])
	}
	if c.Scribble {
		parts = append(parts, "[constructors and callers reorder the group slices they get]")
	}
	if c.PreBuild > 0 && c.LateDuringBuild {
		return fmt.Sprintf("[all but the first %d registered by another goroutine during Build, from its context poll no. %d] ", c.PreBuild, c.LateAt) + strings.Join(parts, " ; ")
	}
	if c.PreBuild > 0 {
		return fmt.Sprintf("[built once after the first %d] ", c.PreBuild) + strings.Join(parts, " ; ")
	}
	return strings.Join(parts, " ; ")
}

// Provided lists the identities a registration provides, in registration
// order, with the output index each one comes from.
type Provided struct {
	Ident Ident
	Out   int
}

// Provides lists the identities the registration provides once its dropped
// identities have been removed again.
func (r Reg) Provides() []Provided {
	all := r.AllProvides()
	if len(r.Dropped) == 0 {
		return all
	}
	ps := make([]Provided, 0, len(all))
	for i, p := range all {
		if !r.Dropped[i] {
			ps = append(ps, p)
		}
	}
	return ps
}

// AllProvides lists the identities the registration call itself registers.
func (r Reg) AllProvides() []Provided {
	switch r.Form {
	case FormVoid:
		if r.Name != "" {
			// a named initializer is resolvable as a keyed empty struct
			return []Provided{{Ident{T: TVoid, Key: r.Name}, 0}}
		}
		return nil
	case FormPlain, FormInstance:
		if len(r.As) > 0 {
			ps := make([]Provided, 0, len(r.As))
			for _, a := range r.As {
				ps = append(ps, Provided{Ident{T: a, Key: r.Name, Group: r.Group}, 0})
			}
			return ps
		}
		return []Provided{{Ident{T: r.Outs[0].T, Key: r.Name, Group: r.Group}, 0}}
	case FormMulti:
		ps := make([]Provided, 0, len(r.Outs))
		for i, o := range r.Outs {
			id := Ident{T: o.T, Group: r.Group}
			if i == 0 {
				id.Key = r.Name
			}
			out := i
			if o.Same {
				out = o.SameAs // the identity is served by the instance of that output
			}
			ps = append(ps, Provided{id, out})
		}
		return ps
	case FormOut:
		ps := make([]Provided, 0, len(r.Outs))
		for i, o := range r.Outs {
			out := i
			if o.Same {
				out = o.SameAs
			}
			ps = append(ps, Provided{Ident{T: o.T, Key: o.Key, Group: o.Group}, out})
		}
		return ps
	}
	return nil
}

// implFor picks the concrete type the constructor allocates for this output in
// the given invocation.
func (o OutSpec) implFor(inv *Inv) int {
	if o.HasAlt && inv != nil && inv.N%2 == 0 {
		return o.Alt
	}
	return o.Impl
}

package kit

import (
	"fmt"
	"strings"
)

// Lifetimes
const (
	Singleton = 0
	Scoped    = 1
	Transient = 2
)

// Forms of registration
const (
	FormPlain    = 0 // func(deps) T [, error]
	FormMulti    = 1 // func(deps) (T0, T1[, T2]) [, error]
	FormOut      = 2 // func(deps) struct{godi.Out; ...} [, error]
	FormInstance = 3 // a value, not a function
	FormVoid     = 4 // func(deps) or func(deps) error  (scope initialiser)
)

// Function-value kinds (C04)
const (
	KindMakeFunc = 0
	KindClosure  = 1 // closure from a noinline factory (shared code pointer)
	KindMethod   = 2 // method value bound to a receiver
	KindGeneric  = 3 // instantiation of a generic function
	KindTopLevel = 4
)

// Ident is a service identity: (type, key) or (type, group).
type Ident struct {
	T     int
	Key   string // "" = none
	Group string // "" = none
}

func (i Ident) String() string {
	s := TypeName(i.T)
	if i.Key != "" {
		s += ":" + i.Key
	}
	if i.Group != "" {
		s += "[" + i.Group + "]"
	}
	return s
}

// OutSpec is one output of a constructor.
type OutSpec struct {
	T     int    // declared type id (concrete or interface)
	Impl  int    // concrete type id allocated (== T when T is concrete)
	Key   string // result-object field name tag
	Group string // result-object field group tag
	Nil   bool   // the constructor always returns nil for this (interface-typed, secondary) output
}

// DepSpec is one declared dependency.
type DepSpec struct {
	T        int
	Key      string
	Group    string
	Optional bool
	Builtin  int  // 0 none, 1 context.Context, 2 godi.Scope, 3 godi.Provider
	Ignored  bool // In-struct field tagged inject:"-" (no dependency at all)
}

func (d DepSpec) Ident() Ident { return Ident{T: d.T, Key: d.Key, Group: d.Group} }

func (d DepSpec) String() string {
	if d.Builtin != 0 {
		s := []string{"", "ctx", "scope", "provider"}[d.Builtin]
		if d.Key != "" {
			s += ":" + d.Key
		}
		return s
	}
	s := d.Ident().String()
	if d.Optional {
		s += "?"
	}
	if d.Ignored {
		s += "!ignored"
	}
	return s
}

// Reg is one registration call.
type Reg struct {
	ID     int
	Life   int
	Form   int
	Outs   []OutSpec
	HasErr bool
	UseIn  bool
	Deps   []DepSpec
	Name   string
	Group  string
	As     []int
	Kind   int
	BadOpt int // hostile option appended to the call (C15/C17/C20)
}

// Hostile options
const (
	BadOptNone       = 0
	BadOptNil        = 1 // a nil AddOption: ignored by contract
	BadOptAsNonIface = 2 // godi.As[int](): invalid
	BadOptBackquote  = 3 // godi.Name with a backquote: invalid
)

// InvalidOptions reports whether the option combination must be rejected.
func (r Reg) InvalidOptions() bool {
	if r.Form == FormOut {
		for _, o := range r.Outs {
			if o.Key != "" && o.Group != "" {
				return true // a result-object field is a named service or a group member, not both
			}
		}
	}
	return (r.Name != "" && r.Group != "") || r.BadOpt == BadOptAsNonIface || r.BadOpt == BadOptBackquote
}

func (r Reg) String() string {
	var sb strings.Builder
	fmt.Fprintf(&sb, "r%d:%s/%s", r.ID, []string{"Sing", "Scop", "Tran"}[r.Life], []string{"plain", "multi", "out", "inst", "void"}[r.Form])
	if r.Kind != 0 {
		fmt.Fprintf(&sb, "/k%d", r.Kind)
	}
	sb.WriteString("(")
	for i, o := range r.Outs {
		if i > 0 {
			sb.WriteString(",")
		}
		sb.WriteString(TypeName(o.T))
		if o.Impl != o.T {
			sb.WriteString("=" + TypeName(o.Impl))
		}
		if o.Nil {
			sb.WriteString("=nil")
		}
		if o.Key != "" {
			sb.WriteString(":" + o.Key)
		}
		if o.Group != "" {
			sb.WriteString("[" + o.Group + "]")
		}
	}
	if r.HasErr {
		sb.WriteString(",err")
	}
	sb.WriteString(")")
	if r.Name != "" {
		sb.WriteString(" name=" + r.Name)
	}
	if r.Group != "" {
		sb.WriteString(" group=" + r.Group)
	}
	if len(r.As) > 0 {
		sb.WriteString(" as=")
		for _, a := range r.As {
			sb.WriteString(TypeName(a))
		}
	}
	if len(r.Deps) > 0 {
		if r.UseIn {
			sb.WriteString(" in{")
		} else {
			sb.WriteString(" <-{")
		}
		for i, d := range r.Deps {
			if i > 0 {
				sb.WriteString(",")
			}
			sb.WriteString(d.String())
		}
		sb.WriteString("}")
	}
	return sb.String()
}

// Config is an ordered list of registrations.
type Config struct{ Regs []Reg }

func (c *Config) String() string {
	parts := make([]string, len(c.Regs))
	for i, r := range c.Regs {
		parts[i] = r.String()
	}
	return strings.Join(parts, " ; ")
}

// Provided lists the identities a registration provides, in registration
// order, with the output index each one comes from.
type Provided struct {
	Ident Ident
	Out   int
}

func (r Reg) Provides() []Provided {
	switch r.Form {
	case FormVoid:
		return nil
	case FormPlain, FormInstance:
		if len(r.As) > 0 {
			ps := make([]Provided, 0, len(r.As))
			for _, a := range r.As {
				ps = append(ps, Provided{Ident{T: a, Key: r.Name, Group: r.Group}, 0})
			}
			return ps
		}
		return []Provided{{Ident{T: r.Outs[0].T, Key: r.Name, Group: r.Group}, 0}}
	case FormMulti:
		ps := make([]Provided, 0, len(r.Outs))
		for i, o := range r.Outs {
			id := Ident{T: o.T, Group: r.Group}
			if i == 0 {
				id.Key = r.Name
			}
			ps = append(ps, Provided{id, i})
		}
		return ps
	case FormOut:
		ps := make([]Provided, 0, len(r.Outs))
		for i, o := range r.Outs {
			ps = append(ps, Provided{Ident{T: o.T, Key: o.Key, Group: o.Group}, i})
		}
		return ps
	}
	return nil
}

package kit

import (
	"errors"

	"github.com/junioryono/godi/v4"
)

// Classify maps an error to the verdict classes of Build / resolution using
// errors.Is / errors.As only.
func Classify(err error) string {
	if err == nil {
		return VOK
	}
	var ce *godi.CircularDependencyError
	var cev godi.CircularDependencyError
	if errors.As(err, &ce) || errors.As(err, &cev) {
		return VCircular
	}
	var le *godi.LifetimeConflictError
	var lev godi.LifetimeConflictError
	if errors.As(err, &le) || errors.As(err, &lev) {
		return VLifetime
	}
	if errors.Is(err, godi.ErrServiceNotFound) {
		return VMissing
	}
	var pe *godi.ConstructorPanicError
	var pev godi.ConstructorPanicError
	var ie *godi.ConstructorInvocationError
	var iev godi.ConstructorInvocationError
	if errors.As(err, &pe) || errors.As(err, &pev) || errors.As(err, &ie) || errors.As(err, &iev) {
		return VCtor
	}
	return VOther
}

func IsNotFound(err error) bool { return errors.Is(err, godi.ErrServiceNotFound) }
func IsScopeDisposed(err error) bool {
	return errors.Is(err, godi.ErrScopeDisposed)
}
func IsProviderDisposed(err error) bool { return errors.Is(err, godi.ErrProviderDisposed) }
func IsDisposed(err error) bool         { return IsScopeDisposed(err) || IsProviderDisposed(err) }

func IsDisposalError(err error) bool {
	var de *godi.DisposalError
	var dev godi.DisposalError
	return errors.As(err, &de) || errors.As(err, &dev)
}

func IsAlreadyRegistered(err error) bool {
	var ae *godi.AlreadyRegisteredError
	var aev godi.AlreadyRegisteredError
	return errors.As(err, &ae) || errors.As(err, &aev)
}

// CircularPath extracts the reported cycle path, if any.
func CircularPath(err error) (*godi.CircularDependencyError, bool) {
	var ce *godi.CircularDependencyError
	if errors.As(err, &ce) {
		return ce, true
	}
	var cev godi.CircularDependencyError
	if errors.As(err, &cev) {
		return &cev, true
	}
	return nil, false
}

package kit

import (
	"fmt"
	"reflect"
	"sort"
	"strings"

	vh "github.com/junioryono/godi/v4/verifhooks"
)

// ---- node identities for driving the graph component directly ----

type gT0 struct{ _ int }
type gT1 struct{ _ int }
type gT2 struct{ _ int }

var gTypes = []reflect.Type{reflect.TypeOf(&gT0{}), reflect.TypeOf(&gT1{}), reflect.TypeOf(gT2{})}

// GNodePool returns n distinct node identities mixing types, keys and groups.
func GNodePool(n int) []vh.NodeKey {
	all := []vh.NodeKey{
		{Type: gTypes[0]},
		{Type: gTypes[1]},
		{Type: gTypes[2]},
		{Type: gTypes[0], Key: "a"},
		{Type: gTypes[0], Key: 1},
		{Type: gTypes[1], Group: "g"},
		{Type: gTypes[1], Key: 1, Group: "g"},
		{Type: gTypes[2], Key: "a"},
		{Type: gTypes[2], Group: "g"},
		{Type: gTypes[1], Key: "a"},
		{Type: gTypes[2], Key: 1},
		{Type: gTypes[0], Group: "g"},
		{Type: gTypes[0], Key: 2, Group: "g"},
		{Type: gTypes[1], Key: 2},
		{Type: gTypes[2], Key: 2, Group: "h"},
		{Type: gTypes[2], Group: "h"},
	}
	if n > len(all) {
		n = len(all)
	}
	return all[:n]
}

// GProv is a harness implementation of the graph's provider interface.
type GProv struct {
	K    vh.NodeKey
	Deps []vh.NodeKey
	Tag  int
}

func (p *GProv) GetType() reflect.Type { return p.K.Type }
func (p *GProv) GetKey() any           { return p.K.Key }
func (p *GProv) GetGroup() string      { return p.K.Group }
func (p *GProv) GetDependencies() []*vh.Dependency {
	out := make([]*vh.Dependency, len(p.Deps))
	for i, d := range p.Deps {
		out[i] = &vh.Dependency{Type: d.Type, Key: d.Key, Group: d.Group, Index: i}
	}
	return out
}

// ---- plain reference digraph over small integer ids ----

// Digraph is the reference model: node set, ordered out-edge lists (duplicates
// and self-loops allowed), and which provider tag is attached.
type Digraph struct {
	N    int     // size of id space
	Has  []bool  // node exists
	Out  [][]int // ordered out edges (dependencies)
	Prov []int   // provider tag, 0 = placeholder
}

func NewDigraph(n int) *Digraph {
	return &Digraph{N: n, Has: make([]bool, n), Out: make([][]int, n), Prov: make([]int, n)}
}

func (d *Digraph) Clone() *Digraph {
	c := NewDigraph(d.N)
	copy(c.Has, d.Has)
	copy(c.Prov, d.Prov)
	for i, o := range d.Out {
		c.Out[i] = append([]int(nil), o...)
	}
	return c
}

func (d *Digraph) Equal(o *Digraph) bool {
	for i := 0; i < d.N; i++ {
		if d.Has[i] != o.Has[i] || d.Prov[i] != o.Prov[i] || !reflect.DeepEqual(append([]int{}, d.Out[i]...), append([]int{}, o.Out[i]...)) {
			return false
		}
	}
	return true
}

// Add sets node v's provider and replaces its out-edges; dependency nodes come into existence.
func (d *Digraph) Add(v int, deps []int, tag int) {
	d.Has[v] = true
	d.Prov[v] = tag
	d.Out[v] = append([]int(nil), deps...)
	for _, w := range deps {
		d.Has[w] = true
	}
}

func (d *Digraph) Remove(v int) {
	if !d.Has[v] {
		return
	}
	d.Has[v] = false
	d.Prov[v] = 0
	d.Out[v] = nil
	for u := range d.Out {
		if len(d.Out[u]) == 0 {
			continue
		}
		f := d.Out[u][:0:0]
		for _, w := range d.Out[u] {
			if w != v {
				f = append(f, w)
			}
		}
		d.Out[u] = f
	}
}

func (d *Digraph) Clear() {
	for i := range d.Has {
		d.Has[i], d.Out[i], d.Prov[i] = false, nil, 0
	}
}

func (d *Digraph) Size() int {
	n := 0
	for _, h := range d.Has {
		if h {
			n++
		}
	}
	return n
}

func (d *Digraph) IsEdge(u, v int) bool {
	for _, w := range d.Out[u] {
		if w == v {
			return true
		}
	}
	return false
}

// Reach returns the set of nodes reachable from v by >= 1 edge.
func (d *Digraph) Reach(v int) []bool {
	seen := make([]bool, d.N)
	var st []int
	st = append(st, d.Out[v]...)
	for len(st) > 0 {
		u := st[len(st)-1]
		st = st[:len(st)-1]
		if seen[u] {
			continue
		}
		seen[u] = true
		st = append(st, d.Out[u]...)
	}
	return seen
}

// OnCycle reports whether v lies on a directed cycle.
func (d *Digraph) OnCycle(v int) bool { return d.Reach(v)[v] }

// Cyclic: does any directed cycle exist (transitive-closure formulation).
func (d *Digraph) Cyclic() bool {
	for v := 0; v < d.N; v++ {
		if d.Has[v] && d.OnCycle(v) {
			return true
		}
	}
	return false
}

// CyclicTarjan is a second, independent opinion: SCC of size>1 or self-loop.
func (d *Digraph) CyclicTarjan() bool {
	index, low := make([]int, d.N), make([]int, d.N)
	on := make([]bool, d.N)
	for i := range index {
		index[i] = -1
	}
	var stack []int
	next, cyc := 0, false
	var sc func(v int)
	sc = func(v int) {
		index[v], low[v] = next, next
		next++
		stack = append(stack, v)
		on[v] = true
		for _, w := range d.Out[v] {
			if w == v {
				cyc = true
			}
			if index[w] < 0 {
				sc(w)
				if low[w] < low[v] {
					low[v] = low[w]
				}
			} else if on[w] && index[w] < low[v] {
				low[v] = index[w]
			}
		}
		if low[v] == index[v] {
			n := 0
			for {
				w := stack[len(stack)-1]
				stack = stack[:len(stack)-1]
				on[w] = false
				n++
				if w == v {
					break
				}
			}
			if n > 1 {
				cyc = true
			}
		}
	}
	for v := 0; v < d.N; v++ {
		if d.Has[v] && index[v] < 0 {
			sc(v)
		}
	}
	return cyc
}

// CycleReachableFrom: is some directed cycle reachable from v (v itself included)?
func (d *Digraph) CycleReachableFrom(v int) bool {
	if d.OnCycle(v) {
		return true
	}
	r := d.Reach(v)
	for u := 0; u < d.N; u++ {
		if r[u] && d.OnCycle(u) {
			return true
		}
	}
	return false
}

// InDeg counts incoming edges (with multiplicity).
func (d *Digraph) InDeg(v int) int {
	n := 0
	for u := range d.Out {
		for _, w := range d.Out[u] {
			if w == v {
				n++
			}
		}
	}
	return n
}

// Depth = longest dependency chain below v (acyclic graphs only).
func (d *Digraph) Depth(v int) int {
	best := 0
	for _, w := range d.Out[v] {
		if x := d.Depth(w) + 1; x > best {
			best = x
		}
	}
	return best
}

func (d *Digraph) String() string {
	var sb strings.Builder
	for v := 0; v < d.N; v++ {
		if d.Has[v] {
			fmt.Fprintf(&sb, "%d", v)
			if d.Prov[v] != 0 {
				sb.WriteString("*")
			}
			fmt.Fprintf(&sb, "->%v ", d.Out[v])
		}
	}
	return sb.String()
}

// ValidTopo checks that order (ids) is a permutation of the node set with
// every node after all its dependencies.
func (d *Digraph) ValidTopo(order []int) error {
	pos := make(map[int]int, len(order))
	for i, v := range order {
		if _, dup := pos[v]; dup {
			return fmt.Errorf("node %d listed twice", v)
		}
		if v < 0 || v >= d.N || !d.Has[v] {
			return fmt.Errorf("node %d not in graph", v)
		}
		pos[v] = i
	}
	if len(order) != d.Size() {
		return fmt.Errorf("order has %d nodes, graph has %d", len(order), d.Size())
	}
	for v := 0; v < d.N; v++ {
		for _, w := range d.Out[v] {
			if pos[w] >= pos[v] {
				return fmt.Errorf("dependency %d of %d is not before it", w, v)
			}
		}
	}
	return nil
}

// ValidCyclePath: path must be a non-empty closed walk of real edges. Accepts
// both conventions (last element repeats the first, or the closing edge is
// implied) since the error type prints "back to the first node" itself.
func (d *Digraph) ValidCyclePath(path []int) error {
	if len(path) == 0 {
		return fmt.Errorf("empty path")
	}
	for i := 0; i+1 < len(path); i++ {
		if !d.IsEdge(path[i], path[i+1]) {
			return fmt.Errorf("path step %d->%d is not an edge", path[i], path[i+1])
		}
	}
	first, last := path[0], path[len(path)-1]
	if len(path) >= 2 && first == last {
		return nil
	}
	if !d.IsEdge(last, first) {
		return fmt.Errorf("walk is not closed: %d->%d is not an edge", last, first)
	}
	return nil
}

func SortedInts(xs []int) []int { o := append([]int(nil), xs...); sort.Ints(o); return o }

package kit

import (
	"context"
	"sync"
	"time"
)

// Parker parks the first goroutine that reaches a matching gate point until
// Release is called. It is the harness's way of owning the interleaving at the
// points where godi calls user code.
type Parker struct {
	Match   func(GatePoint) bool
	parked  chan struct{}
	release chan struct{}
	once    sync.Once
	relOnce sync.Once
	Hit     GatePoint
}

func NewParker(match func(GatePoint) bool) *Parker {
	return &Parker{Match: match, parked: make(chan struct{}), release: make(chan struct{})}
}

// Gate is installed as World.Gate.
func (p *Parker) Gate(gp GatePoint) {
	if !p.Match(gp) {
		return
	}
	first := false
	p.once.Do(func() { first = true; p.Hit = gp; close(p.parked) })
	if first {
		<-p.release
	}
}

func (p *Parker) Parked() <-chan struct{} { return p.parked }
func (p *Parker) Release()                { p.relOnce.Do(func() { close(p.release) }) }
func (p *Parker) WasHit() bool {
	select {
	case <-p.parked:
		return true
	default:
		return false
	}
}

// GateCtx is a context whose Done() is a gate point (context.WithCancel calls
// it inside CreateScope, before the scope exists).
type GateCtx struct {
	context.Context
	W *World
}

func (c GateCtx) Done() <-chan struct{} {
	c.W.gate(GatePoint{Kind: GateCtxDone, Goid: Goid()})
	return c.Context.Done()
}

// WaitOrTimeout waits for ch; false when d elapsed first.
func WaitOrTimeout(ch <-chan struct{}, d time.Duration) bool {
	select {
	case <-ch:
		return true
	case <-time.After(d):
		return false
	}
}

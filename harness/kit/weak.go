package kit

import "weak"

// WeakOf returns a liveness probe for a harness instance that does not keep it alive.
func WeakOf(obj any) func() bool {
	switch p := obj.(type) {
	case *D0:
		w := weak.Make(p)
		return func() bool { return w.Value() != nil }
	case *D1:
		w := weak.Make(p)
		return func() bool { return w.Value() != nil }
	case *D2:
		w := weak.Make(p)
		return func() bool { return w.Value() != nil }
	case *D3:
		w := weak.Make(p)
		return func() bool { return w.Value() != nil }
	case *D4:
		w := weak.Make(p)
		return func() bool { return w.Value() != nil }
	case D5:
		w := weak.Make(p.B) // a value type: what can be retained is the state it points to
		return func() bool { return w.Value() != nil }
	case *N0:
		w := weak.Make(p)
		return func() bool { return w.Value() != nil }
	case *N1:
		w := weak.Make(p)
		return func() bool { return w.Value() != nil }
	case *N2:
		w := weak.Make(p)
		return func() bool { return w.Value() != nil }
	case *N3:
		w := weak.Make(p)
		return func() bool { return w.Value() != nil }
	case N4:
		w := weak.Make(p.B)
		return func() bool { return w.Value() != nil }
	case *N5:
		w := weak.Make(p)
		return func() bool { return w.Value() != nil }
	}
	return func() bool { return false }
}

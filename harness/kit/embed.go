package kit

import (
	"pgregory.net/rapid"

	"github.com/junioryono/godi/v4"
)

// KindEmbed: a statically typed constructor whose parameter object declares
// its one dependency through an EMBEDDED field next to the godi.In marker
// (reflect.StructOf cannot build such types: embedded fields with methods).
const KindEmbed = 5

type embD0 struct {
	godi.In
	*D0
}
type embN0 struct {
	godi.In
	*N0
}
type embI0 struct {
	godi.In
	I0
}

// EmbedDepTypes / EmbedOutTypes: the type ids an embedded-field constructor
// can depend on / produce (disjoint, so that it never depends on itself).
var EmbedDepTypes = []int{0, NumD, TI0}
var EmbedOutTypes = []int{1, 2, NumD + 1}

func embFn[P any, T any](w *World, r *Reg, get func(P) any) func(P) (T, error) {
	return func(p P) (T, error) { return staticInvoke[T](w, r, get(p)) }
}

func embedCtorFor[T any](w *World, r *Reg) any {
	switch r.Deps[0].T {
	case 0:
		return embFn[embD0, T](w, r, func(p embD0) any {
			if p.D0 == nil {
				return nil
			}
			return p.D0
		})
	case NumD:
		return embFn[embN0, T](w, r, func(p embN0) any {
			if p.N0 == nil {
				return nil
			}
			return p.N0
		})
	case TI0:
		return embFn[embI0, T](w, r, func(p embI0) any { return p.I0 })
	}
	panic("embedCtor: unsupported dependency type")
}

func embedCtor(w *World, r *Reg) any {
	switch r.Outs[0].T {
	case 1:
		return embedCtorFor[*D1](w, r)
	case 2:
		return embedCtorFor[*D2](w, r)
	case NumD + 1:
		return embedCtorFor[*N1](w, r)
	}
	panic("embedCtor: unsupported result type")
}

func inInts(x int, xs []int) bool {
	for _, y := range xs {
		if x == y {
			return true
		}
	}
	return false
}

// genEmbeds converts some plain constructors that have a suitable plain
// dependency into embedded-field constructors (keeping only that dependency).
func genEmbeds(t *rapid.T, regs []Reg) {
	for i := range regs {
		r := &regs[i]
		if r.Form != FormPlain || r.Kind != KindMakeFunc || len(r.As) > 0 || len(r.Outs) != 1 || r.Outs[0].HasAlt || r.Outs[0].T != r.Outs[0].Impl || !inInts(r.Outs[0].T, EmbedOutTypes) {
			continue
		}
		var cand []DepSpec
		for _, d := range r.Deps {
			if d.Builtin == 0 && !d.Ignored && !d.Optional && d.Key == "" && d.Group == "" && inInts(d.T, EmbedDepTypes) {
				cand = append(cand, d)
			}
		}
		if len(cand) == 0 || rapid.IntRange(0, 1).Draw(t, "embed") != 0 {
			continue
		}
		r.Deps = []DepSpec{rapid.SampledFrom(cand).Draw(t, "embedDep")}
		r.Kind, r.HasErr, r.UseIn = KindEmbed, true, false
	}
}

// embedShapeOK: the registration still has exactly the shape the static
// embedded-field constructors implement.
func embedShapeOK(r *Reg) bool {
	if r.Form != FormPlain || len(r.Outs) != 1 || len(r.As) > 0 || !inInts(r.Outs[0].T, EmbedOutTypes) || r.Outs[0].T != r.Outs[0].Impl || r.Outs[0].HasAlt || len(r.Deps) != 1 {
		return false
	}
	d := r.Deps[0]
	return d.Builtin == 0 && !d.Ignored && !d.Optional && d.Key == "" && d.Group == "" && inInts(d.T, EmbedDepTypes)
}

// KindTwin: two statically typed constructors whose parameter objects are
// DIFFERENT types with the SAME printed name (both are called "params",
// declared locally in two functions): one asks for the plain *D0, the other
// for the *N0 named "a".
const KindTwin = 6

func nilableD0(p *D0) any {
	if p == nil {
		return nil
	}
	return p
}

func nilableN0(p *N0) any {
	if p == nil {
		return nil
	}
	return p
}

func twinPlainD1(w *World, r *Reg) any {
	type params struct {
		godi.In
		Dep *D0
	}
	return func(p params) (*D1, error) { return staticInvoke[*D1](w, r, nilableD0(p.Dep)) }
}

func twinNamedD1(w *World, r *Reg) any {
	type params struct {
		godi.In
		Dep *N0 `name:"a"`
	}
	return func(p params) (*D1, error) { return staticInvoke[*D1](w, r, nilableN0(p.Dep)) }
}

func twinPlainN1(w *World, r *Reg) any {
	type params struct {
		godi.In
		Dep *D0
	}
	return func(p params) (*N1, error) { return staticInvoke[*N1](w, r, nilableD0(p.Dep)) }
}

func twinNamedN1(w *World, r *Reg) any {
	type params struct {
		godi.In
		Dep *N0 `name:"a"`
	}
	return func(p params) (*N1, error) { return staticInvoke[*N1](w, r, nilableN0(p.Dep)) }
}

// the same two once more with the tags swapped over the field types: every pair of the four
// shapes has one printed name, two of the pairs also one layout and differ in the tag alone
func twinNamedD0D1(w *World, r *Reg) any {
	type params struct {
		godi.In
		Dep *D0 `name:"a"`
	}
	return func(p params) (*D1, error) { return staticInvoke[*D1](w, r, nilableD0(p.Dep)) }
}

func twinPlainN0D1(w *World, r *Reg) any {
	type params struct {
		godi.In
		Dep *N0
	}
	return func(p params) (*D1, error) { return staticInvoke[*D1](w, r, nilableN0(p.Dep)) }
}

func twinNamedD0N1(w *World, r *Reg) any {
	type params struct {
		godi.In
		Dep *D0 `name:"a"`
	}
	return func(p params) (*N1, error) { return staticInvoke[*N1](w, r, nilableD0(p.Dep)) }
}

func twinPlainN0N1(w *World, r *Reg) any {
	type params struct {
		godi.In
		Dep *N0
	}
	return func(p params) (*N1, error) { return staticInvoke[*N1](w, r, nilableN0(p.Dep)) }
}

func twinShapeOK(r *Reg) bool {
	if r.Form != FormPlain || len(r.Outs) != 1 || len(r.As) > 0 || r.Outs[0].T != r.Outs[0].Impl || r.Outs[0].HasAlt || len(r.Deps) != 1 {
		return false
	}
	d := r.Deps[0]
	if (r.Outs[0].T != 1 && r.Outs[0].T != NumD+1) || d.Builtin != 0 || d.Ignored || d.Optional || d.Group != "" {
		return false
	}
	return (d.T == 0 || d.T == NumD) && (d.Key == "" || d.Key == "a")
}

func twinCtor(w *World, r *Reg) any {
	named, depD0 := r.Deps[0].Key == "a", r.Deps[0].T == 0
	switch {
	case r.Outs[0].T == 1 && !named && depD0:
		return twinPlainD1(w, r)
	case r.Outs[0].T == 1 && named && !depD0:
		return twinNamedD1(w, r)
	case r.Outs[0].T == 1 && named:
		return twinNamedD0D1(w, r)
	case r.Outs[0].T == 1:
		return twinPlainN0D1(w, r)
	case !named && depD0:
		return twinPlainN1(w, r)
	case named && !depD0:
		return twinNamedN1(w, r)
	case named:
		return twinNamedD0N1(w, r)
	}
	return twinPlainN0N1(w, r)
}

// PlantTwins adds two consumers whose parameter-object types print alike but
// differ in field type and tag (plus providers for what they ask for, if
// missing). Returns false when the identities needed are taken in an
// unsuitable way.
func PlantTwins(t *rapid.T, cfg *Config) bool {
	m, err := NewModel(cfg)
	if err != nil {
		return false
	}
	nid := 0
	for _, r := range cfg.Regs {
		if r.ID >= nid {
			nid = r.ID + 1
		}
	}
	shapes := []Ident{{T: 0}, {T: NumD, Key: "a"}, {T: 0, Key: "a"}, {T: NumD}}
	// (0,1) and (2,3) differ in field type and tag; (0,2) and (1,3) in the tag alone - same layout
	pair := rapid.SampledFrom([][2]int{{0, 1}, {0, 2}, {1, 3}, {0, 2}, {1, 3}, {2, 3}}).Draw(t, "twinPair")
	wants := []Ident{shapes[pair[0]], shapes[pair[1]]}
	var add []Reg
	for _, id := range wants {
		if ow, ok := m.Owner(id); ok {
			if m.Regs[ow.Reg].Life == Scoped || m.NilOutput(id) {
				return false // consumers of any lifetime need a provider that is not scoped
			}
			continue
		}
		add = append(add, Reg{ID: nid, Life: Singleton, Form: FormPlain, Outs: []OutSpec{{T: id.T, Impl: id.T}}, Name: id.Key, HasErr: true})
		nid++
	}
	outT := rapid.SampledFrom([]int{1, NumD + 1}).Draw(t, "twinOut")
	for i, id := range wants {
		name := []string{"twinPlain", "twinNamed"}[i]
		if _, taken := m.Owner(Ident{T: outT, Key: name}); taken {
			return false
		}
		add = append(add, Reg{ID: nid, Life: rapid.IntRange(0, 2).Draw(t, "twinLife"), Form: FormPlain, Kind: KindTwin, HasErr: true,
			Outs: []OutSpec{{T: outT, Impl: outT}}, Name: name, Deps: []DepSpec{{T: id.T, Key: id.Key}}})
		nid++
	}
	cfg.Regs = append(cfg.Regs, add...)
	return true
}

// PlantTwinsLifetimes: the twins of PlantTwins that differ in the tag alone, over providers of
// different lifetimes - one parameter object asks for a scoped service, its twin (same printed name,
// same layout) for a singleton; the first belongs to a scoped consumer, the second to a long-lived
// one. A valid set: nothing long-lived declares a dependency on anything scoped.
func PlantTwinsLifetimes(t *rapid.T, cfg *Config) bool {
	m, err := NewModel(cfg)
	if err != nil {
		return false
	}
	nid := 0
	for _, r := range cfg.Regs {
		if r.ID >= nid {
			nid = r.ID + 1
		}
	}
	shapes := []Ident{{T: 0}, {T: NumD, Key: "a"}, {T: 0, Key: "a"}, {T: NumD}}
	pair := rapid.SampledFrom([][2]int{{0, 2}, {2, 0}, {1, 3}, {3, 1}}).Draw(t, "twinLifePair")
	idScoped, idLong := shapes[pair[0]], shapes[pair[1]]
	for _, id := range []Ident{idScoped, idLong} {
		if _, taken := m.Owner(id); taken {
			return false
		}
		// (an unkeyed Remove of the type elsewhere in the configuration would hit these)
		for _, r := range cfg.Regs {
			for _, p := range r.AllProvides() {
				if p.Ident.T == id.T && p.Ident.Group == "" {
					return false
				}
			}
		}
	}
	outT := rapid.SampledFrom([]int{1, NumD + 1}).Draw(t, "twinLifeOut")
	for _, name := range []string{"twin1Scoped", "twin2Long"} {
		if _, taken := m.Owner(Ident{T: outT, Key: name}); taken {
			return false
		}
	}
	cfg.Regs = append(cfg.Regs,
		Reg{ID: nid, Life: Scoped, Form: FormPlain, Outs: []OutSpec{{T: idScoped.T, Impl: idScoped.T}}, Name: idScoped.Key, HasErr: true},
		Reg{ID: nid + 1, Life: Singleton, Form: FormPlain, Outs: []OutSpec{{T: idLong.T, Impl: idLong.T}}, Name: idLong.Key, HasErr: true},
		Reg{ID: nid + 2, Life: Scoped, Form: FormPlain, Kind: KindTwin, HasErr: true, Outs: []OutSpec{{T: outT, Impl: outT}}, Name: "twin1Scoped",
			Deps: []DepSpec{{T: idScoped.T, Key: idScoped.Key}}},
		Reg{ID: nid + 3, Life: Transient, Form: FormPlain, Kind: KindTwin, HasErr: true,
			Outs: []OutSpec{{T: outT, Impl: outT}}, Name: "twin2Long", Deps: []DepSpec{{T: idLong.T, Key: idLong.Key}}})
	if _, err := NewModel(cfg); err != nil {
		cfg.Regs = cfg.Regs[:len(cfg.Regs)-4]
		return false
	}
	return true
}

package kit

import (
	"encoding/json"
	"fmt"
	"os"
	"runtime"
	"sync"
	"time"
)

// A process-wide watchdog over container operations issued by the Runner: an
// operation that has not returned after HangLimit is reported as a hang (with
// a goroutine dump) and the process exits with the VERIF-VIOLATION marker the
// driver understands, instead of sitting in the go test deadline.
var (
	wdOnce sync.Once
	wdMu   sync.Mutex
	wdOps  = map[int64]wdOp{}
	wdNext int64
	// HangLimit is far above anything legitimate: parked operations of the
	// controlled schedules are released after at most a few hundred milliseconds.
	HangLimit = 90 * time.Second
)

type wdOp struct {
	desc  string
	start time.Time
}

func watch(desc string) func() {
	wdOnce.Do(func() {
		if v, err := time.ParseDuration(os.Getenv("VERIF_HANG_LIMIT")); err == nil && v > 0 {
			HangLimit = v
		}
		go wdLoop()
	})
	wdMu.Lock()
	wdNext++
	id := wdNext
	wdOps[id] = wdOp{desc, time.Now()}
	wdMu.Unlock()
	return func() {
		wdMu.Lock()
		delete(wdOps, id)
		wdMu.Unlock()
	}
}

func wdLoop() {
	for {
		time.Sleep(2 * time.Second)
		wdMu.Lock()
		var stuck *wdOp
		for _, op := range wdOps {
			if time.Since(op.start) > HangLimit {
				o := op
				stuck = &o
				break
			}
		}
		wdMu.Unlock()
		if stuck == nil {
			continue
		}
		buf := make([]byte, 1<<20)
		n := runtime.Stack(buf, true)
		prop := os.Getenv("VERIF_PROPERTY")
		if prop == "" {
			prop = "C09"
		}
		dir := os.Getenv("VERIF_REPLAY_DIR")
		if dir == "" {
			dir = os.TempDir()
		}
		payload, _ := json.MarshalIndent(map[string]any{"property": prop, "oracle": "no-hang",
			"operation": stuck.desc, "running_for_s": int(time.Since(stuck.start).Seconds()), "goroutines": string(buf[:n])}, "", " ")
		name := fmt.Sprintf("%s/%s-no-hang-%d.json", dir, prop, os.Getpid())
		_ = os.WriteFile(name, payload, 0o644)
		fmt.Printf("VIOLATION %s/no-hang: operation %s has not returned for %v (container dead-locked?)\n", prop, stuck.desc, HangLimit)
		fmt.Printf("VERIF-VIOLATION property=%s oracle=no-hang file=%s\n", prop, name)
		os.Exit(1)
	}
}

package kit

import (
	"context"
	"fmt"
	"reflect"
	"sort"
	"sync"
	"sync/atomic"
	"time"

	"github.com/junioryono/godi/v4"
)

// ScopeRec is the harness's record of one scope (tag 0 = the provider / root scope).
type ScopeRec struct {
	Tag                  int
	Parent               int // tag of the parent (0 = created from the provider); -1 for the root itself
	Depth                int
	S                    godi.Scope
	CtxKind              int
	UserCtx              context.Context
	Cancel               context.CancelFunc
	CtxKey               any
	CommonVal            string // value under the key every value-carrying context of the run uses (CtxCommonKey)
	Cause                error  // what the context handed to CreateScope is cancelled with (kinds 3 and 7)
	CtxVal               any
	CreateBeg, CreateEnd int64
	Created              bool  // CreateScope succeeded
	CloseBeg             int64 // seq stamp taken before the harness called Close / cancel (0 = never)
	CloseEnd             int64 // seq stamp after Close returned
	CloseErr             error
	Closed               bool
	Children             []int
}

// Obs is one observed operation.
type Obs struct {
	Kind     string // build, create, resolve, close, cancel, pclose
	Scope    int
	Ident    Ident
	Entries  []*Entry
	Foreign  bool
	Typed    bool  // resolved through the generic helpers
	RawGroup []any // the very slice Provider.GetGroup returned (kept to see whether godi touches it again later)
	Err      error
	Panic    any
	StartSeq int64
	EndSeq   int64
	Goid     int64 // goroutine that issued the operation
}

// Runner executes histories against a provider built from a World's config.
type Runner struct {
	W                    *World
	Coll                 godi.Collection
	P                    godi.Provider
	mu                   sync.Mutex
	Scopes               map[int]*ScopeRec
	next                 int
	Obs                  []*Obs
	PClosed              bool
	PCloseBeg, PCloseEnd int64
	Others               []godi.Provider // further providers built from the same collection (Rebuild), still open
}

func NewRunner(w *World) *Runner {
	return &Runner{W: w, Coll: godi.NewCollection(), Scopes: map[int]*ScopeRec{}, next: 1}
}

func (r *Runner) addObs(o *Obs) {
	r.mu.Lock()
	r.Obs = append(r.Obs, o)
	r.mu.Unlock()
}

func guard(o *Obs, f func()) {
	o.Goid = Goid()
	defer watch(fmt.Sprintf("%s(s%d,%s)", o.Kind, o.Scope, o.Ident))()
	defer func() {
		if p := recover(); p != nil {
			o.Panic = p
		}
	}()
	f()
}

// Build registers everything (in the given order; nil = config order) and builds.
func (r *Runner) Build(order []int) *Obs {
	o := &Obs{Kind: "build", StartSeq: r.W.NextSeq()}
	undo := r.W.SetOpScope(0)
	defer undo()
	guard(o, func() {
		if err := r.W.RegisterAll(r.Coll, order); err != nil {
			o.Err = fmt.Errorf("registration failed: %w", err)
			o.Kind = "register"
			return
		}
		var p godi.Provider
		var err error
		if resume := r.W.Resume(); resume != nil {
			// the rest of the registration calls arrives while Build is under way
			lc := &lateCtx{Context: context.Background(), at: int32(r.W.Cfg.LateAt), done: make(chan error, 1), resume: resume}
			p, err = r.Coll.BuildWithContext(lc)
			lc.start() // (Build never reached that poll: the calls are made now)
			select {
			case rerr := <-lc.done:
				if rerr != nil && err == nil {
					r.W.anomaly("a registration call made while Build was under way failed: %v", rerr)
				}
			case <-time.After(20 * time.Second):
				r.W.anomaly("registration calls made while Build was under way have not returned 20 s after Build did")
			}
			o.Err = err
			if err == nil {
				r.P = p
				r.Scopes[0] = &ScopeRec{Tag: 0, Parent: -1, Created: true}
			}
			return
		}
		switch r.W.Cfg.BuildMode {
		case 1:
			ctx, cancel := context.WithCancel(context.WithValue(context.Background(), ctxKeyT{-1}, "build"))
			r.W.SetBuildCancel(cancel)
			p, err = r.Coll.BuildWithContext(ctx)
			r.W.SetBuildCancel(nil)
			cancel() // the build is over: what the caller does with its context is no business of the provider's
		case 2:
			p, err = r.Coll.BuildWithOptions(&godi.ProviderOptions{BuildTimeout: 10 * time.Minute})
		default:
			p, err = r.Coll.Build()
		}
		o.Err = err
		if err == nil {
			r.P = p
			r.Scopes[0] = &ScopeRec{Tag: 0, Parent: -1, Created: true}
		}
	})
	o.EndSeq = r.W.NextSeq()
	r.addObs(o)
	return o
}

// BuildExisting builds the runner's collection as it is (registrations were
// issued by the caller).
func (r *Runner) BuildExisting() *Obs {
	o := &Obs{Kind: "build", StartSeq: r.W.NextSeq()}
	undo := r.W.SetOpScope(0)
	defer undo()
	guard(o, func() {
		p, err := r.Coll.Build()
		o.Err = err
		if err == nil {
			r.P = p
			r.Scopes[0] = &ScopeRec{Tag: 0, Parent: -1, Created: true}
		}
	})
	o.EndSeq = r.W.NextSeq()
	r.addObs(o)
	return o
}

// BuildWithContext registers everything and builds with the caller's context.
func (r *Runner) BuildWithContext(ctx context.Context) *Obs {
	o := &Obs{Kind: "build", StartSeq: r.W.NextSeq()}
	undo := r.W.SetOpScope(0)
	defer undo()
	guard(o, func() {
		if err := r.W.RegisterAll(r.Coll, nil); err != nil {
			o.Err = fmt.Errorf("registration failed: %w", err)
			o.Kind = "register"
			return
		}
		p, err := r.Coll.BuildWithContext(ctx)
		o.Err = err
		if err == nil {
			r.P = p
			r.Scopes[0] = &ScopeRec{Tag: 0, Parent: -1, Created: true}
		}
	})
	o.EndSeq = r.W.NextSeq()
	r.addObs(o)
	return o
}

type ctxKeyT struct{ n int }

// lateCtx is the context of a Build during which another goroutine goes on registering: the at-th
// time Build asks for Done() that goroutine is started, and Build is held up until it has finished
// or is evidently blocked (30 ms; the wait decides which interleaving is realised, never a verdict).
type lateCtx struct {
	context.Context
	calls  atomic.Int32
	at     int32
	once   sync.Once
	done   chan error
	resume func() error
}

func (c *lateCtx) start() {
	c.once.Do(func() {
		fin := make(chan struct{})
		go func() {
			err := c.resume()
			c.done <- err
			close(fin)
		}()
		select {
		case <-fin:
		case <-time.After(30 * time.Millisecond):
		}
	})
}

func (c *lateCtx) Done() <-chan struct{} {
	if c.calls.Add(1) == c.at {
		c.start()
	}
	return c.Context.Done()
}

// CtxCommonKey is a key that every value-carrying context handed to CreateScope
// uses (a request id): each scope sees the value of the context it was given.
type CtxCommonKey struct{}

// SkipTag consumes a scope tag without creating a scope (keeps numbering
// aligned when a scripted create is skipped).
func (r *Runner) SkipTag() { r.mu.Lock(); r.next++; r.mu.Unlock() }

// CreateScope creates a scope under parent (0 = provider). ctxKind: 0 nil,
// 1 Background, 2 cancellable, 3 cancellable carrying a value.
func (r *Runner) CreateScope(parent int, ctxKind int) (*ScopeRec, *Obs) {
	r.mu.Lock()
	tag := r.next
	r.next++
	pr := r.Scopes[parent]
	r.mu.Unlock()
	rec := &ScopeRec{Tag: tag, Parent: parent, CtxKind: ctxKind}
	if pr != nil {
		rec.Depth = pr.Depth + 1
	}
	var ctx context.Context
	switch ctxKind {
	case 1:
		ctx = context.Background()
	case 2:
		ctx, rec.Cancel = context.WithCancel(context.Background())
	case 3:
		rec.CtxKey, rec.CtxVal = ctxKeyT{tag}, fmt.Sprintf("val-%d", tag)
		rec.CommonVal, rec.Cause = fmt.Sprintf("common-%d", tag), fmt.Errorf("request %d withdrawn", tag)
		base := context.WithValue(context.WithValue(context.Background(), rec.CtxKey, rec.CtxVal), CtxCommonKey{}, rec.CommonVal)
		c, cancel := context.WithCancelCause(base)
		cause := rec.Cause
		ctx, rec.Cancel = c, func() { cancel(cause) }
	case 5:
		// a context with a (far away) deadline
		ctx, rec.Cancel = context.WithDeadline(context.Background(), time.Now().Add(time.Hour))
	case 4:
		// a context derived from the parent scope's own context, with its own cancel
		base := context.Background()
		if parent != 0 && pr != nil && pr.S != nil {
			base = pr.S.Context()
		}
		ctx, rec.Cancel = context.WithCancel(base)
	}
	if ctxKind == 7 {
		// a context that already leads to another open scope of this provider (derived from that
		// scope's context - a request scope's, say), with a value and a cancel of its own on top
		base := context.Background()
		r.mu.Lock()
		for t := r.next - 1; t > 0; t-- {
			if o := r.Scopes[t]; o != nil && o.Created && o.S != nil && t != tag && o.CloseBeg == 0 {
				base = o.S.Context()
				break
			}
		}
		r.mu.Unlock()
		rec.CtxKey, rec.CtxVal = ctxKeyT{tag}, fmt.Sprintf("val-%d", tag)
		rec.CommonVal, rec.Cause = fmt.Sprintf("common-%d", tag), fmt.Errorf("request %d withdrawn", tag)
		c, cancel := context.WithCancelCause(context.WithValue(context.WithValue(base, rec.CtxKey, rec.CtxVal), CtxCommonKey{}, rec.CommonVal))
		cause := rec.Cause
		ctx, rec.Cancel = c, func() { cancel(cause) }
	}
	if ctxKind >= 10 { // gate context: Done() is a pre-emption point
		base, cancel := context.WithCancel(context.Background())
		rec.Cancel = cancel
		ctx = GateCtx{Context: base, W: r.W}
	}
	rec.UserCtx = ctx
	o := &Obs{Kind: "create", Scope: tag, StartSeq: r.W.NextSeq()}
	rec.CreateBeg = o.StartSeq
	r.mu.Lock()
	r.Scopes[tag] = rec
	r.mu.Unlock()
	undo := r.W.SetOpScope(tag)
	guard(o, func() {
		var s godi.Scope
		var err error
		if parent == 0 {
			s, err = r.P.CreateScope(ctx)
		} else {
			s, err = pr.S.CreateScope(ctx)
		}
		o.Err = err
		if err == nil {
			if s == nil || isNilValue(s) {
				o.Err = fmt.Errorf("harness: CreateScope returned nil scope and nil error")
				return
			}
			rec.S, rec.Created = s, true
		}
	})
	undo()
	o.EndSeq = r.W.NextSeq()
	rec.CreateEnd = o.EndSeq
	r.mu.Lock()
	if rec.Created && pr != nil {
		pr.Children = append(pr.Children, tag)
	}
	r.mu.Unlock()
	r.addObs(o)
	return rec, o
}

func (r *Runner) target(tag int) godi.Provider {
	if tag == 0 {
		return r.P
	}
	return r.ScopeRecOf(tag).S
}

// Resolve resolves an identity on the scope with the given tag.
func (r *Runner) Resolve(tag int, id Ident) *Obs {
	o := &Obs{Kind: "resolve", Scope: tag, Ident: id, StartSeq: r.W.NextSeq()}
	undo := r.W.SetOpScope(tag)
	guard(o, func() {
		p := r.target(tag)
		rt := RType(id.T)
		toEntry := func(v any) {
			if s := svcOf(v); s != nil && s.Ent() != nil {
				o.Entries = append(o.Entries, s.Ent())
			} else {
				o.Foreign = true
				o.Entries = append(o.Entries, nil)
			}
		}
		// every other resolution goes through the generic helpers users call
		// (Resolve/ResolveKeyed/ResolveGroup), the rest through Provider.Get*
		// (not for identities whose value may legitimately be nil: the helpers
		// turn a nil service into a type-mismatch error, Get* returns it as is)
		typed := o.StartSeq%2 == 1 && r.W.typedOK(id)
		o.Typed = typed
		switch {
		case typed && id.Group != "":
			vs, err := TypedResolveGroup(p, id.T, id.Group)
			o.Err = err
			if err == nil {
				for _, v := range vs {
					toEntry(v)
				}
			}
		case typed:
			v, err := TypedResolve(p, id.T, id.Key)
			o.Err = err
			if err == nil {
				toEntry(v)
			}
		case id.Group != "":
			vs, err := p.GetGroup(rt, id.Group)
			o.Err = err
			if err == nil {
				for _, v := range vs {
					toEntry(v)
				}
				if r.W.Cfg != nil && r.W.Cfg.Scribble {
					// the caller's own slice: reordered once it has been looked at
					for i, j := 0, len(vs)-1; i < j; i, j = i+1, j-1 {
						vs[i], vs[j] = vs[j], vs[i]
					}
				} else {
					o.RawGroup = vs
				}
			}
		case id.Key != "":
			v, err := p.GetKeyed(rt, id.Key)
			o.Err = err
			if err == nil {
				toEntry(v)
			}
		default:
			v, err := p.Get(rt)
			o.Err = err
			if err == nil {
				toEntry(v)
			}
		}
	})
	undo()
	o.EndSeq = r.W.NextSeq()
	r.addObs(o)
	return o
}

// Rebuild builds the runner's collection once more while the provider under
// test is in use, resolves what can be resolved from the new provider and from
// one of its scopes, and leaves it open (it is closed after the provider under
// test). Each provider built from a collection has its own singletons: nothing
// the other one constructs may ever be seen through the provider under test.
func (r *Runner) Rebuild() *Obs {
	o := &Obs{Kind: "rebuild", StartSeq: r.W.NextSeq()}
	guard(o, func() {
		r.W.Foreign(func() {
			p, err := r.Coll.Build()
			if err != nil {
				return // the collection may have been edited into something unbuildable meanwhile
			}
			r.mu.Lock()
			r.Others = append(r.Others, p)
			r.mu.Unlock()
			use := func(t godi.Provider) {
				for _, id := range r.W.M.AllIdents() {
					switch {
					case id.Group != "":
						_, _ = t.GetGroup(RType(id.T), id.Group)
					case id.Key != "":
						_, _ = t.GetKeyed(RType(id.T), id.Key)
					default:
						_, _ = t.Get(RType(id.T))
					}
				}
			}
			use(p)
			if s, err := p.CreateScope(context.Background()); err == nil {
				use(s)
			}
		})
	})
	o.EndSeq = r.W.NextSeq()
	r.addObs(o)
	return o
}

// CollEdit is one change made to the collection after the provider was built.
type CollEdit struct {
	Remove bool
	Ident  Ident
	Life   int
}

func (e CollEdit) String() string {
	if e.Remove {
		return "remove " + e.Ident.String()
	}
	return fmt.Sprintf("add %s %s", []string{"Sing", "Scop", "Tran"}[e.Life], e.Ident)
}

// EditCollection changes the collection the provider was built from: a built
// provider is unaffected by later changes to the collection, so nothing that
// is observed afterwards may differ. Errors of the edits themselves (removing
// what is not there, adding what is there) are of no interest here.
func (r *Runner) EditCollection(edits []CollEdit) *Obs {
	o := &Obs{Kind: "cedit", StartSeq: r.W.NextSeq()}
	guard(o, func() {
		for _, e := range edits {
			rt := RType(e.Ident.T)
			if e.Remove {
				if e.Ident.Key != "" {
					r.Coll.RemoveKeyed(rt, e.Ident.Key)
				} else {
					r.Coll.Remove(rt)
				}
				continue
			}
			var opts []godi.AddOption
			if e.Ident.Key != "" {
				opts = append(opts, godi.Name(e.Ident.Key))
			}
			if e.Ident.Group != "" {
				opts = append(opts, godi.Group(e.Ident.Group))
			}
			ctor := r.W.ThrowawayCtor(e.Ident.T, "a registration added after Build ("+e.String()+")")
			switch e.Life {
			case Singleton:
				_ = r.Coll.AddSingleton(ctor, opts...)
			case Scoped:
				_ = r.Coll.AddScoped(ctor, opts...)
			default:
				_ = r.Coll.AddTransient(ctor, opts...)
			}
		}
	})
	o.EndSeq = r.W.NextSeq()
	r.addObs(o)
	return o
}

// AliasKey is a defined string type: a key of this type is not the name that
// godi.Name registers, although it prints the same.
type AliasKey string

// ResolveAliasKey asks for (type, AliasKey(name)) where (type, name) is
// registered: another identity, which nobody registered.
func (r *Runner) ResolveAliasKey(tag int, id Ident) *Obs {
	o := &Obs{Kind: "resolve-aliaskey", Scope: tag, Ident: id, StartSeq: r.W.NextSeq()}
	undo := r.W.SetOpScope(tag)
	guard(o, func() {
		_, o.Err = r.target(tag).GetKeyed(RType(id.T), AliasKey(id.Key))
	})
	undo()
	o.EndSeq = r.W.NextSeq()
	r.addObs(o)
	return o
}

// CloseScope closes the scope explicitly.
func (r *Runner) CloseScope(tag int) *Obs {
	rec := r.ScopeRecOf(tag)
	o := &Obs{Kind: "close", Scope: tag, StartSeq: r.W.NextSeq()}
	r.mu.Lock()
	if rec.CloseBeg == 0 {
		rec.CloseBeg = o.StartSeq
	}
	r.mu.Unlock()
	guard(o, func() { o.Err = rec.S.Close() })
	o.EndSeq = r.W.NextSeq()
	r.mu.Lock()
	if rec.CloseEnd == 0 {
		rec.CloseEnd = o.EndSeq
		rec.CloseErr = o.Err
	}
	rec.Closed = true
	r.mu.Unlock()
	r.addObs(o)
	return o
}

// CancelScope cancels the user context the scope was created with.
func (r *Runner) CancelScope(tag int) *Obs {
	rec := r.ScopeRecOf(tag)
	o := &Obs{Kind: "cancel", Scope: tag, StartSeq: r.W.NextSeq()}
	r.mu.Lock()
	if rec.CloseBeg == 0 {
		rec.CloseBeg = o.StartSeq
	}
	r.mu.Unlock()
	if rec.Cancel != nil {
		rec.Cancel()
	}
	o.EndSeq = r.W.NextSeq()
	r.addObs(o)
	return o
}

// CloseProvider closes the provider.
func (r *Runner) CloseProvider() *Obs {
	o := &Obs{Kind: "pclose", StartSeq: r.W.NextSeq()}
	r.mu.Lock()
	if r.PCloseBeg == 0 {
		r.PCloseBeg = o.StartSeq
	}
	r.mu.Unlock()
	guard(o, func() { o.Err = r.P.Close() })
	o.EndSeq = r.W.NextSeq()
	r.mu.Lock()
	if r.PCloseEnd == 0 {
		r.PCloseEnd = o.EndSeq
	}
	r.PClosed = true
	others := r.Others
	r.Others = nil
	r.mu.Unlock()
	r.addObs(o)
	// the other providers built from the same collection are closed afterwards (not judged)
	if len(others) > 0 {
		r.W.Foreign(func() {
			for _, p := range others {
				func() {
					defer func() { _ = recover() }()
					_ = p.Close()
				}()
			}
		})
	}
	return o
}

// IsDisposedErr etc. are in errs.go.

// Ancestors returns tag and all its ancestors up to (excluding) 0.
func (r *Runner) Ancestors(tag int) []int {
	var out []int
	for tag > 0 {
		out = append(out, tag)
		rec := r.Scopes[tag]
		if rec == nil {
			break
		}
		tag = rec.Parent
	}
	return out
}

// LiveScopes lists tags of scopes that were created and that the harness has
// not closed / cancelled (directly or through an ancestor / the provider).
func (r *Runner) LiveScopes() []int {
	var out []int
	for tag := 0; tag < r.next; tag++ {
		rec := r.Scopes[tag]
		if rec == nil || !rec.Created {
			continue
		}
		if r.ScopeDead(tag) {
			continue
		}
		out = append(out, tag)
	}
	return out
}

// ScopeDead: the harness has started closing this scope, an ancestor or the provider.
func (r *Runner) ScopeDead(tag int) bool {
	if r.PCloseBeg != 0 {
		return true
	}
	for _, a := range r.Ancestors(tag) {
		if rec := r.Scopes[a]; rec != nil && rec.CloseBeg != 0 {
			return true
		}
	}
	return false
}

// Tags lists all scope tags known to the runner in ascending order.
func (r *Runner) Tags() []int {
	r.mu.Lock()
	defer r.mu.Unlock()
	var out []int
	for t := range r.Scopes {
		out = append(out, t)
	}
	sort.Ints(out)
	return out
}

// ScopeRecOf returns the record of a scope tag (nil if unknown); safe for concurrent use.
func (r *Runner) ScopeRecOf(tag int) *ScopeRec {
	r.mu.Lock()
	defer r.mu.Unlock()
	return r.Scopes[tag]
}

// isNilValue: a nil pointer / interface; values of struct kind are never nil.
func isNilValue(v any) bool {
	rv := reflect.ValueOf(v)
	switch rv.Kind() {
	case reflect.Pointer, reflect.Interface, reflect.Map, reflect.Slice, reflect.Func, reflect.Chan:
		return rv.IsNil()
	}
	return false
}

// EntryOf returns the ledger entry behind a resolved value (nil for foreign or nil values).
func EntryOf(v any) *Entry {
	if s := svcOf(v); s != nil {
		return s.Ent()
	}
	return nil
}

package kit

import (
	"bytes"
	"context"
	"fmt"
	"reflect"
	"runtime"
	"strconv"
	"sync"
	"sync/atomic"
	"time"

	"github.com/junioryono/godi/v4"
)

// Fault kinds injected into constructors.
const (
	FaultNone  = 0
	FaultError = 1
	FaultPanic = 2
	FaultNil   = 3
)

type Fault struct {
	Kind  int
	Err   error
	Panic any
}

// Inv is one constructor invocation as seen by the harness.
type Inv struct {
	Reg      int
	N        int // n-th invocation of this registration's constructor (1-based)
	ScopeTag int // scope the harness issued the enclosing operation on (-1 unknown)
	Goid     int64
	Args     []ArgRec
	Located  *Entry // Reg.Locate: what the look-up through the injected Scope/Provider yielded
	StartSeq int64
	EndSeq   int64
	Outcome  int // 0 running, 1 ok, 2 returned error, 3 panicked, 4 returned nil
	Outs     []*Entry
	Shadow   bool          // made on behalf of another provider built from the same collection (see World.Shadow)
	InPtr    reflect.Value // the parameter object, when the constructor takes it by pointer
}

// ArgRec records what a constructor received for one declared dependency.
type ArgRec struct {
	Dep     DepSpec
	Present bool     // non-nil / non-zero value received
	Entries []*Entry // the instance (len 1) or the group members in order
	Raw     any      // built-ins: the received value
	Foreign bool     // a value that is not a harness instance (should not happen)
}

type CloseRec struct {
	Seq  int64
	Goid int64
}

// Entry is the ledger record of one service instance made by the harness.
type Entry struct {
	W        *World
	Serial   int
	Reg, Out int
	Impl     int
	Inv      *Inv // nil for instance values
	ScopeTag int
	BornSeq  int64
	Shadow   bool // made for another provider built from the same collection

	mu        sync.Mutex
	Closes    []CloseRec
	Shutdowns int
}

func (e *Entry) String() string {
	if e == nil {
		return "<nil>"
	}
	if e.Shadow {
		return fmt.Sprintf("#%d(r%d.%d %s, made for ANOTHER provider built from the same collection)", e.Serial, e.Reg, e.Out, TypeName(e.Impl))
	}
	return fmt.Sprintf("#%d(r%d.%d %s s%d)", e.Serial, e.Reg, e.Out, TypeName(e.Impl), e.ScopeTag)
}

func (e *Entry) CloseCount() int { e.mu.Lock(); defer e.mu.Unlock(); return len(e.Closes) }
func (e *Entry) CloseSeqs() []int64 {
	e.mu.Lock()
	defer e.mu.Unlock()
	out := make([]int64, len(e.Closes))
	for i, c := range e.Closes {
		out[i] = c.Seq
	}
	return out
}

func (e *Entry) onClose() error {
	w := e.W
	g := Goid()
	w.gate(GatePoint{Kind: GateCloseEnter, Entry: e, Goid: g})
	seq := w.NextSeq()
	e.mu.Lock()
	e.Closes = append(e.Closes, CloseRec{Seq: seq, Goid: g})
	e.mu.Unlock()
	w.mu.Lock()
	w.CloseLog = append(w.CloseLog, e)
	err := w.CloseErr[e.Serial]
	if err == nil && w.CloseFailRegs[e.Reg] {
		// what a Close reports varies: a plain error, or one that wraps an error value
		// the container itself knows and could be tempted to treat as "nothing happened"
		switch e.Reg % 4 {
		case 1:
			err = fmt.Errorf("injected-close-error-r%d: flush: %w", e.Reg, context.Canceled)
		case 2:
			err = fmt.Errorf("injected-close-error-r%d: %w", e.Reg, context.DeadlineExceeded)
		case 3:
			err = fmt.Errorf("injected-close-error-r%d: %w", e.Reg, godi.ErrScopeDisposed)
		default:
			err = fmt.Errorf("injected-close-error-r%d", e.Reg)
		}
	}
	panics := w.ClosePanicRegs[e.Reg]
	inClose := w.InClose
	w.mu.Unlock()
	if inClose != nil {
		inClose(e)
	}
	if panics {
		panic(fmt.Sprintf("injected-close-panic-r%d", e.Reg))
	}
	return err
}

func (e *Entry) onShutdown() { e.mu.Lock(); e.Shutdowns++; e.mu.Unlock() }

// Gate points let a scheduler park the goroutine inside user code.
const (
	GateCtorEnter  = 1
	GateCtorExit   = 2
	GateCloseEnter = 3
	GateCtxDone    = 4
	// GateInternal: a schedule point inside godi itself, between two steps
	// that are not atomic with respect to each other (build-tagged hook
	// verifPoint in /repo); Point names the place.
	GateInternal = 5
)

type GatePoint struct {
	Kind  int
	Inv   *Inv
	Entry *Entry
	Goid  int64
	Point string
}

// World is the per-case universe: ledger, fault plan, registered functions.
type World struct {
	mu            sync.Mutex
	Cfg           *Config
	M             *Model
	seq           atomic.Int64
	serial        int
	Entries       []*Entry
	Invs          []*Inv
	Count         map[int]int
	Faults        map[[2]int]Fault
	resume        func() error // see Resume
	CloseErr      map[int]error
	CloseFailRegs map[int]bool // every instance of these registrations fails in Close
	// CancelBuildOnFault: the constructor that is made to fail first cancels the context its
	// BuildWithContext runs under (a dial that gives up when the deadline of the build passes)
	CancelBuildOnFault bool
	// CancelBuildReg: see cancelBuildIfAsked
	CancelBuildReg *int
	BuildCancel    func()
	ClosePanicRegs map[int]bool // the Close method of every instance of these registrations panics
	// CtxWaitRegs: the constructors of these registrations do not return until the context
	// they were injected with is done (a dial that can only be aborted through its context);
	// CtxWaiting receives a token each time one of them starts waiting.
	CtxWaitRegs   map[int]bool
	CtxWaiting    chan int
	CtxWaitOn     atomic.Bool // waiting is switched on by the test once Build and the scope tree are done
	CloseLog      []*Entry    // instances in the order their Close() was called
	gateFn        atomic.Pointer[func(GatePoint)]
	opScope       sync.Map // goid -> scope tag
	Ctors         map[int]any
	InstEnt       map[int]*Entry
	Anomaly       []string
	inPreBuild    atomic.Bool
	nilClosesBase int64
	// shadow: constructors currently run on behalf of ANOTHER provider built from the same
	// collection (Runner.Rebuild). Their invocations and instances are kept apart
	// (ShadowInvs / ShadowEntries): they are no part of the history of the provider under
	// test - which must never hand out, or be handed, any of them.
	shadow        atomic.Bool
	ShadowInvs    []*Inv
	ShadowEntries []*Entry

	// HoldArgs (C14): instances keep what they were constructed with alive, the
	// ledger keeps no strong reference to built-in arguments.
	slotsUsed int // generic top-level kinds claim global slots (kinds_gen.go)
	HoldArgs  bool
	// OnBuiltin is told every built-in value (context, Scope, Provider) a constructor receives: user code
	// may hand those on to somebody else
	OnBuiltin func(v any)
	OnMade    func(obj any) // called for every instance a constructor makes
	// InClose runs inside every Close() of a harness instance: a Close method that does something
	// with the container (closes its own scope, the provider)
	InClose func(e *Entry)
}

func NewWorld(cfg *Config) (*World, error) {
	m, err := NewModel(cfg)
	if err != nil {
		return nil, err
	}
	return &World{Cfg: cfg, M: m, Count: map[int]int{}, Faults: map[[2]int]Fault{}, CloseErr: map[int]error{},
		Ctors: map[int]any{}, InstEnt: map[int]*Entry{}, nilClosesBase: NilCloses.Load()}, nil
}

// NilCloses returns how often Close() was called on a nil pointer since this world was made.
func (w *World) NilCloses() int64 { return NilCloses.Load() - w.nilClosesBase }

// SetGate installs (or, with nil, removes) the scheduling hook called at the
// points where godi calls harness code.
func (w *World) SetGate(f func(GatePoint)) {
	if f == nil {
		w.gateFn.Store(nil)
		godi.VerifSetPointHook(nil)
		return
	}
	w.gateFn.Store(&f)
	// godi's internal schedule points are reported to the world that installed
	// a gate last (one controlled program runs at a time in a process)
	godi.VerifSetPointHook(func(point string) {
		if w.gateFn.Load() != nil {
			w.gate(GatePoint{Kind: GateInternal, Point: point, Goid: Goid()})
		}
	})
}

func (w *World) gate(gp GatePoint) {
	if f := w.gateFn.Load(); f != nil {
		(*f)(gp)
	}
}

func (w *World) NextSeq() int64 { return w.seq.Add(1) }
func (w *World) Seq() int64     { return w.seq.Load() }

func (w *World) anomaly(format string, a ...any) {
	w.mu.Lock()
	w.Anomaly = append(w.Anomaly, fmt.Sprintf(format, a...))
	w.mu.Unlock()
}

// Goid returns the current goroutine's id (parsed from the stack header).
func Goid() int64 {
	var buf [64]byte
	n := runtime.Stack(buf[:], false)
	b := buf[:n]
	b = bytes.TrimPrefix(b, []byte("goroutine "))
	if i := bytes.IndexByte(b, ' '); i > 0 {
		id, _ := strconv.ParseInt(string(b[:i]), 10, 64)
		return id
	}
	return -1
}

// SetOpScope declares that the calling goroutine is about to issue an
// operation on the scope with the given tag; the returned func undoes it.
func (w *World) SetOpScope(tag int) func() {
	g := Goid()
	prev, had := w.opScope.Load(g)
	w.opScope.Store(g, tag)
	return func() {
		if had {
			w.opScope.Store(g, prev)
		} else {
			w.opScope.Delete(g)
		}
	}
}

func (w *World) curScope(g int64) int {
	if v, ok := w.opScope.Load(g); ok {
		return v.(int)
	}
	return -1
}

func (w *World) newEntry(r *Reg, out int, impl int, inv *Inv) (*Entry, reflect.Value) {
	var obj reflect.Value
	if ct := ConcreteTypes[impl]; ct.Kind() == reflect.Pointer {
		obj = reflect.New(ct.Elem())
	} else {
		// a value type: struct{ B *Base; ... }
		obj = reflect.New(ct).Elem()
		obj.Field(0).Set(reflect.ValueOf(&Base{}))
	}
	e := &Entry{W: w, Reg: r.ID, Out: out, Impl: impl, Inv: inv}
	if inv != nil {
		e.ScopeTag = inv.ScopeTag
	}
	w.mu.Lock()
	w.serial++
	e.Serial = w.serial
	if inv != nil && inv.Shadow {
		e.Shadow = true
		w.ShadowEntries = append(w.ShadowEntries, e)
	} else {
		w.Entries = append(w.Entries, e)
	}
	w.mu.Unlock()
	obj.Interface().(Svc).SetEnt(e)
	if w.OnMade != nil && inv != nil {
		w.OnMade(obj.Interface())
	}
	return e, obj
}

// ---- constructor synthesis ----

func depType(d DepSpec) reflect.Type {
	if d.Builtin != 0 {
		return BuiltinType(d.Builtin)
	}
	t := RType(d.T)
	if d.Group != "" {
		return reflect.SliceOf(t)
	}
	return t
}

func depTag(d DepSpec) reflect.StructTag {
	s := ""
	add := func(k, v string) {
		if s != "" {
			s += " "
		}
		s += k + `:"` + v + `"`
	}
	if d.Key != "" {
		add("name", d.Key)
	}
	if d.Group != "" {
		add("group", d.Group)
	}
	if d.Optional {
		add("optional", "true")
	}
	if d.Ignored {
		add("inject", "-")
	}
	return reflect.StructTag(s)
}

// InStructType builds struct{ godi.In; F0 T0 `tags`; ... } for the deps.
func InStructType(deps []DepSpec) reflect.Type {
	fields := []reflect.StructField{{Name: "In", Type: InType, Anonymous: true}}
	for i, d := range deps {
		fields = append(fields, reflect.StructField{Name: "F" + strconv.Itoa(i), Type: depType(d), Tag: depTag(d)})
	}
	return reflect.StructOf(fields)
}

// OutStructType builds struct{ godi.Out; R0 T0 `tags`; ... }.
func OutStructType(outs []OutSpec) reflect.Type {
	fields := []reflect.StructField{{Name: "Out", Type: OutType, Anonymous: true}}
	for i, o := range outs {
		tag := ""
		if o.Key != "" {
			tag = `name:"` + o.Key + `"`
		}
		if o.Group != "" {
			if tag != "" {
				tag += " "
			}
			tag += `group:"` + o.Group + `"`
		}
		fields = append(fields, reflect.StructField{Name: "R" + strconv.Itoa(i), Type: RType(o.T), Tag: reflect.StructTag(tag)})
	}
	return reflect.StructOf(fields)
}

// CErr is a concrete error type: constructors may declare *CErr as their last
// result instead of error.
type CErr struct{ Cause error }

func (e *CErr) Error() string { return "cerr: " + e.Cause.Error() }
func (e *CErr) Unwrap() error { return e.Cause }

var ptrErrType = reflect.TypeOf((*CErr)(nil))

// SErr is an error type of slice kind (a list of field errors).
type SErr []error

func (e SErr) Error() string   { return fmt.Sprintf("serr: %v", []error(e)) }
func (e SErr) Unwrap() []error { return e }

var sliceErrType = reflect.TypeOf(SErr(nil))

// FuncType returns the constructor signature for a registration.
func FuncType(r *Reg) reflect.Type {
	var in, out []reflect.Type
	if r.UseIn {
		in = []reflect.Type{InStructType(r.Deps)}
		if r.PtrIn {
			in[0] = reflect.PointerTo(in[0])
		}
	} else {
		for _, d := range r.Deps {
			in = append(in, depType(d))
		}
	}
	switch r.Form {
	case FormPlain:
		out = []reflect.Type{RType(r.Outs[0].T)}
	case FormMulti:
		for _, o := range r.Outs {
			out = append(out, RType(o.T))
		}
	case FormOut:
		out = []reflect.Type{OutStructType(r.Outs)}
	case FormVoid:
	}
	if r.HasErr && r.SliceErr {
		out = append(out, sliceErrType)
	} else if r.HasErr && r.PtrErr {
		out = append(out, ptrErrType)
	} else if r.HasErr {
		out = append(out, ErrorType)
	}
	return reflect.FuncOf(in, out, r.Variadic && !r.UseIn && len(in) > 0 && in[len(in)-1].Kind() == reflect.Slice)
}

// Service returns what is passed to Add*: a function value or an instance.
func (w *World) Service(r *Reg) any {
	if r.HasCtorOf {
		for i := range w.Cfg.Regs {
			if w.Cfg.Regs[i].ID == r.CtorOf && !w.Cfg.Regs[i].HasCtorOf {
				return w.Service(&w.Cfg.Regs[i])
			}
		}
	}
	w.mu.Lock()
	if c, ok := w.Ctors[r.ID]; ok {
		w.mu.Unlock()
		return c
	}
	w.mu.Unlock()
	if (r.Kind == KindEmbed && !embedShapeOK(r)) || (r.Kind == KindTwin && !twinShapeOK(r)) {
		// something added to or changed the dependencies after generation (planted defects,
		// extra built-ins): the fixed signature no longer fits, use a synthesised constructor
		r.Kind = KindMakeFunc
		for _, d := range r.Deps {
			if d.Key != "" || d.Group != "" || d.Optional || d.Ignored {
				r.UseIn = true
			}
		}
	}
	var svc any
	if r.Form == FormInstance {
		e, obj := w.newEntry(r, 0, r.Outs[0].Impl, nil)
		e.ScopeTag = -2 // not created by the container
		w.mu.Lock()
		w.InstEnt[r.ID] = e
		w.mu.Unlock()
		svc = wrapOut(r.Outs[0].T, obj, obj.Type()).Interface()
	} else if r.Kind != KindMakeFunc {
		svc = w.staticCtor(r)
	} else {
		ft := FuncType(r)
		svc = reflect.MakeFunc(ft, func(args []reflect.Value) []reflect.Value { return w.invoke(r, ft, args) }).Interface()
	}
	w.mu.Lock()
	w.Ctors[r.ID] = svc
	w.mu.Unlock()
	return svc
}

func (w *World) begin(r *Reg) *Inv {
	g := Goid()
	inv := &Inv{Reg: r.ID, Goid: g, ScopeTag: w.curScope(g), StartSeq: w.NextSeq()}
	if w.shadow.Load() {
		inv.Shadow = true
		inv.N = -1
		w.mu.Lock()
		w.ShadowInvs = append(w.ShadowInvs, inv)
		w.mu.Unlock()
		return inv
	}
	w.mu.Lock()
	w.Count[r.ID]++
	inv.N = w.Count[r.ID]
	w.Invs = append(w.Invs, inv)
	w.mu.Unlock()
	return inv
}

func (w *World) decodeArg(d DepSpec, v reflect.Value) ArgRec {
	a := ArgRec{Dep: d}
	if d.Builtin != 0 {
		if !v.IsNil() {
			a.Present = true
			if h := w.OnBuiltin; h != nil {
				h(v.Interface())
			}
			if !w.HoldArgs {
				a.Raw = v.Interface()
			}
		}
		return a
	}
	if d.T == TVoid && d.Group == "" {
		// a dependency on a named initializer function: the value is an empty struct
		a.Present = true
		return a
	}
	toEntry := func(x reflect.Value) *Entry {
		if (x.Kind() == reflect.Pointer || x.Kind() == reflect.Interface) && x.IsNil() {
			return nil
		}
		if s := svcOf(x.Interface()); s != nil {
			return s.Ent()
		}
		a.Foreign = true
		return nil
	}
	if d.Group == "" && IsSliceSvc(d.T) {
		// a slice-typed service: one element, the carrier
		if !v.IsNil() {
			if s := svcOf(v.Interface()); s != nil {
				a.Present = true
				a.Entries = []*Entry{s.Ent()}
			} else {
				a.Foreign = true
			}
		}
		return a
	}
	if d.Group != "" {
		a.Present = !v.IsNil()
		for i := 0; i < v.Len(); i++ {
			a.Entries = append(a.Entries, toEntry(v.Index(i)))
		}
		return a
	}
	if e := toEntry(v); e != nil {
		a.Present = true
		a.Entries = []*Entry{e}
	}
	return a
}

// scribbleSlice reverses a group slice a constructor was given, in place (Config.Scribble): the
// slice is the constructor's own, like a slice it sorts by priority before keeping it.
func scribbleSlice(d DepSpec, v reflect.Value) {
	if d.Group == "" || v.Kind() != reflect.Slice || v.Len() < 2 {
		return
	}
	sw := reflect.Swapper(v.Interface())
	for i, j := 0, v.Len()-1; i < j; i, j = i+1, j-1 {
		sw(i, j)
	}
}

// locatorOf: the Scope or Provider a locating constructor (Reg.Locate) was injected with.
func locatorOf(r *Reg, d DepSpec, v reflect.Value, have godi.Provider) godi.Provider {
	if r.Locate == nil || have != nil || d.Builtin < 2 || !v.IsValid() || (v.Kind() == reflect.Interface && v.IsNil()) {
		return have
	}
	if p, ok := v.Interface().(godi.Provider); ok {
		return p
	}
	return have
}

func (w *World) invoke(r *Reg, ft reflect.Type, args []reflect.Value) []reflect.Value {
	inv := w.begin(r)
	var locator godi.Provider
	if r.UseIn {
		st := args[0]
		if st.Kind() == reflect.Pointer {
			if st.IsNil() {
				w.anomaly("the constructor of r%d takes its parameter object by pointer and was called with nil", r.ID)
				st = reflect.New(st.Type().Elem())
			}
			if !w.HoldArgs {
				inv.InPtr = st
			}
			st = st.Elem()
		}
		for i, d := range r.Deps {
			inv.Args = append(inv.Args, w.decodeArg(d, st.Field(i+1)))
			locator = locatorOf(r, d, st.Field(i+1), locator)
			if w.Cfg != nil && w.Cfg.Scribble && !r.PtrIn {
				scribbleSlice(d, st.Field(i+1))
			}
		}
	} else {
		for i, d := range r.Deps {
			inv.Args = append(inv.Args, w.decodeArg(d, args[i]))
			locator = locatorOf(r, d, args[i], locator)
			if w.Cfg != nil && w.Cfg.Scribble {
				scribbleSlice(d, args[i])
			}
		}
	}
	w.gate(GatePoint{Kind: GateCtorEnter, Inv: inv, Goid: inv.Goid})
	w.mu.Lock()
	f := w.Faults[[2]int{r.ID, inv.N}]
	waits := w.CtxWaitOn.Load() && w.CtxWaitRegs[r.ID] && !inv.Shadow && !w.inPreBuild.Load()
	w.mu.Unlock()
	if waits {
		for _, a := range inv.Args {
			if ctx, ok := a.Raw.(context.Context); ok && a.Dep.Builtin == 1 && ctx != nil {
				if w.CtxWaiting != nil {
					select {
					case w.CtxWaiting <- r.ID:
					default:
					}
				}
				select {
				case <-ctx.Done():
				case <-time.After(30 * time.Second):
					w.anomaly("a constructor of r%d waited 30 s for the context it was injected with to be done", r.ID)
				}
				break
			}
		}
	}
	nout := ft.NumOut()
	res := make([]reflect.Value, nout)
	for i := range res {
		res[i] = reflect.Zero(ft.Out(i))
	}
	if r.Locate != nil && locator != nil && !w.inPreBuild.Load() {
		var got any
		var lerr error
		if r.Locate.Key != "" {
			got, lerr = locator.GetKeyed(RType(r.Locate.T), r.Locate.Key)
		} else {
			got, lerr = locator.Get(RType(r.Locate.T))
		}
		if lerr != nil && r.HasErr {
			inv.Outcome = 2
			inv.EndSeq = w.NextSeq()
			lerr = fmt.Errorf("looking up %s: %w", *r.Locate, lerr)
			res[nout-1] = reflect.ValueOf(&lerr).Elem()
			return res
		}
		inv.Located = EntryOf(got)
	}
	switch f.Kind {
	case FaultPanic:
		inv.Outcome = 3
		inv.EndSeq = w.NextSeq()
		w.faultFires()
		panic(f.Panic)
	case FaultError:
		if r.HasErr {
			inv.Outcome = 2
			inv.EndSeq = w.NextSeq()
			if r.SliceErr {
				res[nout-1] = reflect.ValueOf(SErr{f.Err})
			} else if r.PtrErr {
				res[nout-1] = reflect.ValueOf(&CErr{Cause: f.Err})
			} else {
				res[nout-1] = reflect.ValueOf(&f.Err).Elem()
			}
			w.faultFires()
			return res
		}
	case FaultNil:
		// only interface-typed single results: a nil pointer is a value like any other
		if r.Form == FormPlain && IsIface(r.Outs[0].T) {
			w.faultFires()
			inv.Outcome = 4
			inv.EndSeq = w.NextSeq()
			return res
		}
	}
	switch r.Form {
	case FormPlain, FormMulti:
		objs := make([]reflect.Value, len(r.Outs))
		for i, o := range r.Outs {
			if o.Nil {
				inv.Outs = append(inv.Outs, nil) // res[i] stays the zero (nil) interface
				continue
			}
			if o.Same {
				// the very instance of an earlier output, under another declared type
				inv.Outs = append(inv.Outs, inv.Outs[o.SameAs])
				res[i] = objs[o.SameAs].Convert(ft.Out(i))
				continue
			}
			e, obj := w.newEntry(r, i, o.implFor(inv), inv)
			inv.Outs = append(inv.Outs, e)
			objs[i] = obj
			res[i] = wrapOut(o.T, obj, ft.Out(i))
		}
	case FormOut:
		st := reflect.New(ft.Out(0)).Elem()
		objs := make([]reflect.Value, len(r.Outs))
		for i, o := range r.Outs {
			if o.Nil {
				inv.Outs = append(inv.Outs, nil) // the field stays nil
				continue
			}
			if o.Same {
				inv.Outs = append(inv.Outs, inv.Outs[o.SameAs])
				st.Field(i + 1).Set(objs[o.SameAs].Convert(st.Field(i + 1).Type()))
				continue
			}
			e, obj := w.newEntry(r, i, o.implFor(inv), inv)
			inv.Outs = append(inv.Outs, e)
			objs[i] = obj
			st.Field(i + 1).Set(wrapOut(o.T, obj, st.Field(i+1).Type()))
		}
		res[0] = st
	}
	if w.HoldArgs {
		var held []any
		if r.UseIn && args[0].Kind() == reflect.Pointer {
			// the service keeps the parameter object it was given
			held = append(held, args[0].Interface())
		} else if r.UseIn {
			st := args[0]
			for i := range r.Deps {
				held = append(held, st.Field(i+1).Interface())
			}
		} else {
			for i := range r.Deps {
				held = append(held, args[i].Interface())
			}
		}
		for _, e := range inv.Outs {
			_ = e
		}
		for _, o := range heldTargets(res, r) {
			for _, h := range held {
				o.hold(h)
			}
		}
	}
	w.gate(GatePoint{Kind: GateCtorExit, Inv: inv, Goid: inv.Goid})
	end := w.NextSeq()
	inv.EndSeq = end
	for _, e := range inv.Outs {
		if e != nil {
			e.BornSeq = end
		}
	}
	inv.Outcome = 1
	w.cancelBuildIfAsked(r)
	return res
}

// cancelBuildIfAsked: the constructor of World.CancelBuildReg cancels, once it has done its work, the
// context of the BuildWithContext it runs under (a service that decides the application must not start).
func (w *World) cancelBuildIfAsked(r *Reg) {
	w.mu.Lock()
	c := w.BuildCancel
	on := w.CancelBuildReg != nil && *w.CancelBuildReg == r.ID
	w.mu.Unlock()
	if on && c != nil {
		c()
	}
}

// invokeStatic is the body of the static constructor kinds (plain form, at most
// one plain dependency): same ledger work as the reflect.MakeFunc trampoline.
func (w *World) invokeStatic(r *Reg, args []any) (any, error) {
	inv := w.begin(r)
	for i, d := range r.Deps {
		if args[i] == nil {
			inv.Args = append(inv.Args, ArgRec{Dep: d})
			continue
		}
		inv.Args = append(inv.Args, w.decodeArg(d, reflect.ValueOf(args[i])))
	}
	w.gate(GatePoint{Kind: GateCtorEnter, Inv: inv, Goid: inv.Goid})
	w.mu.Lock()
	f := w.Faults[[2]int{r.ID, inv.N}]
	w.mu.Unlock()
	switch f.Kind {
	case FaultPanic:
		inv.Outcome = 3
		inv.EndSeq = w.NextSeq()
		w.faultFires()
		panic(f.Panic)
	case FaultError:
		if r.HasErr {
			inv.Outcome = 2
			inv.EndSeq = w.NextSeq()
			w.faultFires()
			return nil, f.Err
		}
	}
	e, obj := w.newEntry(r, 0, r.Outs[0].implFor(inv), inv)
	inv.Outs = append(inv.Outs, e)
	w.gate(GatePoint{Kind: GateCtorExit, Inv: inv, Goid: inv.Goid})
	end := w.NextSeq()
	inv.EndSeq = end
	e.BornSeq = end
	inv.Outcome = 1
	return obj.Interface(), nil
}

// StaleArgs: a parameter object that a constructor took by pointer belongs to the service that was
// made from it: what it holds at the end of the run is what the constructor was called with.
func (w *World) StaleArgs() []string {
	var out []string
	for _, inv := range w.AllInvs() {
		if !inv.InPtr.IsValid() {
			continue
		}
		var r *Reg
		for i := range w.Cfg.Regs {
			if w.Cfg.Regs[i].ID == inv.Reg {
				r = &w.Cfg.Regs[i]
			}
		}
		if r == nil {
			continue
		}
		st := inv.InPtr.Elem()
		for i, d := range r.Deps {
			if i >= len(inv.Args) {
				break
			}
			was, now := inv.Args[i], w.decodeArg(d, st.Field(i+1))
			same := was.Present == now.Present && len(was.Entries) == len(now.Entries) && was.Foreign == now.Foreign
			for k := 0; same && k < len(was.Entries); k++ {
				same = was.Entries[k] == now.Entries[k]
			}
			if same && d.Builtin != 0 {
				same = was.Raw == now.Raw
			}
			if !same {
				out = append(out, fmt.Sprintf("invocation #%d of r%d (for scope s%d) took its parameter object by pointer; field %d (%s) held %s when the constructor ran and holds %s at the end of the run", inv.N, r.ID, inv.ScopeTag, i, d, argString(was), argString(now)))
			}
		}
	}
	return out
}

func argString(a ArgRec) string {
	switch {
	case a.Dep.Builtin != 0:
		return fmt.Sprintf("%T(%v)", a.Raw, a.Raw)
	case !a.Present && len(a.Entries) == 0:
		return "nothing"
	}
	return fmt.Sprint(a.Entries)
}

func (w *World) SetBuildCancel(c func()) {
	w.mu.Lock()
	w.BuildCancel = c
	w.mu.Unlock()
}

// faultFires: see CancelBuildOnFault.
func (w *World) faultFires() {
	w.mu.Lock()
	c := w.BuildCancel
	on := w.CancelBuildOnFault
	w.mu.Unlock()
	if on && c != nil {
		c()
	}
}

// heldTargets lists the freshly made instances inside a result list.
func heldTargets(res []reflect.Value, r *Reg) []Svc {
	var out []Svc
	add := func(v reflect.Value) {
		if (v.Kind() == reflect.Pointer || v.Kind() == reflect.Interface) && !v.IsNil() {
			if s, ok := v.Interface().(Svc); ok {
				out = append(out, s)
			}
		}
	}
	switch r.Form {
	case FormPlain, FormMulti:
		for i := range r.Outs {
			add(res[i])
		}
	case FormOut:
		for i := range r.Outs {
			add(res[0].Field(i + 1))
		}
	}
	return out
}

// staticCtor is overridden by kinds.go for non-MakeFunc function kinds.
func (w *World) staticCtor(r *Reg) any {
	if f := staticCtorHook; f != nil {
		return f(w, r)
	}
	panic("static constructor kinds not linked in")
}

var staticCtorHook func(w *World, r *Reg) any

// AddOptions builds the godi options of a registration.
func AddOptions(r *Reg) []godi.AddOption {
	var opts []godi.AddOption
	if r.Name != "" {
		opts = append(opts, godi.Name(r.Name))
	}
	if r.Group != "" {
		opts = append(opts, godi.Group(r.Group))
	}
	for _, a := range r.As {
		opts = append(opts, AsOption(a))
	}
	switch r.BadOpt {
	case BadOptNil:
		opts = append(opts, nil)
	case BadOptAsNonIface:
		opts = append(opts, godi.As[int]())
	case BadOptBackquote:
		opts = append(opts, godi.Name("bad`name"))
	case BadOptAsAnyVoid:
		opts = append(opts, godi.As[any]())
	}
	return opts
}

// ModuleOption returns the module-builder form of the registration call.
func (w *World) ModuleOption(r *Reg) godi.ModuleOption {
	svc := w.Service(r)
	opts := AddOptions(r)
	var add godi.ModuleOption
	switch r.Life {
	case Singleton:
		add = godi.AddSingleton(svc, opts...)
	case Scoped:
		add = godi.AddScoped(svc, opts...)
	default:
		add = godi.AddTransient(svc, opts...)
	}
	if len(r.Dropped) == 0 {
		return add
	}
	return func(c godi.Collection) error {
		if err := add(c); err != nil {
			return err
		}
		RemoveDropped(c, r)
		return nil
	}
}

// Register issues the Add* call for r on c.
func (w *World) Register(c godi.Collection, r *Reg) error {
	svc := w.Service(r)
	opts := AddOptions(r)
	var err error
	switch r.Life {
	case Singleton:
		err = c.AddSingleton(svc, opts...)
	case Scoped:
		err = c.AddScoped(svc, opts...)
	default:
		err = c.AddTransient(svc, opts...)
	}
	if err == nil {
		RemoveDropped(c, r)
	}
	return err
}

// RemoveDropped removes the registration's dropped identities from the collection.
func RemoveDropped(c godi.Collection, r *Reg) {
	if len(r.Dropped) == 0 {
		return
	}
	for i, p := range r.AllProvides() {
		if !r.Dropped[i] {
			continue
		}
		if p.Ident.Key != "" {
			c.RemoveKeyed(RType(p.Ident.T), p.Ident.Key)
		} else {
			c.Remove(RType(p.Ident.T))
		}
	}
}

// RegisterAll registers every registration of the config in the given order
// (nil = config order); it stops at the first error. With Cfg.PreBuild the
// collection is built, used and closed once on the way (see preBuild).
func (w *World) RegisterAll(c godi.Collection, order []int) error {
	if order == nil {
		order = make([]int, len(w.Cfg.Regs))
		for i := range order {
			order[i] = i
		}
	}
	type liveGhost struct {
		g    Ghost
		left int
	}
	var ghosts []liveGhost
	removeGhost := func(g Ghost) {
		if g.Key != "" {
			c.RemoveKeyed(RType(g.T), g.Key)
		} else {
			c.Remove(RType(g.T))
		}
	}
	standInAt := map[int][]int{} // call position -> indices of registrations whose stand-in is registered there
	for n, i := range order {
		if r := &w.Cfg.Regs[i]; standInOK(r) {
			at := n - r.StandInLead
			if at < 0 {
				at = 0
			}
			standInAt[at] = append(standInAt[at], i)
		}
	}
	standInIdent := func(r *Reg) Ident { return r.AllProvides()[0].Ident }
	var from func(start int) error
	from = func(start int) error {
		for n := start; n < len(order); n++ {
			i := order[n]
			if w.Cfg.LateDuringBuild && n == w.Cfg.PreBuild && n > 0 && start < n {
				// the remaining registration calls are issued by another goroutine while Build runs (Runner.Build)
				w.resume = func() error { return from(n) }
				return nil
			}
			for _, si := range standInAt[n] {
				r := &w.Cfg.Regs[si]
				id := standInIdent(r)
				ctor := w.ThrowawayCtor(id.T, "the stand-in that "+r.String()+" replaced")
				var opts []godi.AddOption
				if id.Key != "" {
					opts = append(opts, godi.Name(id.Key))
				}
				var err error
				switch r.StandInLife {
				case Singleton:
					err = c.AddSingleton(ctor, opts...)
				case Scoped:
					err = c.AddScoped(ctor, opts...)
				default:
					err = c.AddTransient(ctor, opts...)
				}
				if err != nil {
					return fmt.Errorf("register stand-in for %s: %w", r.String(), err)
				}
			}
			if r := &w.Cfg.Regs[i]; standInOK(r) {
				if id := standInIdent(r); id.Key != "" {
					c.RemoveKeyed(RType(id.T), id.Key)
				} else {
					c.Remove(RType(id.T))
				}
			}
			for gi, g := range w.Cfg.Ghosts {
				if g.At == n || (n == 0 && g.At < 0) {
					if err := w.registerGhost(c, gi, g); err != nil {
						return fmt.Errorf("register %s: %w", g, err)
					}
					ghosts = append(ghosts, liveGhost{g, g.Span})
				}
			}
			if n == w.Cfg.PreBuild && n > 0 && !w.Cfg.LateDuringBuild {
				w.inPreBuild.Store(true)
				w.preBuild(c)
				w.inPreBuild.Store(false)
			}
			if err := w.Register(c, &w.Cfg.Regs[i]); err != nil {
				return fmt.Errorf("register %s: %w", w.Cfg.Regs[i].String(), err)
			}
			kept := ghosts[:0]
			for _, lg := range ghosts {
				if lg.left <= 0 {
					removeGhost(lg.g)
					continue
				}
				lg.left--
				kept = append(kept, lg)
			}
			ghosts = kept
		}
		for _, lg := range ghosts {
			removeGhost(lg.g)
		}
		return nil
	}
	return from(0)
}

// Resume returns the registration calls RegisterAll left for the time of the Build
// (Config.LateDuringBuild), once; nil when there are none.
func (w *World) Resume() func() error {
	f := w.resume
	w.resume = nil
	return f
}

// standInOK: the registration has a stand-in and still has the shape stand-ins exist for (a
// planted defect may have copied or changed it since it was generated).
func standInOK(r *Reg) bool {
	return r.StandIn && (r.Form == FormPlain || r.Form == FormInstance) && len(r.As) == 0 && r.Group == "" && !r.HasCtorOf && len(r.After) == 0 && len(r.Dropped) == 0
}

// registerGhost registers a registration that will be removed again before
// Build; its constructor must never run for a provider built afterwards.
func (w *World) registerGhost(c godi.Collection, gi int, g Ghost) error {
	rt := RType(g.T)
	ft := reflect.FuncOf(nil, []reflect.Type{rt}, false)
	ctor := reflect.MakeFunc(ft, func([]reflect.Value) []reflect.Value {
		if !w.inPreBuild.Load() {
			w.anomaly("the constructor of %s ran although the registration had been removed before Build", g)
		}
		if rt.Kind() == reflect.Pointer {
			return []reflect.Value{reflect.New(rt.Elem())}
		}
		return []reflect.Value{reflect.Zero(rt)}
	}).Interface()
	var opts []godi.AddOption
	if g.Key != "" {
		opts = append(opts, godi.Name(g.Key))
	}
	switch g.Life {
	case Singleton:
		return c.AddSingleton(ctor, opts...)
	case Scoped:
		return c.AddScoped(ctor, opts...)
	}
	return c.AddTransient(ctor, opts...)
}

// Foreign runs f while everything the harness-made constructors and Close
// methods do is attributed to another provider: faults, close errors and gates
// are suspended, invocations and instances go to the shadow ledger, and
// constructors that belong to no registration of the model may run.
func (w *World) Foreign(f func()) {
	w.mu.Lock()
	faults, closeErr, closeFail, closePanic, onMade := w.Faults, w.CloseErr, w.CloseFailRegs, w.ClosePanicRegs, w.OnMade
	w.Faults, w.CloseErr, w.CloseFailRegs, w.ClosePanicRegs, w.OnMade = map[[2]int]Fault{}, map[int]error{}, map[int]bool{}, map[int]bool{}, nil
	w.mu.Unlock()
	gate := w.gateFn.Swap(nil)
	w.shadow.Store(true)
	w.inPreBuild.Store(true)
	defer func() {
		w.inPreBuild.Store(false)
		w.shadow.Store(false)
		w.gateFn.Store(gate)
		w.mu.Lock()
		w.Faults, w.CloseErr, w.CloseFailRegs, w.ClosePanicRegs, w.OnMade = faults, closeErr, closeFail, closePanic, onMade
		w.mu.Unlock()
	}()
	f()
}

// ThrowawayCtor returns a constructor for type id t that belongs to no
// registration of the model (collection edits after Build): running it is an anomaly.
func (w *World) ThrowawayCtor(t int, what string) any {
	rt := RType(t)
	ft := reflect.FuncOf(nil, []reflect.Type{rt}, false)
	return reflect.MakeFunc(ft, func([]reflect.Value) []reflect.Value {
		if !w.inPreBuild.Load() {
			w.anomaly("the constructor of %s ran although it is no part of the registrations the provider was built from", what)
		}
		if rt.Kind() == reflect.Pointer {
			return []reflect.Value{reflect.New(rt.Elem())}
		}
		return []reflect.Value{reflect.Zero(rt)}
	}).Interface()
}

// preBuild builds the collection as it stands, resolves what can be resolved
// from the provider and from one scope, closes everything and wipes the
// ledger: what follows must behave as if this had never happened. Faults,
// gates and close errors are suspended meanwhile. A panic is not recovered
// here: it surfaces in the operation that registers (Build).
func (w *World) preBuild(c godi.Collection) {
	w.mu.Lock()
	faults, closeErr, closeFail, onMade := w.Faults, w.CloseErr, w.CloseFailRegs, w.OnMade
	w.Faults, w.CloseErr, w.CloseFailRegs, w.OnMade = map[[2]int]Fault{}, map[int]error{}, map[int]bool{}, nil
	w.mu.Unlock()
	gate := w.gateFn.Swap(nil)
	if p, err := c.Build(); err == nil {
		ids := w.M.AllIdents()
		use := func(t godi.Provider) {
			for _, id := range ids {
				switch {
				case id.Group != "":
					_, _ = t.GetGroup(RType(id.T), id.Group)
				case id.Key != "":
					_, _ = t.GetKeyed(RType(id.T), id.Key)
				default:
					_, _ = t.Get(RType(id.T))
				}
			}
		}
		use(p)
		if s, err := p.CreateScope(nil); err == nil { //nolint
			use(s)
			_ = s.Close()
		}
		_ = p.Close()
	}
	w.gateFn.Store(gate)
	w.mu.Lock()
	w.Faults, w.CloseErr, w.CloseFailRegs, w.OnMade = faults, closeErr, closeFail, onMade
	kept := w.Entries[:0:0]
	for _, e := range w.Entries {
		if e.Inv == nil { // instance values live on
			e.mu.Lock()
			e.Closes, e.Shutdowns = nil, 0
			e.mu.Unlock()
			kept = append(kept, e)
		}
	}
	w.Entries, w.Invs, w.CloseLog, w.Anomaly = kept, nil, nil, nil
	w.Count = map[int]int{}
	w.mu.Unlock()
}

// InvsOf returns the invocations of a registration (snapshot).
func (w *World) InvsOf(reg int) []*Inv {
	w.mu.Lock()
	defer w.mu.Unlock()
	var out []*Inv
	for _, i := range w.Invs {
		if i.Reg == reg {
			out = append(out, i)
		}
	}
	return out
}

func (w *World) AllInvs() []*Inv {
	w.mu.Lock()
	defer w.mu.Unlock()
	return append([]*Inv(nil), w.Invs...)
}

func (w *World) AllEntries() []*Entry {
	w.mu.Lock()
	defer w.mu.Unlock()
	return append([]*Entry(nil), w.Entries...)
}

func (w *World) Anomalies() []string {
	w.mu.Lock()
	defer w.mu.Unlock()
	return append([]string(nil), w.Anomaly...)
}

// SetFaultNext plans a fault for the next invocation of the registration's constructor.
func (w *World) SetFaultNext(reg int, f Fault) {
	w.mu.Lock()
	w.Faults[[2]int{reg, w.Count[reg] + 1}] = f
	w.mu.Unlock()
}

// ClearFaults drops the fault plan.
func (w *World) ClearFaults() {
	w.mu.Lock()
	w.Faults = map[[2]int]Fault{}
	w.mu.Unlock()
}

// typedOK reports whether resolving id through the generic helpers is
// equivalent to Provider.Get*: not for an output that is always nil, and not in
// a run that injects a nil result.
func (w *World) typedOK(id Ident) bool {
	if id.T == TVoid || (w.M != nil && id.Group == "" && w.M.NilOutput(id)) {
		return false
	}
	if w.M != nil && id.Group != "" {
		// a group with a member that is always nil: the typed helper refuses the nil element
		for _, ow := range w.M.Members(id.T, id.Group) {
			if r := w.M.Regs[ow.Reg]; r != nil && ow.Out < len(r.Outs) && r.Outs[ow.Out].Nil {
				return false
			}
		}
	}
	w.mu.Lock()
	defer w.mu.Unlock()
	for _, f := range w.Faults {
		if f.Kind == FaultNil {
			return false
		}
	}
	return true
}

package kit

import (
	"fmt"
	"reflect"

	"pgregory.net/rapid"
)

var typeIDs = func() map[reflect.Type]int {
	m := map[reflect.Type]int{}
	for i := 0; i < NumTypes; i++ {
		m[RType(i)] = i
	}
	m[RType(TSl)] = TSl
	m[RType(TVoid)] = TVoid
	return m
}()

// TypeID maps a reflect.Type back to its universe id.
func TypeID(t reflect.Type) (int, bool) { id, ok := typeIDs[t]; return id, ok }

// NodeOwner maps a dependency-graph node identity (type, key, group) to the
// registration owning it. group placeholder nodes (group set, key nil) return
// isGroupNode=true.
func (m *Model) NodeOwner(t reflect.Type, key any, group string) (reg int, isGroupNode bool, err error) {
	tid, ok := TypeID(t)
	if !ok {
		return 0, false, fmt.Errorf("node type %v is not a service type", t)
	}
	if group != "" {
		if key == nil {
			return 0, true, nil
		}
		idx, ok := key.(int)
		mem := m.Members(tid, group)
		if !ok || idx < 1 || idx > len(mem) {
			return 0, false, fmt.Errorf("node %v[%s] has member key %v, group has %d members", t, group, key, len(mem))
		}
		return mem[idx-1].Reg, false, nil
	}
	ks := ""
	if key != nil {
		s, ok := key.(string)
		if !ok {
			return 0, false, fmt.Errorf("node %v has non-string key %v", t, key)
		}
		ks = s
	}
	o, ok := m.Keyed[Ident{T: tid, Key: ks}]
	if !ok {
		return 0, false, fmt.Errorf("node %v:%v is not a registered identity", t, key)
	}
	return o.Reg, false, nil
}

// PlantDeps adds n extra dependencies between arbitrary registrations (any
// direction, any edge kind), which may create cycles, captive dependencies or
// nothing special. Returns a description of what was planted.
func PlantDeps(t *rapid.T, cfg *Config, n int, allowOptional bool) []string {
	m, err := NewModel(cfg)
	if err != nil {
		return nil
	}
	var what []string
	// candidate targets: every provided identity, keyed or group
	type target struct {
		d   DepSpec
		reg int
	}
	var targets []target
	for id, o := range m.Keyed {
		if m.NilOutput(id) {
			continue // nothing can sensibly depend on an output that is always nil
		}
		targets = append(targets, target{DepSpec{T: id.T, Key: id.Key}, o.Reg})
	}
	for gk, mem := range m.Groups {
		targets = append(targets, target{DepSpec{T: gk.T, Group: gk.Group}, mem[0].Reg})
	}
	if len(targets) == 0 {
		return nil
	}
	// deterministic order
	for i := 1; i < len(targets); i++ {
		for j := i; j > 0 && targets[j].d.String() < targets[j-1].d.String(); j-- {
			targets[j], targets[j-1] = targets[j-1], targets[j]
		}
	}
	var dependents []int
	for i := range cfg.Regs {
		if cfg.Regs[i].Form != FormInstance && cfg.Regs[i].Kind == KindMakeFunc {
			dependents = append(dependents, i)
		}
	}
	if len(dependents) == 0 {
		return nil
	}
	for k := 0; k < n; k++ {
		ri := rapid.SampledFrom(dependents).Draw(t, "plantFrom")
		tg := rapid.SampledFrom(targets).Draw(t, "plantTo")
		d := tg.d
		if allowOptional && rapid.IntRange(0, 4).Draw(t, "plantOpt") == 0 {
			d.Optional = true
		}
		r := &cfg.Regs[ri]
		r.Deps = append(r.Deps, d)
		if d.Key != "" || d.Group != "" || d.Optional || rapid.Bool().Draw(t, "plantIn") {
			r.UseIn = true
		}
		kind := "plain"
		switch {
		case d.Group != "":
			kind = "group"
		case d.Key != "":
			kind = "keyed"
		}
		if d.Optional {
			kind += "+optional"
		}
		if r.UseIn && kind == "plain" {
			kind = "in-field"
		}
		what = append(what, fmt.Sprintf("r%d->%s(%s)", r.ID, d, kind))
	}
	return what
}

// DropRegs removes each registration with probability p%; returns the ids dropped.
func DropRegs(t *rapid.T, cfg *Config, pct int) []int {
	var kept []Reg
	var dropped []int
	for _, r := range cfg.Regs {
		if rapid.IntRange(0, 99).Draw(t, "drop") < pct {
			dropped = append(dropped, r.ID)
			continue
		}
		kept = append(kept, r)
	}
	cfg.Regs = kept
	return dropped
}

// CloneConfig deep-copies a configuration.
func CloneConfig(c *Config) *Config {
	o := &Config{Regs: make([]Reg, len(c.Regs)), PreBuild: c.PreBuild, Ghosts: append([]Ghost(nil), c.Ghosts...), BuildMode: c.BuildMode, Scribble: c.Scribble, LateDuringBuild: c.LateDuringBuild, LateAt: c.LateAt}
	for i, r := range c.Regs {
		r.Outs = append([]OutSpec(nil), r.Outs...)
		r.Deps = append([]DepSpec(nil), r.Deps...)
		r.As = append([]int(nil), r.As...)
		if r.Dropped != nil {
			d := map[int]bool{}
			for k, v := range r.Dropped {
				d[k] = v
			}
			r.Dropped = d
		}
		o.Regs[i] = r
	}
	return o
}

// depOn returns a dependency declaration on one of the identities reg provides.
func depOn(t *rapid.T, r *Reg) (DepSpec, bool) {
	var ps []Provided
	for _, p := range r.Provides() {
		if (p.Out < len(r.Outs) && r.Outs[p.Out].Nil) || p.Ident.T == TVoid {
			continue
		}
		ps = append(ps, p)
	}
	if len(ps) == 0 {
		return DepSpec{}, false
	}
	p := rapid.SampledFrom(ps).Draw(t, "depOnIdent")
	d := DepSpec{T: p.Ident.T, Key: p.Ident.Key, Group: p.Ident.Group}
	if d.Group != "" && rapid.IntRange(0, 3).Draw(t, "groupAndName") == 0 {
		d.Key = "alsonamed" // a group field that also carries a name tag: filled from the group, the name is ignored
	}
	if rapid.IntRange(0, 5).Draw(t, "depOnOpt") == 0 {
		d.Optional = true
	}
	return d, true
}

func addDep(r *Reg, d DepSpec) {
	r.Deps = append(r.Deps, d)
	if d.Key != "" || d.Group != "" || d.Optional {
		r.UseIn = true
	}
}

// Reaches reports whether registration from depends, directly or indirectly, on registration to.
func (m *Model) Reaches(from, to int) bool { return from != to && m.reaches(from, to) }

func (m *Model) reaches(from, to int) bool {
	seen := map[int]bool{}
	st := []int{from}
	for len(st) > 0 {
		u := st[len(st)-1]
		st = st[:len(st)-1]
		if u == to {
			return true
		}
		if seen[u] {
			continue
		}
		seen[u] = true
		st = append(st, m.RegEdges(m.Regs[u])...)
	}
	return false
}

// PlantCycle closes a dependency cycle: picks registrations u, v with v
// reachable from u (or v == u) and makes v depend on u; optionally makes a
// third registration depend on two members of the cycle. Returns false when
// the configuration offers no opportunity.
func PlantCycle(t *rapid.T, cfg *Config) bool {
	m, err := NewModel(cfg)
	if err != nil {
		return false
	}
	type pair struct{ u, v int } // indices into cfg.Regs
	var cands []pair
	for i := range cfg.Regs {
		if len(cfg.Regs[i].Provides()) == 0 {
			continue
		}
		for j := range cfg.Regs {
			if cfg.Regs[j].Form == FormInstance {
				continue
			}
			if i == j || m.reaches(cfg.Regs[i].ID, cfg.Regs[j].ID) {
				cands = append(cands, pair{i, j})
			}
		}
	}
	if len(cands) == 0 {
		return false
	}
	p := rapid.SampledFrom(cands).Draw(t, "cyclePair")
	d, ok := depOn(t, &cfg.Regs[p.u])
	if !ok {
		return false
	}
	addDep(&cfg.Regs[p.v], d)
	if p.u != p.v && rapid.Bool().Draw(t, "sharedParent") {
		// a third registration depending directly on two members of the cycle
		for k := range cfg.Regs {
			if k != p.u && k != p.v && cfg.Regs[k].Form != FormInstance && cfg.Regs[k].Kind == KindMakeFunc {
				d1, ok1 := depOn(t, &cfg.Regs[p.u])
				d2, ok2 := depOn(t, &cfg.Regs[p.v])
				if ok1 && ok2 {
					addDep(&cfg.Regs[k], d1)
					addDep(&cfg.Regs[k], d2)
				}
				break
			}
		}
	}
	return true
}

// PlantCaptive makes a singleton/transient registration depend on a scoped one
// without closing a cycle. Returns false when there is no opportunity.
func PlantCaptive(t *rapid.T, cfg *Config) bool {
	m, err := NewModel(cfg)
	if err != nil {
		return false
	}
	type pair struct{ a, b int }
	var cands []pair
	for i := range cfg.Regs {
		a := &cfg.Regs[i]
		if a.Life == Scoped || a.Form == FormInstance || a.Kind != KindMakeFunc {
			continue
		}
		for j := range cfg.Regs {
			b := &cfg.Regs[j]
			if b.Life != Scoped || len(b.Provides()) == 0 || m.reaches(b.ID, a.ID) {
				continue
			}
			cands = append(cands, pair{i, j})
		}
	}
	if len(cands) == 0 {
		return false
	}
	p := rapid.SampledFrom(cands).Draw(t, "captivePair")
	d, ok := depOn(t, &cfg.Regs[p.b])
	if !ok {
		return false
	}
	addDep(&cfg.Regs[p.a], d)
	return true
}

// PlantSameCtor registers the constructor of a scoped service that depends on
// another scoped service a second time, under another name and as a singleton
// or transient: a captive dependency that differs from an accepted
// registration in nothing but the lifetime. The clone is appended (registered
// after the original). Returns false when the configuration offers no
// opportunity.
func PlantSameCtor(t *rapid.T, cfg *Config) bool {
	m, err := NewModel(cfg)
	if err != nil {
		return false
	}
	var cands []int
	for i := range cfg.Regs {
		r := &cfg.Regs[i]
		if r.Life != Scoped || r.Form != FormPlain || len(r.As) > 0 || r.Kind != KindMakeFunc || len(r.Dropped) > 0 || IsIface(r.Outs[0].T) && r.Outs[0].HasAlt {
			continue
		}
		for _, v := range m.RegEdges(r) {
			if m.Regs[v].Life == Scoped {
				cands = append(cands, i)
				break
			}
		}
	}
	if len(cands) == 0 {
		return false
	}
	src := cfg.Regs[rapid.SampledFrom(cands).Draw(t, "sameCtorOf")]
	nid := 0
	for _, r := range cfg.Regs {
		if r.ID >= nid {
			nid = r.ID + 1
		}
	}
	clone := src
	clone.ID = nid
	clone.Outs = append([]OutSpec(nil), src.Outs...)
	clone.Deps = append([]DepSpec(nil), src.Deps...)
	clone.Life = rapid.SampledFrom([]int{Singleton, Transient}).Draw(t, "sameCtorLife")
	clone.Name, clone.Group = "again", ""
	if rapid.Bool().Draw(t, "sameCtorGroup") {
		clone.Name, clone.Group = "", "again"
	}
	clone.HasCtorOf, clone.CtorOf = true, src.ID
	cfg.Regs = append(cfg.Regs, clone)
	return true
}

// PlantCaptiveFlip creates a captive dependency the other way round: the
// provider of something a long-lived service already depends on (through
// whatever kind of edge the generator gave it, embedded fields included)
// becomes scoped. Returns false when there is no such pair.
func PlantCaptiveFlip(t *rapid.T, cfg *Config) bool {
	m, err := NewModel(cfg)
	if err != nil {
		return false
	}
	var cands []int
	seen := map[int]bool{}
	for i := range cfg.Regs {
		a := &cfg.Regs[i]
		if a.Life == Scoped || a.Form == FormInstance {
			continue
		}
		for _, v := range m.RegEdges(a) {
			if b := m.Regs[v]; b.Life != Scoped && b.Form != FormInstance && !seen[v] {
				seen[v] = true
				for j := range cfg.Regs {
					if cfg.Regs[j].ID == v {
						cands = append(cands, j)
					}
				}
			}
		}
	}
	if len(cands) == 0 {
		return false
	}
	cfg.Regs[rapid.SampledFrom(cands).Draw(t, "flipToScoped")].Life = Scoped
	return true
}

// PlantSliceNamed: a group field over I0 of some long-lived consumer gets a
// name tag as well, and a SCOPED service of the field's own type []I0 is
// registered under exactly that name. The field is a dependency on the group
// (the group tag wins), so nothing becomes invalid: the consumer must receive
// the group's members - never the scoped slice-typed service.
func PlantSliceNamed(t *rapid.T, cfg *Config) bool {
	type site struct{ reg, dep int }
	var sites []site
	for i := range cfg.Regs {
		r := &cfg.Regs[i]
		if r.Form == FormInstance || r.Kind != KindMakeFunc || r.Variadic {
			continue
		}
		for j, d := range r.Deps {
			if d.T == TI0 && d.Group != "" && d.Builtin == 0 && !d.Ignored {
				sites = append(sites, site{i, j})
			}
		}
	}
	if len(sites) == 0 {
		return false
	}
	st := rapid.SampledFrom(sites).Draw(t, "sliceNamedSite")
	name := "slnamed"
	for _, r := range cfg.Regs {
		for _, p := range r.AllProvides() {
			if p.Ident == (Ident{T: TSl, Key: name}) {
				return false
			}
		}
	}
	cfg.Regs[st.reg].Deps[st.dep].Key = name
	cfg.Regs[st.reg].UseIn = true
	nextID := 0
	for _, r := range cfg.Regs {
		if r.ID >= nextID {
			nextID = r.ID + 1
		}
	}
	cfg.Regs = append(cfg.Regs, Reg{ID: nextID, Life: Scoped, Form: FormPlain, Outs: []OutSpec{{T: TSl, Impl: NumD}}, Name: name})
	return true
}

// PlantLateCaptive makes a captive dependency that exists only at the second
// Build of the collection: a long-lived registration gets an optional
// dependency (the first field of its parameter object, other fields follow) on
// a scoped service that is registered later, and the collection is built once
// in between (Config.PreBuild) - while the optional dependency is still
// unprovided. The final Build must refuse the set like any other captive
// dependency. Returns false when the configuration offers no opportunity.
func PlantLateCaptive(t *rapid.T, cfg *Config) bool {
	m, err := NewModel(cfg)
	if err != nil {
		return false
	}
	type pair struct{ a, b int }
	var cands []pair
	for i := range cfg.Regs {
		a := &cfg.Regs[i]
		if a.Life == Scoped || a.Form == FormInstance || a.Kind != KindMakeFunc || len(a.After) > 0 {
			continue
		}
		for j := i + 1; j < len(cfg.Regs); j++ {
			b := &cfg.Regs[j]
			if b.Life != Scoped || len(b.Provides()) == 0 || len(b.Dropped) > 0 || b.StandIn || m.reaches(b.ID, a.ID) {
				continue
			}
			cands = append(cands, pair{i, j})
		}
	}
	if len(cands) == 0 {
		return false
	}
	p := rapid.SampledFrom(cands).Draw(t, "lateCaptivePair")
	a := &cfg.Regs[p.a]
	d, ok := depOn(t, &cfg.Regs[p.b])
	if !ok || d.Group != "" {
		return false
	}
	d.Optional = true
	kept := false
	for _, x := range a.Deps {
		if x.Builtin == 0 && !x.Ignored && len(m.DepTargets(x)) > 0 {
			kept = true
		}
	}
	if !kept {
		// a dependency that is provided at the first Build already has to follow
		for k := 0; k < p.b && !kept; k++ {
			c := &cfg.Regs[k]
			if k == p.a || c.Life == Scoped || m.reaches(c.ID, a.ID) || len(c.Dropped) > 0 {
				continue
			}
			if dc, ok := depOn(t, c); ok && dc.Group == "" {
				dc.Optional = false
				a.Deps = append(a.Deps, dc)
				kept = true
			}
		}
	}
	if !kept {
		return false
	}
	a.Deps = append([]DepSpec{d}, a.Deps...)
	a.UseIn = true
	cfg.PreBuild = p.b
	return true
}

// PlantNilMember adds a group of its own (interface element type I0, group name "gn") whose
// members are a transient service followed by a result-object field its constructor always leaves
// nil, and a consumer that takes the group through a parameter-object field. Members that are
// nil are left open by the statements; the members around them are judged like any others.
func PlantNilMember(t *rapid.T, cfg *Config) bool {
	nid := 0
	for _, r := range cfg.Regs {
		if r.ID >= nid {
			nid = r.ID + 1
		}
		for _, p := range r.AllProvides() {
			if p.Ident.Group == "gn" {
				return false
			}
		}
	}
	life := rapid.SampledFrom([]int{Transient, Transient, Scoped}).Draw(t, "nilMemberFirstLife")
	first := Reg{ID: nid, Life: life, Form: FormPlain, Outs: []OutSpec{{T: TI0, Impl: rapid.SampledFrom([]int{0, NumD}).Draw(t, "nilMemberImpl")}}, Group: "gn"}
	// a result object: one real output of a type nobody else needs under this name, one group field left nil
	second := Reg{ID: nid + 1, Life: rapid.SampledFrom([]int{Transient, Scoped}).Draw(t, "nilMemberSecondLife"), Form: FormOut,
		Outs: []OutSpec{{T: NumD + 3, Impl: NumD + 3, Key: "gn-carrier"}, {T: TI0, Impl: 0, Group: "gn", Nil: true}}}
	regs := []Reg{first, second}
	if rapid.Bool().Draw(t, "nilMemberThird") {
		regs = append(regs, Reg{ID: nid + 2, Life: Transient, Form: FormPlain, Outs: []OutSpec{{T: TI0, Impl: NumD}}, Group: "gn"})
	}
	consumer := Reg{ID: nid + 3, Life: rapid.SampledFrom([]int{Transient, Scoped}).Draw(t, "nilMemberConsumerLife"), Form: FormPlain,
		Outs: []OutSpec{{T: NumD + 4, Impl: NumD + 4}}, Name: "gn-consumer", Deps: []DepSpec{{T: TI0, Group: "gn"}}, UseIn: true}
	cfg.Regs = append(cfg.Regs, append(regs, consumer)...)
	if _, err := NewModel(cfg); err != nil {
		cfg.Regs = cfg.Regs[:len(cfg.Regs)-len(regs)-1]
		return false
	}
	return true
}

// PlantVoidChain adds a singleton service, a *singleton* function without results that needs it and is
// registered under a name (a migration step), and a singleton consumer that depends on the service and -
// through a name-tagged struct{} field - on the function having run. The order of construction is
// pinned by declared dependencies only.
func PlantVoidChain(t *rapid.T, cfg *Config) bool {
	nid := 0
	for _, r := range cfg.Regs {
		if r.ID >= nid {
			nid = r.ID + 1
		}
		for _, p := range r.AllProvides() {
			if p.Ident.Key == "vc-db" || p.Ident.Key == "vc-repo" || p.Ident.Key == "vc-migrate" {
				return false
			}
		}
		if r.Name == "vc-migrate" {
			return false
		}
	}
	db := Reg{ID: nid, Life: Singleton, Form: FormPlain, Outs: []OutSpec{{T: 0, Impl: 0}}, Name: "vc-db"}
	mig := Reg{ID: nid + 1, Life: Singleton, Form: FormVoid, Name: "vc-migrate", HasErr: rapid.Bool().Draw(t, "voidChainErr"),
		Deps: []DepSpec{{T: 0, Key: "vc-db"}}, UseIn: true}
	repo := Reg{ID: nid + 2, Life: Singleton, Form: FormPlain, Outs: []OutSpec{{T: NumD + 1, Impl: NumD + 1}}, Name: "vc-repo", UseIn: true,
		Deps: []DepSpec{{T: 0, Key: "vc-db"}, {T: TVoid, Key: "vc-migrate", Optional: rapid.Bool().Draw(t, "voidChainOptional")}}}
	regs := []Reg{db, mig, repo}
	// (registered in a generated order: the set decides, not the order of the calls)
	perm := rapid.Permutation([]int{0, 1, 2}).Draw(t, "voidChainOrder")
	for _, i := range perm {
		cfg.Regs = append(cfg.Regs, regs[i])
	}
	if _, err := NewModel(cfg); err != nil {
		cfg.Regs = cfg.Regs[:len(cfg.Regs)-3]
		return false
	}
	return true
}

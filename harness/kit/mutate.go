package kit

import (
	"fmt"
	"reflect"

	"pgregory.net/rapid"
)

var typeIDs = func() map[reflect.Type]int {
	m := map[reflect.Type]int{}
	for i := 0; i < NumTypes; i++ {
		m[RType(i)] = i
	}
	return m
}()

// TypeID maps a reflect.Type back to its universe id.
func TypeID(t reflect.Type) (int, bool) { id, ok := typeIDs[t]; return id, ok }

// NodeOwner maps a dependency-graph node identity (type, key, group) to the
// registration owning it. group placeholder nodes (group set, key nil) return
// isGroupNode=true.
func (m *Model) NodeOwner(t reflect.Type, key any, group string) (reg int, isGroupNode bool, err error) {
	tid, ok := TypeID(t)
	if !ok {
		return 0, false, fmt.Errorf("node type %v is not a service type", t)
	}
	if group != "" {
		if key == nil {
			return 0, true, nil
		}
		idx, ok := key.(int)
		mem := m.Members(tid, group)
		if !ok || idx < 1 || idx > len(mem) {
			return 0, false, fmt.Errorf("node %v[%s] has member key %v, group has %d members", t, group, key, len(mem))
		}
		return mem[idx-1].Reg, false, nil
	}
	ks := ""
	if key != nil {
		s, ok := key.(string)
		if !ok {
			return 0, false, fmt.Errorf("node %v has non-string key %v", t, key)
		}
		ks = s
	}
	o, ok := m.Keyed[Ident{T: tid, Key: ks}]
	if !ok {
		return 0, false, fmt.Errorf("node %v:%v is not a registered identity", t, key)
	}
	return o.Reg, false, nil
}

// PlantDeps adds n extra dependencies between arbitrary registrations (any
// direction, any edge kind), which may create cycles, captive dependencies or
// nothing special. Returns a description of what was planted.
func PlantDeps(t *rapid.T, cfg *Config, n int, allowOptional bool) []string {
	m, err := NewModel(cfg)
	if err != nil {
		return nil
	}
	var what []string
	// candidate targets: every provided identity, keyed or group
	type target struct {
		d   DepSpec
		reg int
	}
	var targets []target
	for id, o := range m.Keyed {
		targets = append(targets, target{DepSpec{T: id.T, Key: id.Key}, o.Reg})
	}
	for gk, mem := range m.Groups {
		targets = append(targets, target{DepSpec{T: gk.T, Group: gk.Group}, mem[0].Reg})
	}
	if len(targets) == 0 {
		return nil
	}
	// deterministic order
	for i := 1; i < len(targets); i++ {
		for j := i; j > 0 && targets[j].d.String() < targets[j-1].d.String(); j-- {
			targets[j], targets[j-1] = targets[j-1], targets[j]
		}
	}
	var dependents []int
	for i := range cfg.Regs {
		if cfg.Regs[i].Form != FormInstance {
			dependents = append(dependents, i)
		}
	}
	if len(dependents) == 0 {
		return nil
	}
	for k := 0; k < n; k++ {
		ri := rapid.SampledFrom(dependents).Draw(t, "plantFrom")
		tg := rapid.SampledFrom(targets).Draw(t, "plantTo")
		d := tg.d
		if allowOptional && rapid.IntRange(0, 4).Draw(t, "plantOpt") == 0 {
			d.Optional = true
		}
		r := &cfg.Regs[ri]
		r.Deps = append(r.Deps, d)
		if d.Key != "" || d.Group != "" || d.Optional || rapid.Bool().Draw(t, "plantIn") {
			r.UseIn = true
		}
		kind := "plain"
		switch {
		case d.Group != "":
			kind = "group"
		case d.Key != "":
			kind = "keyed"
		}
		if d.Optional {
			kind += "+optional"
		}
		if r.UseIn && kind == "plain" {
			kind = "in-field"
		}
		what = append(what, fmt.Sprintf("r%d->%s(%s)", r.ID, d, kind))
	}
	return what
}

// DropRegs removes each registration with probability p%; returns the ids dropped.
func DropRegs(t *rapid.T, cfg *Config, pct int) []int {
	var kept []Reg
	var dropped []int
	for _, r := range cfg.Regs {
		if rapid.IntRange(0, 99).Draw(t, "drop") < pct {
			dropped = append(dropped, r.ID)
			continue
		}
		kept = append(kept, r)
	}
	cfg.Regs = kept
	return dropped
}

// CloneConfig deep-copies a configuration.
func CloneConfig(c *Config) *Config {
	o := &Config{Regs: make([]Reg, len(c.Regs))}
	for i, r := range c.Regs {
		r.Outs = append([]OutSpec(nil), r.Outs...)
		r.Deps = append([]DepSpec(nil), r.Deps...)
		r.As = append([]int(nil), r.As...)
		o.Regs[i] = r
	}
	return o
}

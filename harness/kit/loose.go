package kit

import "pgregory.net/rapid"

// GenLooseReg generates one registration over a deliberately small identity
// pool, without any regard for what is already registered: collisions, invalid
// option combinations and dangling dependencies all occur.
func GenLooseReg(t *rapid.T, id int, hostile bool) Reg {
	types := []int{0, 1, NumD, NumD + 1} // D0 D1 N0 N1
	keys := []string{"", "", "a", "a "}  // ("a" and "a " are two names)
	groups := []string{"", "", "g", "h"}
	group := func() string { return rapid.SampledFrom([]string{"g", "g", "h", " g"}).Draw(t, "group") } // one element type occurs in two groups
	r := Reg{ID: id, Life: rapid.IntRange(0, 2).Draw(t, "life")}
	r.Form = rapid.SampledFrom([]int{FormPlain, FormPlain, FormPlain, FormMulti, FormOut, FormInstance, FormVoid}).Draw(t, "form")
	pick := func() int { return rapid.SampledFrom(types).Draw(t, "type") }
	switch r.Form {
	case FormPlain, FormInstance:
		ty := pick()
		r.Outs = []OutSpec{{T: ty, Impl: ty}}
		switch rapid.IntRange(0, 5).Draw(t, "opt") {
		case 0:
			r.Name = rapid.SampledFrom([]string{"a", "a", "a "}).Draw(t, "name")
		case 1:
			r.Group = group()
		case 2:
			r.As = []int{rapid.SampledFrom([]int{TI0, TI1}).Draw(t, "as")}
			if rapid.Bool().Draw(t, "as2") {
				r.As = append(r.As, TI2)
			}
			r.Name = rapid.SampledFrom(keys).Draw(t, "askey")
		case 3:
			if hostile {
				r.Name, r.Group = "a", "g" // invalid: both
			}
		}
	case FormMulti:
		n := rapid.IntRange(2, 3).Draw(t, "nouts")
		for i := 0; i < n; i++ {
			ty := pick()
			r.Outs = append(r.Outs, OutSpec{T: ty, Impl: ty})
		}
		if rapid.IntRange(0, 3).Draw(t, "mgroup") == 0 {
			r.Group = group()
		}
	case FormOut:
		n := rapid.IntRange(1, 3).Draw(t, "nfields")
		for i := 0; i < n; i++ {
			ty := pick()
			o := OutSpec{T: ty, Impl: ty}
			switch rapid.IntRange(0, 3).Draw(t, "ftag") {
			case 0:
				o.Key = rapid.SampledFrom(keys).Draw(t, "fkey")
			case 1:
				o.Group = rapid.SampledFrom(groups).Draw(t, "fgroup")
			case 2:
				if hostile && rapid.IntRange(0, 3).Draw(t, "bothtags") == 0 {
					o.Key, o.Group = "a", "g" // a field carrying both a name and a group tag
				}
			}
			r.Outs = append(r.Outs, o)
		}
	case FormVoid:
		r.Life = Scoped
		if rapid.IntRange(0, 1).Draw(t, "voidname") == 0 {
			r.Name = "a" // a named initializer: removable (and colliding) like any keyed service
		}
	}
	if r.Form != FormInstance && rapid.IntRange(0, 3).Draw(t, "hasdeps") == 0 {
		n := rapid.IntRange(1, 2).Draw(t, "ndeps")
		for i := 0; i < n; i++ {
			d := DepSpec{T: pick()}
			switch rapid.IntRange(0, 4).Draw(t, "dkind") {
			case 0:
				d.Key = "a"
			case 1:
				d.Group = group()
			case 2:
				d.Optional = true
			}
			r.Deps = append(r.Deps, d)
			if d.Key != "" || d.Group != "" || d.Optional {
				r.UseIn = true
			}
		}
	}
	r.HasErr = r.Form != FormInstance && rapid.IntRange(0, 3).Draw(t, "err") == 0
	if hostile && rapid.IntRange(0, 7).Draw(t, "badopt") == 0 {
		r.BadOpt = rapid.IntRange(1, 3).Draw(t, "badoptkind")
	}
	if hostile && r.Form == FormVoid && r.BadOpt == 0 && rapid.IntRange(0, 3).Draw(t, "asAnyOnVoid") == 0 {
		r.BadOpt = BadOptAsAnyVoid
	}
	return r
}

package props

import (
	"context"
	"fmt"
	"runtime"
	"testing"
	"time"

	"verif/evid"
	"verif/kit"

	"github.com/junioryono/godi/v4"
	"pgregory.net/rapid"
)

// builtinOf returns the expected built-in value for scope tag s.
func (x *run) builtinOf(tag int, b int, root godi.Scope) any {
	var sc godi.Scope
	if tag == 0 {
		sc = root
	} else {
		sc = x.R.Scopes[tag].S
	}
	switch b {
	case 1:
		return sc.Context()
	case 2:
		return sc
	default:
		return x.R.P
	}
}

func (x *run) checkC18(root godi.Scope) *Failure {
	bname := []string{"", "context", "scope", "provider"}
	// a parameter object taken by pointer is the service's own: it still holds what it was given
	if st := x.W.StaleArgs(); len(st) > 0 {
		return fail("C18", "injected", "parameter-object-changed-later", "%s", st[0])
	}
	// injected built-ins
	for _, inv := range x.W.AllInvs() {
		reg := x.M.Regs[inv.Reg]
		for ai, a := range inv.Args {
			if a.Dep.Builtin == 0 {
				continue
			}
			via := "param"
			if reg.UseIn {
				via = "in-field"
			}
			if a.Dep.Key != "" {
				// a keyed request for a reserved type is not the built-in; nothing can be registered for it
				if a.Present {
					return fail("C18", "keyed-builtin", bname[a.Dep.Builtin], "arg %d of r%d: a name-tagged %s field received %v", ai, inv.Reg, bname[a.Dep.Builtin], a.Raw)
				}
				continue
			}
			tag := inv.ScopeTag
			if reg.Life == kit.Singleton {
				tag = 0
			}
			if rec := x.R.Scopes[tag]; rec == nil || (tag != 0 && rec.S == nil) {
				continue // scope creation failed: nothing to compare with
			}
			want := x.builtinOf(tag, a.Dep.Builtin, root)
			if !a.Present || a.Raw != want {
				return fail("C18", "injected", fmt.Sprintf("%s/%s/%s", bname[a.Dep.Builtin], lifeName(reg.Life), via), "r%d (%s) constructed for scope s%d received %s %v, want that scope's own (%v)", inv.Reg, lifeName(reg.Life), tag, bname[a.Dep.Builtin], a.Raw, want)
			}
		}
	}
	return nil
}

func TestC18Builtins(t *testing.T) {
	col := evid.New("C18", "scope-trees", "configurations whose constructors (all lifetimes, plain parameters and parameter-object fields, incl. optional name-tagged fields of the reserved types) take context.Context / Scope / Provider, run over scope trees of depth<=4 created with nil, Background, cancellable and value-carrying contexts; oracle: injected and directly resolved built-ins are the issuing scope's own context, that very scope and the built provider (root scope for singletons); scope contexts carry the caller's values (inherited through nil), observe the caller's cancellation, and FromContext on them and on derived contexts returns that scope; non-trivial = depth>=2 or parameter-object injection")
	defer col.Flush()
	rapid.Check(t, func(rt *rapid.T) {
		o := kit.FullOpts()
		cfg := kit.GenConfig(rt, o)
		// sprinkle extra built-in dependencies
		for i := range cfg.Regs {
			r := &cfg.Regs[i]
			if r.Form == kit.FormInstance {
				continue
			}
			for k := rapid.IntRange(0, 2).Draw(rt, "extra"); k > 0; k-- {
				d := kit.DepSpec{Builtin: rapid.IntRange(1, 3).Draw(rt, "b")}
				switch rapid.IntRange(0, 5).Draw(rt, "named") {
				case 0:
					d.Key, d.Optional = "a", true
					r.UseIn = true
				case 1:
					// optional makes no difference for a built-in: it is always there
					d.Optional = true
					r.UseIn = true
				}
				r.Deps = append(r.Deps, d)
			}
		}
		x, err := startRun(cfg, nil)
		if err != nil {
			rt.Fatal(err)
		}
		if x.Build.Err != nil || x.Build.Panic != nil {
			col.Case(false, cfg.String(), nil, "build-failed(not judged here)")
			return
		}
		rootAny, rerr := x.R.P.Get(kit.ScopeType)
		root, _ := rootAny.(godi.Scope)
		if rerr != nil || root == nil {
			rt.Fatalf("VIOLATION C18/direct [root-scope]: provider.Get(Scope) = %v, %v", rootAny, rerr)
		}
		x.genHistory(rt, histOpts{MaxSteps: 20, MaxDepth: 4, CloseScopes: false, NoProvClose: true, CtxKinds: []int{0, 0, 1, 2, 3, 4, 5, 7, 7}})
		var f *Failure
		nt := x.Stats.MaxDepth >= 2
		for i := range cfg.Regs {
			for _, d := range cfg.Regs[i].Deps {
				if d.Builtin != 0 && cfg.Regs[i].UseIn {
					nt = true
				}
			}
		}
		f = x.checkC18(root)
		// direct resolution and context linkage on every live scope
		for _, tag := range x.R.LiveScopes() {
			if f != nil {
				break
			}
			rec := x.R.Scopes[tag]
			var sc godi.Scope = root
			if tag != 0 {
				sc = rec.S
			}
			for b := 1; b <= 3; b++ {
				got, err := sc.Get(kit.BuiltinType(b))
				if want := x.builtinOf(tag, b, root); err != nil || got != want {
					f = fail("C18", "direct", fmt.Sprintf("b%d/depth%d", b, min(rec.Depth, 2)), "Get(built-in %d) on s%d = %v, %v; want %v", b, tag, got, err, want)
				}
			}
			if sc.Provider() != x.R.P {
				f = fail("C18", "direct", "provider-method", "s%d.Provider() is not the built provider", tag)
			}
			ctx := sc.Context()
			if fs, err := godi.FromContext(ctx); err != nil || fs != sc {
				f = fail("C18", "from-context", fmt.Sprintf("own/depth%d", min(rec.Depth, 2)), "FromContext(s%d.Context()) = %v, %v; want the scope itself", tag, fs, err)
			}
			type k2 struct{}
			dctx, cancel := context.WithCancel(context.WithValue(ctx, k2{}, 1))
			if fs, err := godi.FromContext(dctx); err != nil || fs != sc {
				f = fail("C18", "from-context", "derived", "FromContext(derived from s%d) = %v, %v", tag, fs, err)
			}
			cancel()
			// a derived context that is done on its own account (a sub-operation's cancel or deadline)
			// still leads to the scope, which is open
			if fs, err := godi.FromContext(dctx); err != nil || fs != sc {
				f = fail("C18", "from-context", "derived-done", "FromContext(a cancelled context derived from the open scope s%d) = %v, %v; want the scope", tag, fs, err)
			}
			tctx, tcancel := context.WithTimeout(ctx, time.Nanosecond)
			<-tctx.Done()
			if fs, err := godi.FromContext(tctx); err != nil || fs != sc {
				f = fail("C18", "from-context", "derived-expired", "FromContext(an expired context derived from the open scope s%d) = %v, %v; want the scope", tag, fs, err)
			}
			tcancel()
			// values: own or inherited through nil contexts
			commonChecked := false
			for _, a := range x.R.Ancestors(tag) {
				ar := x.R.Scopes[a]
				inherits := a == tag
				if !inherits {
					// every scope between tag and a was created with a nil context
					inherits = true
					for _, m := range x.R.Ancestors(tag) {
						if m == a {
							break
						}
						if x.R.Scopes[m].CtxKind != 0 {
							inherits = false
						}
					}
				}
				if ar.CtxKind == 5 && inherits && ar.UserCtx != nil {
					wd, _ := ar.UserCtx.Deadline()
					if gd, ok := ctx.Deadline(); !ok || !gd.Equal(wd) {
						f = fail("C18", "ctx-deadline", fmt.Sprintf("inherit=%v", a != tag), "s%d.Context() reports deadline %v (%v), the context it descends from (given to s%d) has %v", tag, gd, ok, a, wd)
					}
				}
				// a key that several contexts of the run use: the nearest context handed in decides
				if ar.CommonVal != "" && inherits && !commonChecked {
					commonChecked = true
					if v := ctx.Value(kit.CtxCommonKey{}); v != ar.CommonVal {
						f = fail("C18", "ctx-values", fmt.Sprintf("shadowed/inherit=%v", a != tag), "s%d.Context().Value(the key every context of the run carries) = %v, want %q - the value of the context handed to CreateScope for s%d", tag, v, ar.CommonVal, a)
					}
				}
				if ar.CtxKey != nil && inherits {
					if v := ctx.Value(ar.CtxKey); v != ar.CtxVal {
						f = fail("C18", "ctx-values", fmt.Sprintf("inherit=%v", a != tag), "s%d.Context().Value(key of s%d) = %v, want %v", tag, a, v, ar.CtxVal)
					}
				}
			}
		}
		// cancellation reaches the scope context
		if f == nil {
			for _, tag := range x.R.LiveScopes() {
				rec := x.R.Scopes[tag]
				if tag == 0 || rec.Cancel == nil || !rapid.Bool().Draw(rt, "cancel") {
					continue
				}
				ctx := rec.S.Context()
				var below []context.Context
				for _, t2 := range x.R.LiveScopes() {
					if t2 == tag || t2 == 0 {
						continue
					}
					chain := x.R.Ancestors(t2)
					linked := false
					for i, a := range chain {
						if a == tag {
							linked = true
							for _, m := range chain[:i] {
								if x.R.Scopes[m].CtxKind != 0 {
									linked = false
								}
							}
						}
					}
					if linked {
						below = append(below, x.R.Scopes[t2].S.Context())
					}
				}
				// hold the close cascade inside the first instance Close() it reaches: cancellation must reach the
				// contexts of nil-context descendants through the context chain itself, not only through the cascade
				pk := kit.NewParker(func(gp kit.GatePoint) bool { return gp.Kind == kit.GateCloseEnter })
				x.W.SetGate(pk.Gate)
				x.R.CancelScope(tag)
				kit.WaitOrTimeout(pk.Parked(), 10*time.Millisecond)
				for _, bc := range below {
					if pk.WasHit() && !kit.WaitOrTimeout(bc.Done(), time.Second) {
						f = fail("C18", "ctx-cancel", "nil-child-direct", "while the close cascade of s%d is held inside an instance's Close(), the context of a child created with a nil context is still not cancelled 1 s after the caller's cancel", tag)
					}
				}
				pk.Release()
				x.W.SetGate(nil)
				if !kit.WaitOrTimeout(ctx.Done(), 5*time.Second) {
					f = fail("C18", "ctx-cancel", "own", "the caller's context of s%d was cancelled but s%d.Context() is not done after 5 s", tag, tag)
				} else if rec.Cause != nil && context.Cause(ctx) != rec.Cause {
					f = fail("C18", "ctx-cancel", "cause", "the context handed to CreateScope for s%d was cancelled with cause %q; context.Cause(s%d.Context()) = %v", tag, rec.Cause, tag, context.Cause(ctx))
				}
				for _, bc := range below {
					if !kit.WaitOrTimeout(bc.Done(), 5*time.Second) {
						f = fail("C18", "ctx-cancel", "nil-child", "a child created with a nil context is not cancelled with its parent s%d after 5 s", tag)
					}
				}
				nt = true
				break
			}
		}
		canon := x.describe()
		x.R.CloseProvider()
		if f != nil && isKnown(f) {
			col.Excluded()
			return
		}
		col.Case(nt, canon, canon, configLabels(cfg)...)
		if f != nil {
			rt.Fatalf("VIOLATION %s\n%s", f, canon)
		}
	})
}

// ---- reserved types cannot be registered ----

type myCtx struct{ context.Context }
type outCtx struct {
	godi.Out
	A *kit.N0
	C context.Context
}
type outScope struct {
	godi.Out
	S godi.Scope `name:"x"`
}
type outProv struct {
	godi.Out
	P godi.Provider `group:"g"`
}

type reservedAttempt struct {
	name string
	svc  any
	opts []godi.AddOption
}

func reservedAttempts() []reservedAttempt {
	return []reservedAttempt{
		{"ctor-ctx", func() context.Context { return context.Background() }, nil},
		{"ctor-scope", func() godi.Scope { return nil }, nil},
		{"ctor-provider", func() (godi.Provider, error) { return nil, nil }, nil},
		{"ctor-ctx-named", func() context.Context { return context.Background() }, []godi.AddOption{godi.Name("x")}},
		{"ctor-ctx-grouped", func() context.Context { return context.Background() }, []godi.AddOption{godi.Group("g")}},
		{"as-ctx", func() *myCtx { return &myCtx{context.Background()} }, []godi.AddOption{godi.As[context.Context]()}},
		{"instance-as-ctx", &myCtx{context.Background()}, []godi.AddOption{godi.As[context.Context]()}},
		{"as-ctx-and-other", func() *myCtx { return &myCtx{context.Background()} }, []godi.AddOption{godi.As[interface{ Done() <-chan struct{} }](), godi.As[context.Context]()}},
		{"multi-second-scope", func() (*kit.N0, godi.Scope) { return &kit.N0{}, nil }, nil},
		{"multi-third-provider", func() (*kit.N0, *kit.N1, godi.Provider, error) { return &kit.N0{}, &kit.N1{}, nil, nil }, nil},
		{"multi-first-ctx", func() (context.Context, *kit.N0) { return context.Background(), &kit.N0{} }, nil},
		{"out-field-ctx", func() outCtx { return outCtx{} }, nil},
		{"out-field-scope-named", func() outScope { return outScope{} }, nil},
		{"out-field-provider-grouped", func() (outProv, error) { return outProv{}, nil }, nil},
	}
}

func TestC18Reserved(t *testing.T) {
	col := evid.New("C18", "reserved-registration", "every attempt to register context.Context / Scope / Provider - as constructor result, with Name/Group, through As (alone or with another alias), for instance values, as 2nd/3rd result of a multi-return constructor, as (tagged) result-object field - x three lifetimes x direct/module registration, issued at a random position of a collection that already holds generated registrations; oracle: rejected with an error, no panic, collection queries unchanged, and the collection still builds/resolves as before; non-trivial = a non-plain attempt (alias, secondary output, result-object field, tagged)")
	defer col.Flush()
	attempts := reservedAttempts()
	rapid.Check(t, func(rt *rapid.T) {
		cfg := kit.GenConfig(rt, kit.FullOpts())
		w, err := kit.NewWorld(cfg)
		if err != nil {
			rt.Fatal(err)
		}
		coll := godi.NewCollection()
		pos := rapid.IntRange(0, len(cfg.Regs)).Draw(rt, "pos")
		at := rapid.SampledFrom(attempts).Draw(rt, "attempt")
		life := rapid.IntRange(0, 2).Draw(rt, "life")
		viaModule := rapid.Bool().Draw(rt, "module")
		var f *Failure
		for i := 0; i <= len(cfg.Regs) && f == nil; i++ {
			if i == pos {
				before := sliceShape(coll)
				var aerr error
				var pan any
				func() {
					defer func() { pan = recover() }()
					switch {
					case viaModule:
						mo := []godi.ModuleOption{godi.AddSingleton(at.svc, at.opts...), godi.AddScoped(at.svc, at.opts...), godi.AddTransient(at.svc, at.opts...)}[life]
						aerr = coll.AddModules(godi.NewModule("m", mo))
					case life == 0:
						aerr = coll.AddSingleton(at.svc, at.opts...)
					case life == 1:
						aerr = coll.AddScoped(at.svc, at.opts...)
					default:
						aerr = coll.AddTransient(at.svc, at.opts...)
					}
				}()
				switch {
				case pan != nil:
					f = fail("C18", "reserved", "panic/"+at.name, "registering %s panicked: %v", at.name, pan)
				case aerr == nil:
					f = fail("C18", "reserved", "accepted/"+at.name, "registering a reserved type (%s, %s) was accepted", at.name, lifeName(life))
				case sliceShape(coll) != before:
					f = fail("C18", "reserved", "changed/"+at.name, "rejected registration %s changed the collection: %s -> %s", at.name, before, sliceShape(coll))
				}
				for _, rtp := range []any{kit.CtxType, kit.ScopeType, kit.ProviderType} {
					_ = rtp
				}
				if f == nil && (coll.Contains(kit.CtxType) || coll.Contains(kit.ScopeType) || coll.Contains(kit.ProviderType) ||
					coll.ContainsKeyed(kit.CtxType, "x") || coll.ContainsKeyed(kit.ScopeType, "x")) {
					f = fail("C18", "reserved", "contains/"+at.name, "collection claims to contain a reserved type after rejected %s", at.name)
				}
			}
			if i < len(cfg.Regs) {
				if err := w.Register(coll, &cfg.Regs[i]); err != nil {
					rt.Fatalf("registration of generated config failed: %v", err)
				}
			}
		}
		if f == nil {
			r := kit.NewRunner(w)
			r.Coll = coll
			if o := r.BuildExisting(); o.Err != nil || o.Panic != nil {
				f = fail("C18", "reserved", "build-after/"+at.name, "collection no longer builds after the rejected registration: %v %v", firstLine(o.Err), o.Panic)
			} else {
				r.CloseProvider()
			}
		}
		nt := at.name != "ctor-ctx" && at.name != "ctor-scope" && at.name != "ctor-provider"
		canon := fmt.Sprintf("%s/%s/module=%v at %d of %s", at.name, lifeName(life), viaModule, pos, cfg)
		if f != nil && isKnown(f) {
			col.Excluded()
			return
		}
		col.Case(nt, fmt.Sprintf("%s/%d/%v", at.name, life, viaModule), canon, "attempt:"+at.name)
		if f != nil {
			rt.Fatalf("VIOLATION %s\n%s", f, canon)
		}
	})
}

// TestC18ContextKeepsScope: FromContext on a scope's context - or on anything derived from it -
// returns that scope for as long as somebody holds the context: also when the context is all
// that is left of the scope (the handle dropped, the scope closed and forgotten by its owner) and
// the garbage collector has run.
func TestC18ContextKeepsScope(t *testing.T) {
	col := evid.New("C18", "context-outlives-handle", "a provider built from a generated configuration; a chain of 1-3 nested scopes created with nil / Background / cancellable contexts; of every scope only the context (and one derived from it) and the ID are kept, the scope handles are dropped, a generated subset of the scopes is closed first; runtime.GC runs twice; oracle: FromContext on each kept context and on the derived one returns a scope with the ID of the scope the context came from; the same for the root scope's context obtained through a resolution of context.Context on the provider; non-trivial = a closed scope's context was asked")
	defer col.Flush()
	rapid.Check(t, func(rt *rapid.T) {
		cfg := kit.GenConfig(rt, kit.FullOpts())
		w, err := kit.NewWorld(cfg)
		if err != nil {
			rt.Fatal(err)
		}
		coll := godi.NewCollection()
		if err := w.RegisterAll(coll, nil); err != nil {
			rt.Fatalf("registration failed: %v", err)
		}
		p, err := coll.Build()
		if err != nil {
			col.Case(false, cfg.String(), nil, "build-failed(not judged here)")
			return
		}
		defer p.Close()
		type kept struct {
			id      string
			ctx     context.Context
			derived context.Context
			closed  bool
		}
		var keep []kept
		var allCancels []context.CancelFunc
		defer func() {
			for _, c := range allCancels {
				c()
			}
		}()
		nt := false
		func() {
			var parent godi.Provider = p
			var cancels []context.CancelFunc
			defer func() { allCancels = append(allCancels, cancels...) }() // nobody cancels before the end of the case
			var scopes []godi.Scope
			for i, n := 0, rapid.IntRange(1, 3).Draw(rt, "depth"); i < n; i++ {
				var ctx context.Context
				switch rapid.IntRange(0, 2).Draw(rt, "ctxKind") {
				case 1:
					ctx = context.Background()
				case 2:
					c, cancel := context.WithCancel(context.WithValue(context.Background(), kit.CtxCommonKey{}, i))
					ctx = c
					cancels = append(cancels, cancel)
				}
				s, err := parent.CreateScope(ctx)
				if err != nil {
					return
				}
				scopes = append(scopes, s)
				d, dcancel := context.WithTimeout(context.WithValue(s.Context(), kit.CtxCommonKey{}, "derived"), time.Hour)
				cancels = append(cancels, dcancel)
				keep = append(keep, kept{id: s.ID(), ctx: s.Context(), derived: d})
				parent = s
			}
			// close some, innermost first
			for i := len(scopes) - 1; i >= 0; i-- {
				if rapid.Bool().Draw(rt, "close") {
					_ = scopes[i].Close()
					keep[i].closed = true
					for j := i + 1; j < len(keep); j++ {
						keep[j].closed = true
					}
					nt = true
				}
			}
		}()
		if v, err := p.Get(kit.CtxType); err == nil {
			if rs, err2 := p.Get(kit.ScopeType); err2 == nil {
				keep = append(keep, kept{id: rs.(godi.Scope).ID(), ctx: v.(context.Context), derived: context.WithValue(v.(context.Context), kit.CtxCommonKey{}, "derived")})
			}
		}
		time.Sleep(2 * time.Millisecond) // (watcher goroutines of the closed scopes end)
		runtime.GC()
		runtime.GC()
		canon := fmt.Sprintf("%s || %d contexts kept", cfg, len(keep))
		col.Case(nt, canon, canon)
		for i, k := range keep {
			for which, c := range map[string]context.Context{"the scope's context": k.ctx, "a context derived from the scope's context": k.derived} {
				s, err := godi.FromContext(c)
				if err != nil || s == nil {
					rt.Fatalf("VIOLATION C18/from-context [context-outlives-handle/closed=%v]: FromContext(%s) of scope %s (#%d of the chain; closed=%v), whose handle was dropped, = %v, %v after a GC\n%s", k.closed, which, k.id, i, k.closed, s, err, canon)
				}
				if s.ID() != k.id {
					rt.Fatalf("VIOLATION C18/from-context [context-outlives-handle/other-scope]: FromContext(%s) of scope %s yields scope %s\n%s", which, k.id, s.ID(), canon)
				}
			}
		}
	})
}

package props

import (
	"context"
	"fmt"
	"io"
	"reflect"
	"strings"
	"sync/atomic"
	"testing"

	"verif/evid"

	"github.com/junioryono/godi/v4"
	"pgregory.net/rapid"
)

// Disposables of the other reference kinds. An instance is not only what a
// pointer points to: a map and a channel are references too, a type defined on
// one of them can have a Close method, and one such instance handed back as
// two outputs of a constructor is still one instance.

type rkCount struct {
	id     int
	closed atomic.Int64
}

type rkTagger interface {
	io.Closer
	Tag() int
}

// rkPtr: the ordinary case, for comparison.
type rkPtr struct{ c *rkCount }

func (p *rkPtr) Close() error { p.c.closed.Add(1); return nil }
func (p *rkPtr) Tag() int     { return p.c.id }

// rkMap: a connection pool keyed by address, say.
type rkMap map[string]*rkCount

func (m rkMap) Close() error { m["self"].closed.Add(1); return nil }
func (m rkMap) Tag() int     { return m["self"].id }

// rkChan: a work queue that is closed by draining it.
type rkChan chan *rkCount

func (c rkChan) Close() error { x := <-c; x.closed.Add(1); c <- x; return nil }
func (c rkChan) Tag() int     { x := <-c; c <- x; return x.id }

// rkFunc: a release function. Two release functions made by one function literal share their
// code and are two instances all the same. (One func or slice value handed back twice has no
// identity godi could go by; that shape is not generated for these two kinds.)
type rkFunc func() *rkCount

func (f rkFunc) Close() error { f().closed.Add(1); return nil }
func (f rkFunc) Tag() int     { return f().id }

// rkSlice: a batch of handles closed together.
type rkSlice []*rkCount

func (s rkSlice) Close() error { s[0].closed.Add(1); return nil }
func (s rkSlice) Tag() int     { return s[0].id }

var rkKinds = []struct {
	name   string
	typ    reflect.Type
	mk     func(c *rkCount) reflect.Value
	noSame bool
}{
	{name: "func", typ: reflect.TypeOf(rkFunc(nil)), noSame: true, mk: func(c *rkCount) reflect.Value {
		return reflect.ValueOf(rkFunc(func() *rkCount { return c }))
	}},
	{name: "slice", typ: reflect.TypeOf(rkSlice(nil)), noSame: true, mk: func(c *rkCount) reflect.Value {
		return reflect.ValueOf(rkSlice{c})
	}},
	{name: "pointer", typ: reflect.TypeOf(&rkPtr{}), mk: func(c *rkCount) reflect.Value { return reflect.ValueOf(&rkPtr{c}) }},
	{name: "map", typ: reflect.TypeOf(rkMap{}), mk: func(c *rkCount) reflect.Value { return reflect.ValueOf(rkMap{"self": c}) }},
	{name: "chan", typ: reflect.TypeOf(rkChan(nil)), mk: func(c *rkCount) reflect.Value {
		ch := make(rkChan, 1)
		ch <- c
		return reflect.ValueOf(ch)
	}},
}

var (
	rkCloserType = reflect.TypeOf((*io.Closer)(nil)).Elem()
	rkTaggerType = reflect.TypeOf((*rkTagger)(nil)).Elem()
)

func TestC10ReferenceKinds(t *testing.T) {
	col := evid.New("C10", "reference-kinds", "1-3 result-object constructors (any lifetime) whose instances are of pointer, map, channel, func or slice kind with a Close method (func instances of one constructor are closures of one literal); each constructor fills 2-3 named result fields (declared as the concrete type, io.Closer or a wider interface), every field either with the instance of the first field again (pointer, map, channel) or with a fresh instance; resolved field by field a generated number of times from the provider and from scopes, then scopes and provider are closed; oracle: every instance any constructor made has received exactly one Close call in the end; non-trivial = an instance of map or channel kind was handed back under two fields, or one invocation made several func or slice instances")
	defer col.Flush()
	rapid.Check(t, func(rt *rapid.T) {
		var made []*rkCount
		type field struct {
			typ  reflect.Type
			name string
			same bool
		}
		type reg struct {
			kind, life int
			fields     []field
		}
		coll := godi.NewCollection()
		var regs []reg
		var desc []string
		nt := false
		for i, n := 0, rapid.IntRange(1, 3).Draw(rt, "nregs"); i < n; i++ {
			r := reg{kind: rapid.IntRange(0, len(rkKinds)-1).Draw(rt, "kind"), life: rapid.IntRange(0, 2).Draw(rt, "life")}
			k := rkKinds[r.kind]
			sf := []reflect.StructField{{Name: "Out", Type: reflect.TypeOf(godi.Out{}), Anonymous: true}}
			var fd []string
			for j, m := 0, rapid.IntRange(2, 3).Draw(rt, "nfields"); j < m; j++ {
				f := field{typ: rapid.SampledFrom([]reflect.Type{k.typ, rkCloserType, rkTaggerType}).Draw(rt, "ftype"), name: fmt.Sprintf("r%df%d", i, j), same: j > 0 && !k.noSame && rapid.IntRange(0, 2).Draw(rt, "same") != 0}
				r.fields = append(r.fields, f)
				sf = append(sf, reflect.StructField{Name: fmt.Sprintf("F%d", j), Type: f.typ, Tag: reflect.StructTag(`name:"` + f.name + `"`)})
				fd = append(fd, fmt.Sprintf("%s:%v same=%v", f.name, f.typ, f.same))
				if f.same && k.name != "pointer" || j > 0 && k.noSame {
					nt = true // a reference of another kind than pointer handed back twice, or several func/slice instances from one invocation
				}
			}
			ot := reflect.StructOf(sf)
			rr := r
			ctor := reflect.MakeFunc(reflect.FuncOf(nil, []reflect.Type{ot}, false), func([]reflect.Value) []reflect.Value {
				out := reflect.New(ot).Elem()
				var first reflect.Value
				for j, f := range rr.fields {
					var v reflect.Value
					if f.same {
						v = first
					} else {
						c := &rkCount{id: len(made)}
						made = append(made, c)
						v = k.mk(c)
					}
					if j == 0 {
						first = v
					}
					out.Field(j + 1).Set(v)
				}
				return []reflect.Value{out}
			}).Interface()
			var err error
			switch r.life {
			case 0:
				err = coll.AddSingleton(ctor)
			case 1:
				err = coll.AddScoped(ctor)
			default:
				err = coll.AddTransient(ctor)
			}
			if err != nil {
				rt.Fatalf("registration failed: %v", err)
			}
			regs = append(regs, r)
			desc = append(desc, fmt.Sprintf("r%d:%s/%s{%s}", i, lifeName(r.life), k.name, strings.Join(fd, "; ")))
		}
		p, err := coll.Build()
		if err != nil {
			rt.Fatalf("VIOLATION C10/reference-kinds [build]: Build failed: %v\n%s", err, strings.Join(desc, " "))
		}
		targets := []godi.Provider{p}
		var scopes []godi.Scope
		for i, n := 0, rapid.IntRange(0, 2).Draw(rt, "nscopes"); i < n; i++ {
			s, err := p.CreateScope(context.Background())
			if err != nil {
				rt.Fatalf("CreateScope: %v", err)
			}
			targets = append(targets, s)
			scopes = append(scopes, s)
		}
		var steps []string
		for i := rapid.IntRange(1, 8).Draw(rt, "ngets"); i > 0; i-- {
			ti := rapid.IntRange(0, len(targets)-1).Draw(rt, "target")
			r := rapid.SampledFrom(regs).Draw(rt, "reg")
			f := rapid.SampledFrom(r.fields).Draw(rt, "field")
			if _, err := targets[ti].GetKeyed(f.typ, f.name); err != nil {
				rt.Fatalf("VIOLATION C10/reference-kinds [resolve]: GetKeyed(%v,%s): %v\n%s", f.typ, f.name, err, strings.Join(desc, " "))
			}
			steps = append(steps, fmt.Sprintf("get(t%d,%s)", ti, f.name))
		}
		for i := len(scopes) - 1; i >= 0; i-- {
			if rapid.Bool().Draw(rt, "closeExplicitly") {
				if err := scopes[i].Close(); err != nil {
					rt.Fatalf("VIOLATION C10/reference-kinds [close]: scope Close failed: %v", err)
				}
			}
		}
		if err := p.Close(); err != nil {
			rt.Fatalf("VIOLATION C10/reference-kinds [close]: provider Close failed: %v", err)
		}
		canon := strings.Join(desc, " ") + " | scopes=" + fmt.Sprint(len(scopes)) + " | " + strings.Join(steps, " ")
		col.Case(nt, canon, canon)
		for _, c := range made {
			if n := c.closed.Load(); n != 1 {
				rt.Fatalf("VIOLATION C10/exactly-once [reference-kinds]: instance #%d received %d Close calls after everything was closed, want 1\n%s", c.id, n, canon)
			}
		}
	})
}

// One address, two instances: a pointer to a struct and a pointer to that struct's first field are
// equal as addresses and are two services with a Close method each.
type rkPump struct{ c *rkCount }

func (p *rkPump) Close() error { p.c.closed.Add(1); return nil }

type rkEngine struct {
	Pump rkPump // first field: &engine.Pump == &engine as addresses
	c    *rkCount
}

func (e *rkEngine) Close() error { e.c.closed.Add(1); return nil }

type rkEngineOut struct {
	godi.Out
	Engine *rkEngine
	Pump   *rkPump
}

func TestC10FirstField(t *testing.T) {
	col := evid.New("C10", "object-and-its-first-field", "a constructor (multi-return or result object, any lifetime) that hands back an object and, as a further output, a pointer to that object's first field - one address, two instances, each with a Close method; resolved a generated number of times from the provider and from scopes in a generated order of the two identities, then everything is closed; oracle: every engine and every pump any constructor made has received exactly one Close call; non-trivial = made in a scope")
	defer col.Flush()
	rapid.Check(t, func(rt *rapid.T) {
		var made []*rkCount
		mk := func() *rkEngine {
			e := &rkEngine{c: &rkCount{id: len(made)}}
			e.Pump.c = &rkCount{id: len(made) + 1}
			made = append(made, e.c, e.Pump.c)
			return e
		}
		coll := godi.NewCollection()
		life := rapid.IntRange(0, 2).Draw(rt, "life")
		multi := rapid.Bool().Draw(rt, "multiReturn")
		pumpFirst := rapid.Bool().Draw(rt, "pumpFirst")
		var ctor any
		switch {
		case multi && pumpFirst:
			ctor = func() (*rkPump, *rkEngine) { e := mk(); return &e.Pump, e }
		case multi:
			ctor = func() (*rkEngine, *rkPump) { e := mk(); return e, &e.Pump }
		default:
			ctor = func() rkEngineOut { e := mk(); return rkEngineOut{Engine: e, Pump: &e.Pump} }
		}
		var err error
		switch life {
		case 0:
			err = coll.AddSingleton(ctor)
		case 1:
			err = coll.AddScoped(ctor)
		default:
			err = coll.AddTransient(ctor)
		}
		if err != nil {
			rt.Fatalf("registration failed: %v", err)
		}
		p, err := coll.Build()
		if err != nil {
			rt.Fatalf("VIOLATION C10/first-field [build]: %v", err)
		}
		targets := []godi.Provider{p}
		for i, n := 0, rapid.IntRange(0, 2).Draw(rt, "nscopes"); i < n; i++ {
			s, err := p.CreateScope(context.Background())
			if err != nil {
				rt.Fatalf("CreateScope: %v", err)
			}
			targets = append(targets, s)
		}
		canon := fmt.Sprintf("life=%s multi=%v pumpFirst=%v scopes=%d", lifeName(life), multi, pumpFirst, len(targets)-1)
		inScope := false
		for i := rapid.IntRange(1, 6).Draw(rt, "ngets"); i > 0; i-- {
			ti := rapid.IntRange(0, len(targets)-1).Draw(rt, "target")
			var err error
			if rapid.Bool().Draw(rt, "getPump") {
				_, err = godi.Resolve[*rkPump](targets[ti])
				canon += fmt.Sprintf(" pump(t%d)", ti)
			} else {
				_, err = godi.Resolve[*rkEngine](targets[ti])
				canon += fmt.Sprintf(" engine(t%d)", ti)
			}
			if err != nil {
				rt.Fatalf("VIOLATION C10/first-field [resolve]: %v\n%s", err, canon)
			}
			if ti > 0 && life != 0 {
				inScope = true
			}
		}
		for _, tg := range targets[1:] {
			if rapid.Bool().Draw(rt, "closeExplicitly") {
				_ = tg.Close()
			}
		}
		if err := p.Close(); err != nil {
			rt.Fatalf("VIOLATION C10/first-field [close]: %v\n%s", err, canon)
		}
		col.Case(inScope, canon, canon)
		for i, c := range made {
			if n := c.closed.Load(); n != 1 {
				what := "engine"
				if i%2 == 1 {
					what = "pump (the engine's first field)"
				}
				rt.Fatalf("VIOLATION C10/exactly-once [first-field]: %s #%d received %d Close calls after everything was closed, want 1\n%s", what, i/2, n, canon)
			}
		}
	})
}

package props

import (
	"encoding/json"
	"fmt"
	"os"
	"sort"
	"strings"
	"sync"
	"sync/atomic"
	"time"

	"verif/kit"

	"pgregory.net/rapid"
)

// Failure is a structured oracle failure: the signature (oracle + features)
// is what known_findings.json lists; msg is for humans.
type Failure struct {
	Prop   string
	Oracle string
	Sig    string
	Msg    string
	Inv    *kit.Inv // the constructor invocation the failure is about, if any
}

func (f *Failure) String() string {
	return fmt.Sprintf("%s/%s [%s]: %s", f.Prop, f.Oracle, f.Sig, f.Msg)
}

func fail(prop, oracle, sig, format string, a ...any) *Failure {
	return &Failure{Prop: prop, Oracle: oracle, Sig: sig, Msg: fmt.Sprintf(format, a...)}
}

// ---- known findings ----

type knownFinding struct {
	Property string `json:"property"`
	Oracle   string `json:"oracle"`
	Sig      string `json:"sig"` // prefix match on Failure.Sig
	What     string `json:"what"`
	Repro    string `json:"repro"` // name of a repro function in the harness
}

var (
	knownOnce sync.Once
	knownList []knownFinding
)

func loadKnown() []knownFinding {
	knownOnce.Do(func() {
		p := os.Getenv("VERIF_KNOWN")
		if p == "" {
			p = "/verif/known_findings.json"
		}
		b, err := os.ReadFile(p)
		if err != nil {
			return
		}
		var doc struct {
			Findings []knownFinding `json:"findings"`
		}
		if json.Unmarshal(b, &doc) == nil {
			knownList = doc.Findings
		}
	})
	return knownList
}

func isKnown(f *Failure) bool {
	for _, k := range loadKnown() {
		if k.Property == f.Prop && k.Oracle == f.Oracle && strings.HasPrefix(f.Sig, k.Sig) {
			return true
		}
	}
	return false
}

// ---- history execution ----

type histOpts struct {
	MaxSteps      int
	MaxDepth      int
	Concurrent    bool // allow concurrent resolve batches
	Unregistered  bool // also resolve identities nobody registered
	CloseScopes   bool // allow explicit scope closes mid-history
	NoProvClose   bool
	ResolveWeight int
	CtxKinds      []int
	DeadOps       bool // also issue operations on scopes that were closed, and after provider close
	Cancels       bool // cancel the user context of scopes
	RepeatClose   bool // close scopes that are already closed / concurrently
	NoCollEdits   bool // do not change the collection after Build (default: now and then)
	NoRebuild     bool // do not build the collection a second time while the first provider is in use
}

type histStats struct {
	Creates, Resolves, Closes, Batches int
	MaxDepth                           int
	Steps                              []string
}

// run is everything the oracles look at.
type run struct {
	Cfg    *kit.Config
	W      *kit.World
	M      *kit.Model
	R      *kit.Runner
	Build  *kit.Obs
	Stats  histStats
	Script []Op
	// Concurrent: the history contains operations that run concurrently with others (controlled
	// schedules, concurrent Close batches, context cancellation handled by watcher goroutines)
	Concurrent bool
	// EditAfterBuild: resolveEverything first adds a member to every group of the collection the
	// provider was built from
	EditAfterBuild bool
}

func startRun(cfg *kit.Config, order []int) (*run, error) {
	return startRunWith(cfg, order, nil)
}

// startRunWith lets the caller prepare the world (fault plan, gates) before Build.
func startRunWith(cfg *kit.Config, order []int, prep func(*kit.World)) (*run, error) {
	w, err := kit.NewWorld(cfg)
	if err != nil {
		return nil, err
	}
	if prep != nil {
		prep(w)
	}
	r := kit.NewRunner(w)
	x := &run{Cfg: cfg, W: w, M: w.M, R: r}
	x.Build = r.Build(order)
	return x, nil
}

// noVoid drops named initializers from an identity pool. Programs in which a
// resolution can overlap the Close of its scope do not resolve them: like any
// scoped construction that overlaps a Close the initializer may then run a
// second time for nothing (the result is discarded), which the run-once oracle
// would have to guess at.
func noVoid(ids []kit.Ident) []kit.Ident {
	out := ids[:0:0]
	for _, id := range ids {
		if id.T != kit.TVoid {
			out = append(out, id)
		}
	}
	return out
}

func identPool(m *kit.Model, unregistered bool) []kit.Ident {
	ids := m.AllIdents()
	// identities that were registered and removed again before Build are part of
	// every pool: resolving them must fail like any other unregistered identity
	for _, id := range m.Order {
		r := m.Regs[id]
		for i, p := range r.AllProvides() {
			if r.Dropped[i] {
				if _, ok := m.Owner(p.Ident); !ok {
					ids = append(ids, p.Ident)
				}
			}
		}
	}
	if unregistered {
		ids = append(ids,
			kit.Ident{T: kit.NeverType},
			kit.Ident{T: 0, Key: kit.NeverKey},
			kit.Ident{T: kit.TI0, Key: kit.NeverKey},
			kit.Ident{T: 1, Group: kit.NeverGroup},
		)
		// identities that differ from a registered one in exactly one component
		for _, id := range m.AllIdents() {
			if id.Group == "" {
				alt := id
				if alt.Key == "" {
					alt.Key = "a"
				} else {
					alt.Key = ""
				}
				if _, ok := m.Owner(alt); !ok {
					ids = append(ids, alt)
				}
			}
		}
	}
	return ids
}

// Op is one scripted operation of a history.
type Op struct {
	Kind  string         // create, get, close, cancel, pclose, batch, closeN
	Scope int            // target scope tag (create: parent)
	Ctx   int            // create: context kind
	Ident kit.Ident      // get
	Jobs  [][]batchJob   // batch: per goroutine
	N     int            // closeN: number of concurrent Close calls
	Edits []kit.CollEdit // cedit: changes to the collection the provider was built from
}

type batchJob struct {
	Tag int
	ID  kit.Ident
}

func (o Op) String() string {
	switch o.Kind {
	case "create":
		return fmt.Sprintf("create(<-s%d,ctx%d)", o.Scope, o.Ctx)
	case "get":
		return fmt.Sprintf("get(s%d,%s)", o.Scope, o.Ident)
	case "getk":
		return fmt.Sprintf("get(s%d,%s with a key of a defined string type)", o.Scope, o.Ident)
	case "close", "cancel":
		return fmt.Sprintf("%s(s%d)", o.Kind, o.Scope)
	case "closeN":
		return fmt.Sprintf("close x%d(s%d)", o.N, o.Scope)
	case "batch":
		return fmt.Sprintf("batch(%v)", o.Jobs)
	case "cedit":
		return fmt.Sprintf("collection-edit%v", o.Edits)
	}
	return o.Kind
}

// exec executes one scripted op; ops whose scope was never created are skipped
// (that happens when a script is replayed under a fault plan).
func (x *run) exec(o Op) {
	usable := func(tag int) bool {
		rec := x.R.Scopes[tag]
		return rec != nil && rec.Created && x.R.P != nil
	}
	switch o.Kind {
	case "create":
		if !usable(o.Scope) {
			// keep tag numbering aligned with the fault-free run
			x.R.SkipTag()
			return
		}
		rec, _ := x.R.CreateScope(o.Scope, o.Ctx)
		x.Stats.Creates++
		if rec.Depth > x.Stats.MaxDepth {
			x.Stats.MaxDepth = rec.Depth
		}
	case "get":
		if usable(o.Scope) {
			x.R.Resolve(o.Scope, o.Ident)
			x.Stats.Resolves++
		}
	case "getk":
		if usable(o.Scope) {
			x.R.ResolveAliasKey(o.Scope, o.Ident)
		}
	case "close":
		if o.Scope != 0 && usable(o.Scope) {
			x.R.CloseScope(o.Scope)
			x.Stats.Closes++
		}
	case "closeN":
		if o.Scope != 0 && usable(o.Scope) {
			// spin barrier: all callers enter Close within nanoseconds of each other
			var wg sync.WaitGroup
			var arrived atomic.Int32
			for i := 0; i < o.N; i++ {
				wg.Add(1)
				go func() {
					defer wg.Done()
					arrived.Add(1)
					for arrived.Load() < int32(o.N) {
					}
					x.R.CloseScope(o.Scope)
				}()
			}
			wg.Wait()
			x.Stats.Closes++
		}
	case "cancel":
		if o.Scope != 0 && usable(o.Scope) {
			x.R.CancelScope(o.Scope)
		}
	case "pclose":
		if x.R.P != nil {
			x.R.CloseProvider()
		}
	case "cedit":
		x.R.EditCollection(o.Edits)
	case "rebuild":
		if x.R.P != nil && !x.R.PClosed {
			x.R.Rebuild()
		}
	case "idle":
		// nothing: gives goroutines godi has started (context watchers) time to run while another
		// thread is parked; only decides which interleaving is realised, never a verdict
		time.Sleep(15 * time.Millisecond)
	case "batch":
		var wg sync.WaitGroup
		start := make(chan struct{})
		for _, js := range o.Jobs {
			wg.Add(1)
			go func(js []batchJob) {
				defer wg.Done()
				<-start
				for _, j := range js {
					if usable(j.Tag) {
						x.R.Resolve(j.Tag, j.ID)
					}
				}
			}(js)
		}
		close(start)
		wg.Wait()
		x.Stats.Batches++
	}
	x.Stats.Steps = append(x.Stats.Steps, o.String())
	x.Script = append(x.Script, o)
}

// genHistory drives a random history on a built provider, recording it as a
// script. It always ends by closing the provider unless opts.NoProvClose.
func (x *run) genHistory(rt *rapid.T, o histOpts) {
	ids := identPool(x.M, o.Unregistered)
	steps := rapid.IntRange(1, o.MaxSteps).Draw(rt, "steps")
	rw := o.ResolveWeight
	if rw == 0 {
		rw = 5
	}
	for i := 0; i < steps; i++ {
		live := x.R.LiveScopes()
		if len(live) == 0 {
			break
		}
		if o.CloseScopes && rapid.IntRange(0, 11).Draw(rt, "churn") == 0 {
			x.genChurn(rt, o, ids)
			continue
		}
		if !o.NoRebuild && !o.NoCollEdits && rapid.IntRange(0, 15).Draw(rt, "rebuild") == 0 {
			x.exec(Op{Kind: "rebuild"})
			continue
		}
		if !o.NoCollEdits && rapid.IntRange(0, 13).Draw(rt, "cedit") == 0 {
			x.exec(Op{Kind: "cedit", Edits: genCollEdits(rt, x.M)})
			continue
		}
		k := rapid.IntRange(0, rw+4).Draw(rt, "op")
		switch {
		case k == 0 || k == 1: // create scope
			var cands []int
			for _, t := range live {
				if x.R.Scopes[t].Depth < o.MaxDepth {
					cands = append(cands, t)
				}
			}
			if len(cands) == 0 {
				continue
			}
			parent := rapid.SampledFrom(cands).Draw(rt, "parent")
			ck := rapid.SampledFrom(o.ctxKinds()).Draw(rt, "ctxkind")
			x.exec(Op{Kind: "create", Scope: parent, Ctx: ck})
		case k == 2 && o.CloseScopes:
			var cands []int
			for _, t := range live {
				if t != 0 {
					cands = append(cands, t)
				}
			}
			if len(cands) == 0 {
				continue
			}
			t := rapid.SampledFrom(cands).Draw(rt, "closetag")
			x.exec(Op{Kind: "close", Scope: t})
		case k == 3 && o.Concurrent:
			if len(ids) == 0 {
				continue
			}
			n := rapid.IntRange(2, 8).Draw(rt, "goroutines")
			jobs := make([][]batchJob, n)
			for g := 0; g < n; g++ {
				m := rapid.IntRange(1, 3).Draw(rt, "jobs")
				for j := 0; j < m; j++ {
					jobs[g] = append(jobs[g], batchJob{rapid.SampledFrom(live).Draw(rt, "btag"), rapid.SampledFrom(ids).Draw(rt, "bid")})
				}
			}
			x.exec(Op{Kind: "batch", Jobs: jobs})
		case k == 4 && (o.DeadOps || o.Cancels || o.RepeatClose):
			var dead, cancellable, all []int
			for _, tag := range x.R.Tags() {
				rec := x.R.Scopes[tag]
				if tag == 0 || !rec.Created {
					continue
				}
				all = append(all, tag)
				if x.R.ScopeDead(tag) {
					dead = append(dead, tag)
				} else if rec.Cancel != nil {
					cancellable = append(cancellable, tag)
				}
			}
			choice := rapid.IntRange(0, 2).Draw(rt, "deadkind")
			switch {
			case choice == 0 && o.DeadOps && len(dead) > 0:
				t := rapid.SampledFrom(dead).Draw(rt, "deadtag")
				if rapid.Bool().Draw(rt, "deadcreate") {
					x.exec(Op{Kind: "create", Scope: t, Ctx: 1})
				} else if len(ids) > 0 {
					x.exec(Op{Kind: "get", Scope: t, Ident: rapid.SampledFrom(ids).Draw(rt, "deadid")})
				}
			case choice == 1 && o.Cancels && len(cancellable) > 0:
				x.exec(Op{Kind: "cancel", Scope: rapid.SampledFrom(cancellable).Draw(rt, "canceltag")})
			case choice == 2 && o.RepeatClose && len(all) > 0:
				t := rapid.SampledFrom(all).Draw(rt, "reclosetag")
				if n := rapid.IntRange(1, 6).Draw(rt, "closers"); n == 1 {
					x.exec(Op{Kind: "close", Scope: t})
				} else {
					x.exec(Op{Kind: "closeN", Scope: t, N: n})
				}
			}
		default:
			if len(ids) == 0 {
				continue
			}
			t := rapid.SampledFrom(live).Draw(rt, "rtag")
			id := rapid.SampledFrom(ids).Draw(rt, "rid")
			if id.Key != "" && id.Group == "" && id.T != kit.TVoid && rapid.IntRange(0, 5).Draw(rt, "aliasKey") == 0 {
				// the same name as a value of another (defined string) type: not the registered identity
				x.exec(Op{Kind: "getk", Scope: t, Ident: id})
				continue
			}
			x.exec(Op{Kind: "get", Scope: t, Ident: id})
		}
	}
	if !o.NoProvClose {
		x.exec(Op{Kind: "pclose"})
	}
}

// genCollEdits draws 1-4 changes to the collection a provider was built from:
// removals of registered identities (also of one identity of a registration
// that has several), new members for existing and new groups, registrations
// under identities that are free or have just been freed. Mixed, because a
// collection keeps several tables and each kind of change touches another one.
func genCollEdits(rt *rapid.T, m *kit.Model) []kit.CollEdit {
	ids := m.AllIdents()
	var edits []kit.CollEdit
	n := rapid.IntRange(1, 4).Draw(rt, "nedits")
	for i := 0; i < n; i++ {
		var id kit.Ident
		if len(ids) > 0 && rapid.IntRange(0, 3).Draw(rt, "editKnown") > 0 {
			id = rapid.SampledFrom(ids).Draw(rt, "editIdent")
		} else {
			id = kit.Ident{T: rapid.IntRange(0, kit.NumTypes-1).Draw(rt, "editT")}
			switch rapid.IntRange(0, 2).Draw(rt, "editShape") {
			case 1:
				id.Key = rapid.SampledFrom([]string{"a", "b b", "post"}).Draw(rt, "editKey")
			case 2:
				id.Group = rapid.SampledFrom([]string{"g", "h h", "post"}).Draw(rt, "editGroup")
			}
		}
		e := kit.CollEdit{Ident: id, Life: rapid.IntRange(0, 2).Draw(rt, "editLife")}
		if id.T == kit.TVoid {
			// a named initializer function: can be removed, not stood in for
			e.Remove = true
			edits = append(edits, e)
			continue
		}
		if id.Group == "" && rapid.Bool().Draw(rt, "editRemove") {
			e.Remove = true
			edits = append(edits, e)
			if rapid.Bool().Draw(rt, "editReAdd") {
				edits = append(edits, kit.CollEdit{Ident: id, Life: e.Life})
			}
			continue
		}
		edits = append(edits, e)
	}
	return edits
}

// genChurn: siblings under one parent (a scope or the provider) are created and
// closed in a generated order - not last-in-first-out - with a resolution in
// the newcomers now and then. The tables that track scopes are edited most
// heavily by exactly this kind of traffic.
func (x *run) genChurn(rt *rapid.T, o histOpts, ids []kit.Ident) {
	live := x.R.LiveScopes()
	parent := rapid.SampledFrom(live).Draw(rt, "churnParent")
	if x.R.Scopes[parent].Depth >= o.MaxDepth {
		parent = 0
	}
	var mine []int
	n := rapid.IntRange(4, 9).Draw(rt, "churnOps")
	for j := 0; j < n; j++ {
		var open []int
		for _, t := range mine {
			if !x.R.ScopeDead(t) {
				open = append(open, t)
			}
		}
		if len(open) >= 2 && rapid.IntRange(0, 2).Draw(rt, "churnClose") == 0 {
			x.exec(Op{Kind: "close", Scope: rapid.SampledFrom(open).Draw(rt, "churnVictim")})
			continue
		}
		before := len(x.R.Tags())
		// contexts that do not derive from the parent's: nothing but the owner's tables closes them
		x.exec(Op{Kind: "create", Scope: parent, Ctx: rapid.SampledFrom([]int{1, 1, 2}).Draw(rt, "churnCtx")})
		tags := x.R.Tags()
		if len(tags) > before {
			t := tags[len(tags)-1]
			if rec := x.R.Scopes[t]; rec != nil && rec.Created {
				mine = append(mine, t)
				if len(ids) > 0 && rapid.IntRange(0, 1).Draw(rt, "churnGet") == 0 {
					x.exec(Op{Kind: "get", Scope: t, Ident: rapid.SampledFrom(ids).Draw(rt, "churnId")})
				}
			}
		}
	}
}

func (o histOpts) ctxKinds() []int {
	if o.CtxKinds != nil {
		return o.CtxKinds
	}
	return []int{0, 1, 2, 3, 4}
}

func (x *run) describe() string {
	return fmt.Sprintf("config: %s\nhistory: %s", x.Cfg, strings.Join(x.Stats.Steps, " "))
}

// ---- shared observation helpers ----

// seen is one place an instance was observed: returned by a resolution or
// received by a constructor.
type seen struct {
	E       *kit.Entry
	Owner   kit.Owner // model owner of the identity it was observed under
	Scope   int       // scope the operation was issued on
	Where   string
	Direct  bool
	ViaKind string   // "type", "key", "group", "arg", "arg-group"
	ByInv   *kit.Inv // the invocation that received it (arguments only)
}

// observations lists every (instance, expected owner) pair the history exposed.
func (x *run) observations() (out []seen, problems []*Failure) {
	m := x.M
	var curInv *kit.Inv
	add := func(e *kit.Entry, ow kit.Owner, scope int, where string, direct bool, via string) {
		out = append(out, seen{e, ow, scope, where, direct, via, curInv})
	}
	for _, o := range x.R.Obs {
		if o.Kind != "resolve" || o.Err != nil || o.Panic != nil {
			continue
		}
		where := fmt.Sprintf("get(s%d,%s)", o.Scope, o.Ident)
		if o.Ident.Group != "" {
			mem := m.Members(o.Ident.T, o.Ident.Group)
			if len(mem) != len(o.Entries) {
				problems = append(problems, fail("C04", "group-members", "direct", "%s returned %d members, model has %d", where, len(o.Entries), len(mem)))
				continue
			}
			for i, e := range o.Entries {
				add(e, mem[i], o.Scope, where, true, "group")
			}
			// what was handed out stays what it was: the slice GetGroup returned belongs to the caller
			if o.RawGroup != nil {
				changed := len(o.RawGroup) != len(o.Entries)
				for i := 0; !changed && i < len(o.RawGroup); i++ {
					changed = kit.EntryOf(o.RawGroup[i]) != o.Entries[i]
				}
				if changed {
					problems = append(problems, fail("C04", "group-members", "result-changed-later", "the slice returned by %s holds other instances at the end of the run than when it was returned", where))
					for i, v := range o.RawGroup {
						if i < len(mem) {
							add(kit.EntryOf(v), mem[i], o.Scope, where+" [as found in the returned slice later]", true, "group")
						}
					}
				}
			}
			continue
		}
		ow, ok := m.Owner(o.Ident)
		if !ok {
			problems = append(problems, fail("C04", "identity-resolvable", "unregistered-resolved", "%s succeeded but the identity is not registered", where))
			continue
		}
		if m.NilOutput(o.Ident) {
			continue // the constructor leaves this output nil: whatever comes back is not judged
		}
		if o.Ident.T == kit.TVoid {
			continue // a named initializer: there is no instance, only the fact that it resolves (and does not run again)
		}
		via := "type"
		if o.Ident.Key != "" {
			via = "key"
		}
		if len(o.Entries) == 1 {
			add(o.Entries[0], ow, o.Scope, where, true, via)
		}
	}
	for _, inv := range x.W.AllInvs() {
		reg := m.Regs[inv.Reg]
		curInv = inv
		for ai, a := range inv.Args {
			where := fmt.Sprintf("arg %d (%s) of r%d#%d in s%d", ai, a.Dep, inv.Reg, inv.N, inv.ScopeTag)
			if a.Dep.Ignored || a.Dep.Builtin != 0 {
				continue
			}
			if a.Dep.T == kit.TVoid && a.Dep.Group == "" {
				continue // a dependency on a named initializer: there is no instance to observe
			}
			tg := m.DepTargets(a.Dep)
			if a.Dep.Group != "" {
				if len(tg) != len(a.Entries) {
					problems = append(problems, fail("C04", "group-members", "arg", "%s received %d members, model has %d", where, len(a.Entries), len(tg)))
					continue
				}
				for i, e := range a.Entries {
					add(e, tg[i], inv.ScopeTag, where, false, "arg-group")
				}
				continue
			}
			if len(tg) == 0 {
				if a.Present {
					problems = append(problems, fail("C04", "optional-zero", "present", "%s received %v but nothing is registered for it", where, a.Entries))
				}
				continue
			}
			if !a.Present {
				sig := formFeature(reg)
				if a.Dep.Optional {
					sig += "/optional"
				}
				p := fail("C04", "arg-present", sig, "%s received nil although r%d provides it", where, tg[0].Reg)
				p.Inv = inv
				problems = append(problems, p)
				continue
			}
			add(a.Entries[0], tg[0], inv.ScopeTag, where, false, "arg")
		}
	}
	return
}

func formFeature(r *kit.Reg) string {
	f := []string{"plain", "multi", "out", "inst", "void"}[r.Form]
	if len(r.As) > 1 {
		f += "+as2"
	} else if len(r.As) == 1 {
		f += "+as"
	}
	if r.Group != "" {
		f += "+group"
	}
	if r.Name != "" {
		f += "+name"
	}
	return f
}

func lifeName(l int) string { return []string{"singleton", "scoped", "transient"}[l] }

// okInvs returns successful invocations of a registration.
func okInvs(w *kit.World, reg int) []*kit.Inv {
	var out []*kit.Inv
	for _, i := range w.InvsOf(reg) {
		if i.Outcome == 1 {
			out = append(out, i)
		}
	}
	return out
}

// unexpectedErrors: resolutions of registered identities on live scopes must
// succeed in fault-free runs.
func (x *run) unexpectedErrors(prop string) *Failure {
	if f := x.foreignConstructors(prop); f != nil {
		return f
	}
	for _, o := range x.R.Obs {
		if o.Panic != nil {
			return fail(prop, "no-panic", o.Kind, "%s on s%d panicked: %v", o.Kind, o.Scope, o.Panic)
		}
		if o.Kind == "create" && o.Err != nil {
			return fail(prop, "create-ok", kit.Classify(o.Err), "CreateScope(s%d) failed: %v", o.Scope, o.Err)
		}
		if o.Kind != "resolve" {
			continue
		}
		registered := false
		if o.Ident.Group != "" {
			registered = true // group resolution never fails for lack of members
		} else if _, ok := x.M.Owner(o.Ident); ok {
			registered = true
		}
		if registered && x.M.NilOutput(o.Ident) && o.Ident.T != kit.TVoid {
			continue // nil output: an error is as good as a nil value
		}
		if registered && o.Err != nil {
			return fail(prop, "resolve-ok", kit.Classify(o.Err), "get(s%d,%s) failed: %v", o.Scope, o.Ident, firstLine(o.Err))
		}
		if !registered && o.Err == nil {
			return fail("C04", "identity-resolvable", "unregistered-resolved", "get(s%d,%s) succeeded but nothing is registered under that identity", o.Scope, o.Ident)
		}
		if !registered && !kit.IsNotFound(o.Err) {
			return fail("C04", "identity-resolvable", "unregistered-wrong-class", "get(s%d,%s) failed with %v, want service-not-found", o.Scope, o.Ident, firstLine(o.Err))
		}
	}
	return nil
}

// foreignConstructors: a constructor that belongs to no registration of the
// built provider ran - one whose registration was removed before Build, or one
// that was added to the collection after Build.
func (x *run) foreignConstructors(prop string) *Failure {
	if a := x.W.Anomalies(); len(a) > 0 {
		return fail(prop, "right-constructor", "not-part-of-the-build", "%s", a[0])
	}
	// a key of a defined string type is not the registered name: nothing is registered under it
	for _, o := range x.R.Obs {
		if o.Kind != "resolve-aliaskey" {
			continue
		}
		if o.Panic != nil {
			return fail(prop, "no-panic", o.Kind, "GetKeyed(s%d,%s) with a key of a defined string type panicked: %v", o.Scope, o.Ident, o.Panic)
		}
		if o.Err == nil {
			return fail("C04", "identity-resolvable", "key-of-another-type", "GetKeyed(s%d, %s, a key of a defined string type that prints like the registered name) succeeded: that identity is not registered", o.Scope, kit.TypeName(o.Ident.T))
		}
		if !kit.IsNotFound(o.Err) && !kit.IsDisposed(o.Err) {
			return fail("C04", "identity-resolvable", "key-of-another-type/wrong-class", "GetKeyed(s%d,%s) with a key of a defined string type failed with %v, want service-not-found", o.Scope, o.Ident, firstLine(o.Err))
		}
	}
	return nil
}

// unexpectedErrorsExceptFaulted: like unexpectedErrors, for runs with an injected constructor
// fault - operations during which a constructor failed are exempt, all others are not.
func (x *run) unexpectedErrorsExceptFaulted(prop string) *Failure {
	if f := x.foreignConstructors(prop); f != nil {
		return f
	}
	var faulted []*kit.Inv
	for _, inv := range x.W.AllInvs() {
		if inv.Outcome > 1 {
			faulted = append(faulted, inv)
		}
	}
	for _, o := range x.R.Obs {
		if o.Kind != "resolve" && o.Kind != "create" {
			continue
		}
		hit := false
		for _, inv := range faulted {
			if inv.StartSeq >= o.StartSeq && inv.StartSeq <= o.EndSeq {
				hit = true
			}
		}
		if hit || o.Err == nil || kit.IsDisposed(o.Err) {
			continue
		}
		if o.Kind == "create" {
			return fail(prop, "create-ok", "after-fault/"+kit.Classify(o.Err), "CreateScope(s%d) failed although no constructor failed during it: %v", o.Scope, firstLine(o.Err))
		}
		registered := o.Ident.Group != ""
		if _, ok := x.M.Owner(o.Ident); ok {
			registered = true
		}
		if registered && !x.M.NilOutput(o.Ident) {
			return fail(prop, "resolve-ok", "after-fault/"+kit.Classify(o.Err), "get(s%d,%s) failed although no constructor failed during it: %v", o.Scope, o.Ident, firstLine(o.Err))
		}
	}
	return nil
}

func firstLine(err error) string {
	if err == nil {
		return "<nil>"
	}
	s := err.Error()
	if i := strings.IndexByte(s, '\n'); i >= 0 {
		s = s[:i]
	}
	if len(s) > 400 {
		s = s[:400]
	}
	return s
}

func sortedKeys[V any](m map[string]V) []string {
	ks := make([]string, 0, len(m))
	for k := range m {
		ks = append(ks, k)
	}
	sort.Strings(ks)
	return ks
}

// configLabels returns coarse feature labels of a configuration for the histogram.
func configLabels(cfg *kit.Config) []string {
	set := map[string]bool{}
	for i := range cfg.Regs {
		r := &cfg.Regs[i]
		set["form:"+formFeature(r)] = true
		set["life:"+lifeName(r.Life)] = true
		if len(r.Dropped) > 0 {
			set["identity-removed-after-add"] = true
		}
		if r.IsTwin {
			set["signature-twin:"+[]string{"plain", "multi"}[r.Form]] = true
		}
		for _, p := range r.Provides() {
			for _, d := range r.Deps {
				if p.Ident.Group != "" && d.Group != "" && d.T == p.Ident.T && d.Group != p.Ident.Group {
					set["group-member-consumes-sibling-group:"+lifeName(r.Life)] = true
				}
			}
		}
		for _, o := range r.Outs {
			if kit.IsSliceSvc(o.T) {
				set["slice-typed-service"] = true
			}
		}
		if r.UseIn {
			set["param-object"] = true
		}
		for _, d := range r.Deps {
			switch {
			case d.Builtin != 0:
				set["dep:builtin"] = true
			case d.Group != "":
				set["dep:group"] = true
			case d.Key != "":
				set["dep:keyed"] = true
			case d.Optional:
				set["dep:optional"] = true
			}
		}
	}
	if len(cfg.Ghosts) > 0 {
		set["ghost-registrations"] = true
	}
	out := make([]string, 0, len(set))
	for k := range set {
		out = append(out, k)
	}
	sort.Strings(out)
	return out
}

package props

import (
	"context"
	"fmt"
	"reflect"
	"sort"
	"strconv"
	"strings"
	"testing"

	"verif/evid"
	"verif/kit"

	"github.com/junioryono/godi/v4"
	"pgregory.net/rapid"
)

// refDesc is one descriptor of the reference registry.
type refDesc struct {
	Reg   int
	Out   int
	PIdx  int // index of the identity in the registration's AllProvides()
	Ident kit.Ident
	Life  int
	Void  bool
}

type refRegistry struct {
	descs   []refDesc
	regs    map[int]*kit.Reg
	order   []int
	tainted string // non-empty: semantics no longer pinned down by the statement; only no-panic is checked
	partial bool   // some registration has lost one of several identities (and is still there)
}

func newRefRegistry() *refRegistry { return &refRegistry{regs: map[int]*kit.Reg{}} }

func (r *refRegistry) has(id kit.Ident) bool {
	for _, d := range r.descs {
		if d.matches(id) {
			return true
		}
	}
	return false
}

// matches: an initializer function is an identity only when it was given a
// name (it is then a keyed service of type struct{}).
func (d refDesc) matches(id kit.Ident) bool {
	if d.Void && (d.Ident.T != kit.TVoid || d.Ident.Key == "") {
		return false
	}
	return d.Ident == id
}

// add applies a registration; returns (accepted, duplicate).
func (r *refRegistry) add(reg kit.Reg) (bool, bool) {
	if reg.InvalidOptions() {
		return false, false
	}
	var nd []refDesc
	if reg.Form == kit.FormVoid {
		id := kit.Ident{T: kit.TVoid, Key: reg.Name}
		if reg.Name != "" && r.has(id) {
			return false, true
		}
		nd = []refDesc{{Reg: reg.ID, Life: reg.Life, Void: true, Ident: id}}
	}
	seen := map[kit.Ident]bool{}
	for i, p := range reg.AllProvides() {
		if reg.Form == kit.FormVoid {
			break // the one descriptor of an initializer was added above
		}
		if p.Ident.Group == "" {
			if r.has(p.Ident) || seen[p.Ident] {
				return false, true
			}
			seen[p.Ident] = true
		}
		nd = append(nd, refDesc{Reg: reg.ID, Out: p.Out, PIdx: i, Ident: p.Ident, Life: reg.Life})
	}
	r.descs = append(r.descs, nd...)
	cp := reg
	r.regs[reg.ID] = &cp
	r.order = append(r.order, reg.ID)
	return true, false
}

// remove drops one identity. A registration that provided several identities
// keeps the others: its constructor still runs for them, the removed identity
// is simply no longer a service (and may be registered again by someone else).
// A registration that has lost all its identities is gone: it never runs.
func (r *refRegistry) remove(id kit.Ident) {
	for i, d := range r.descs {
		if d.matches(id) {
			r.descs = append(r.descs[:i:i], r.descs[i+1:]...)
			reg := r.regs[d.Reg]
			if reg == nil {
				return
			}
			dropped := map[int]bool{d.PIdx: true}
			for k, v := range reg.Dropped {
				dropped[k] = v
			}
			reg.Dropped = dropped
			real := 0
			for _, p := range reg.Provides() {
				if !(p.Out < len(reg.Outs) && reg.Outs[p.Out].Nil) {
					real++
				}
			}
			if real == 0 {
				if len(reg.Provides()) > 0 {
					r.tainted = "only always-nil outputs of a registration are left"
				}
				delete(r.regs, d.Reg)
			} else if len(dropped) > 0 && len(reg.AllProvides()) > 1 {
				r.partial = true
			}
			return
		}
	}
}

func (r *refRegistry) config() *kit.Config {
	cfg := &kit.Config{}
	for _, id := range r.order {
		if reg, ok := r.regs[id]; ok {
			cfg.Regs = append(cfg.Regs, *reg)
		}
	}
	return cfg
}

// ctxAndI0 implements kit.I0 (through the embedded service) and context.Context.
type ctxAndI0 struct {
	kit.N0
	context.Context
}

var c17Types = []int{0, 1, kit.NumD, kit.NumD + 1, kit.TI0, kit.TI1, kit.TI2}

func (r *refRegistry) checkQueries(c godi.Collection) *Failure {
	for _, ty := range c17Types {
		rt := kit.RType(ty)
		if got, want := c.Contains(rt), r.has(kit.Ident{T: ty}); got != want {
			return fail("C17", "queries", "contains", "Contains(%s)=%v, reference %v", kit.TypeName(ty), got, want)
		}
		if got, want := c.ContainsKeyed(rt, "a"), r.has(kit.Ident{T: ty, Key: "a"}); got != want {
			return fail("C17", "queries", "contains-keyed", "ContainsKeyed(%s,a)=%v, reference %v", kit.TypeName(ty), got, want)
		}
	}
	if got, want := c.ContainsKeyed(kit.RType(kit.TVoid), "a"), r.has(kit.Ident{T: kit.TVoid, Key: "a"}); got != want {
		return fail("C17", "queries", "contains-keyed", "ContainsKeyed(struct{},a)=%v, reference %v", got, want)
	}
	if got := c.Count(); got != len(r.descs) {
		return fail("C17", "queries", "count", "Count()=%d, reference has %d registrations", got, len(r.descs))
	}
	sl := c.ToSlice()
	if len(sl) != len(r.descs) {
		return fail("C17", "queries", "toslice-len", "ToSlice() has %d entries, reference %d", len(sl), len(r.descs))
	}
	// compared as multisets: the statement does not promise an order
	want := map[string]int{}
	for _, d := range r.descs {
		if d.Void {
			want[fmt.Sprintf("void|%s", lifeName(d.Life))]++
			continue
		}
		k := d.Ident.Key
		if d.Ident.Group != "" {
			k = "#member"
		}
		want[fmt.Sprintf("%v|%s|%s|%s", kit.RType(d.Ident.T), k, d.Ident.Group, lifeName(d.Life))]++
	}
	for i, g := range sl {
		if g == nil {
			return fail("C17", "queries", "toslice-nil", "ToSlice()[%d] is nil", i)
		}
		var key string
		switch {
		case g.VoidReturn:
			key = fmt.Sprintf("void|%s", lifeName(int(g.Lifetime)))
		case g.Group != "":
			key = fmt.Sprintf("%v|#member|%s|%s", g.Type, g.Group, lifeName(int(g.Lifetime)))
		default:
			ks := ""
			if g.Key != nil {
				ks = fmt.Sprint(g.Key)
			}
			key = fmt.Sprintf("%v|%s||%s", g.Type, ks, lifeName(int(g.Lifetime)))
		}
		// the identity ToSlice reports is the identity the queries know (group members excepted: a
		// member is addressed through its group)
		if g.Group == "" {
			if g.Key == nil && !c.Contains(g.Type) {
				return fail("C17", "queries", "toslice-vs-contains", "ToSlice() lists %v, Contains(%v) is false", g.Type, g.Type)
			}
			if g.Key != nil && !c.ContainsKeyed(g.Type, g.Key) {
				return fail("C17", "queries", "toslice-vs-contains-keyed", "ToSlice() lists (%v, %#v), ContainsKeyed with that very type and key is false", g.Type, g.Key)
			}
		}
		if want[key] == 0 {
			return fail("C17", "queries", "toslice-content", "ToSlice() lists %s, which the reference registry does not hold (reference: %v)", key, want)
		}
		want[key]--
	}
	return nil
}

// snapshot of what a built provider must keep answering.
type provSnap struct {
	R     *kit.Runner
	M     *kit.Model
	Built int
}

func allPoolIdents() []kit.Ident {
	var ids []kit.Ident
	for _, ty := range c17Types {
		ids = append(ids, kit.Ident{T: ty}, kit.Ident{T: ty, Key: "a"}, kit.Ident{T: ty, Group: "g"})
	}
	ids = append(ids, kit.Ident{T: kit.TVoid, Key: "a"}) // a named initializer function
	return ids
}

// checkProviderScopes resolves every pool identity in two fresh scopes (in opposite orders) and
// checks, against the snapshot model, that identities provided by the same output of one
// scoped/singleton registration are one instance per scope and that each constructor ran at most
// once per scope: the lifetime rules of a built provider must not depend on later collection edits.
func checkProviderScopes(s *provSnap, when string) *Failure {
	ids := allPoolIdents()
	for pass := 0; pass < 2; pass++ {
		rec, o := s.R.CreateScope(0, 1)
		if o.Err != nil || o.Panic != nil || !rec.Created {
			return fail("C17", "snapshot", "scope/"+when, "%s: CreateScope on the kept provider failed: %v %v", when, firstLine(o.Err), o.Panic)
		}
		before := map[int]int{}
		for id, n := range s.R.W.Count {
			before[id] = n
		}
		byOwner := map[kit.Owner]*kit.Entry{}
		order := ids
		if pass == 1 {
			order = make([]kit.Ident, len(ids))
			for i, id := range ids {
				order[len(ids)-1-i] = id
			}
		}
		for _, id := range order {
			ob := s.R.Resolve(rec.Tag, id)
			if ob.Err != nil || ob.Panic != nil {
				continue // resolvability is judged by checkProvider
			}
			var owners []kit.Owner
			if id.Group != "" {
				owners = s.M.Members(id.T, id.Group)
			} else if ow, ok := s.M.Owner(id); ok {
				owners = []kit.Owner{ow}
			}
			if len(owners) != len(ob.Entries) {
				continue
			}
			for i, e := range ob.Entries {
				reg := s.M.Regs[owners[i].Reg]
				if e == nil || reg == nil || reg.Life == kit.Transient || reg.Form == kit.FormInstance {
					continue
				}
				if prev, seen := byOwner[owners[i]]; seen && prev != e {
					return fail("C17", "snapshot", "lifetime/"+when+"/"+formFeature(reg), "%s: in one scope of the kept provider, output %d of %s r%d resolved to two different instances (%v via another identity, %v via %s)", when, owners[i].Out, lifeName(reg.Life), owners[i].Reg, prev, e, id)
				}
				byOwner[owners[i]] = e
			}
		}
		for id, reg := range s.M.Regs {
			if reg.Life == kit.Scoped && reg.Form != kit.FormInstance && reg.Form != kit.FormVoid {
				if d := s.R.W.Count[id] - before[id]; d > 1 {
					return fail("C17", "snapshot", "ctor-count/"+when+"/"+formFeature(reg), "%s: scoped r%d (%s) was constructed %d times in one scope of the kept provider", when, id, reg, d)
				}
			}
		}
		s.R.CloseScope(rec.Tag)
	}
	return nil
}

// checkProvider resolves every pool identity on the provider and compares
// resolvability and provenance with the snapshot model.
func checkProvider(s *provSnap, when string) *Failure {
	for _, id := range allPoolIdents() {
		o := s.R.Resolve(0, id)
		if o.Panic != nil {
			return fail("C17", "no-panic", "resolve", "resolve %s panicked: %v", id, o.Panic)
		}
		if id.Group != "" {
			mem := s.M.Members(id.T, id.Group)
			if o.Err != nil {
				return fail("C17", "snapshot", "group-error/"+when, "%s: group %s failed: %v", when, id, firstLine(o.Err))
			}
			if len(o.Entries) != len(mem) {
				return fail("C17", "snapshot", "group-size/"+when, "%s: group %s has %d members, the set it was built from has %d", when, id, len(o.Entries), len(mem))
			}
			for i, e := range o.Entries {
				if e == nil || e.Reg != mem[i].Reg || e.Out != mem[i].Out {
					return fail("C17", "snapshot", "group-member/"+when, "%s: group %s member %d is %v, want output %d of r%d", when, id, i, e, mem[i].Out, mem[i].Reg)
				}
			}
			continue
		}
		ow, ok := s.M.Owner(id)
		if !ok {
			if o.Err == nil {
				return fail("C17", "snapshot", "extra/"+when, "%s: %s resolves although it was not registered when the provider was built", when, id)
			}
			continue
		}
		if id.T == kit.TVoid {
			if o.Err != nil {
				return fail("C17", "snapshot", "lost/"+when, "%s: %s no longer resolves: %v", when, id, firstLine(o.Err))
			}
			continue // no instance to compare
		}
		if o.Err != nil {
			return fail("C17", "snapshot", "lost/"+when, "%s: %s no longer resolves: %v", when, id, firstLine(o.Err))
		}
		if e := o.Entries[0]; e == nil || e.Reg != ow.Reg || e.Out != ow.Out {
			return fail("C17", "snapshot", "owner/"+when, "%s: %s resolved to %v, want output %d of r%d", when, id, o.Entries[0], ow.Out, ow.Reg)
		}
	}
	return nil
}

func TestC17Registry(t *testing.T) {
	maxSteps := 25
	if thorough() {
		maxSteps = 60
	}
	col := evid.New("C17", "collection-state-machine", "state machine over one collection: Add{Singleton,Scoped,Transient} of loosely generated registrations over a tiny identity pool (collisions, invalid option combinations, multi-output constructors colliding on a later output), Remove/RemoveKeyed, AddModules, Build (+resolve everything), and edits after a Build whose provider is kept; a reference registry is updated only by accepted operations; after every step Contains/ContainsKeyed/Count/ToSlice must equal it, a rejected Add changes nothing and is classifiable as already-registered when that is the cause, Build's verdict and the constructors that ran match the surviving registrations (a removed registration never runs), and a provider built earlier keeps answering exactly as when it was built; non-trivial = a rejected multi-output Add, a Remove followed by Build, or a post-Build edit")
	defer col.Flush()
	rapid.Check(t, propC17Registry(col, maxSteps))
}

// propC17Registry is the property of TestC17Registry; the native fuzz target of the same name decodes its input through it.
func propC17Registry(col *evid.Collector, maxSteps int) func(rt *rapid.T) {
	return func(rt *rapid.T) {
		w, _ := kit.NewWorld(&kit.Config{})
		coll := godi.NewCollection()
		ref := newRefRegistry()
		var kept []*provSnap
		var steps []string
		nextID := 0
		nt := false
		removed, built := false, false
		steps = nil
		var f *Failure
		var doAddReg func(reg kit.Reg, viaModule bool)
		doAdd := func(viaModule bool) {
			reg := kit.GenLooseReg(rt, nextID, true)
			doAddReg(reg, viaModule)
		}
		doAddReg = func(reg kit.Reg, viaModule bool) {
			nextID++
			w.Cfg.Regs = append(w.Cfg.Regs, reg)
			rp := &w.Cfg.Regs[len(w.Cfg.Regs)-1]
			before := len(ref.descs)
			var err error
			var pan any
			func() {
				defer func() { pan = recover() }()
				if viaModule {
					err = coll.AddModules(godi.NewModule("m", w.ModuleOption(rp)))
				} else {
					err = w.Register(coll, rp)
				}
			}()
			steps = append(steps, fmt.Sprintf("add(%s,module=%v)", reg, viaModule))
			if pan != nil {
				f = fail("C17", "no-panic", "add", "Add panicked: %v", pan)
				return
			}
			acc, dup := ref.add(reg)
			if acc != (err == nil) {
				feat := formFeature(&reg)
				if err == nil {
					f = fail("C17", "add-verdict", "accepted-invalid/"+feat, "Add(%s) was accepted, the reference rejects it (duplicate=%v invalid-options=%v)", reg, dup, reg.InvalidOptions())
				} else {
					f = fail("C17", "add-verdict", "rejected-valid/"+feat, "Add(%s) was rejected: %v", reg, firstLine(err))
				}
				return
			}
			if err != nil {
				if dup && !kit.IsAlreadyRegistered(err) {
					f = fail("C17", "add-verdict", "duplicate-class", "Add(%s) collides with an existing registration but the error is not AlreadyRegisteredError: %v", reg, firstLine(err))
					return
				}
				if len(ref.descs) != before {
					panic("harness: reference changed on reject")
				}
				if dup && len(reg.Provides()) > 1 {
					nt = true
				}
			}
			if built && err == nil {
				nt = true
			}
		}
		// a module with several registrations: applied entry by entry, the first failing one stops it,
		// what the entries before it registered stays (C20) - and is what the queries and a later Build see
		doAddModuleMulti := func() {
			n := rapid.IntRange(2, 4).Draw(rt, "moduleEntries")
			var regs []kit.Reg
			for i := 0; i < n; i++ {
				regs = append(regs, kit.GenLooseReg(rt, nextID+i, true))
			}
			nextID += n
			base := len(w.Cfg.Regs)
			w.Cfg.Regs = append(w.Cfg.Regs, regs...)
			opts := make([]godi.ModuleOption, n)
			for i := range regs {
				opts[i] = w.ModuleOption(&w.Cfg.Regs[base+i])
			}
			nested := rapid.Bool().Draw(rt, "moduleNested")
			var err error
			var pan any
			func() {
				defer func() { pan = recover() }()
				if nested {
					err = coll.AddModules(godi.NewModule("outer", opts[0], godi.NewModule("inner", opts[1:]...)))
				} else {
					err = coll.AddModules(godi.NewModule("m", opts...))
				}
			}()
			steps = append(steps, fmt.Sprintf("addModule(nested=%v: %v)", nested, regs))
			if pan != nil {
				f = fail("C17", "no-panic", "add-module", "AddModules panicked: %v", pan)
				return
			}
			failedAt := -1
			for i, reg := range regs {
				if acc, _ := ref.add(reg); !acc {
					failedAt = i
					break
				}
			}
			if (failedAt >= 0) != (err != nil) {
				f = fail("C17", "add-verdict", fmt.Sprintf("module/%v->%v", failedAt >= 0, err != nil), "a module of %d registrations: the reference stops at entry %d (-1 = none), AddModules returned %v", n, failedAt, firstLine(err))
				return
			}
			if failedAt > 0 {
				nt = true // registrations made before the failing one stay
			}
			if built && failedAt != 0 {
				nt = true
			}
		}
		// one call that would register a pool type AND one of the three reserved types (as a further
		// result, a further result-object field, a further alias): rejected as a whole
		doReservedSecondary := func() {
			ty := rapid.SampledFrom([]int{0, 1, kit.NumD, kit.NumD + 1}).Draw(rt, "reservedWith")
			reserved := rapid.SampledFrom([]reflect.Type{kit.CtxType, kit.ScopeType, kit.ProviderType}).Draw(rt, "reservedType")
			shape := rapid.SampledFrom([]string{"multi", "out", "as"}).Draw(rt, "reservedShape")
			var ctor any
			var opts []godi.AddOption
			switch shape {
			case "multi":
				ft := reflect.FuncOf(nil, []reflect.Type{kit.RType(ty), reserved}, false)
				ctor = reflect.MakeFunc(ft, func([]reflect.Value) []reflect.Value {
					return []reflect.Value{reflect.New(kit.RType(ty).Elem()), reflect.Zero(reserved)}
				}).Interface()
			case "out":
				ot := reflect.StructOf([]reflect.StructField{
					{Name: "Out", Type: reflect.TypeOf(godi.Out{}), Anonymous: true},
					{Name: "A", Type: kit.RType(ty)},
					{Name: "B", Type: reserved},
				})
				ft := reflect.FuncOf(nil, []reflect.Type{ot}, false)
				ctor = reflect.MakeFunc(ft, func([]reflect.Value) []reflect.Value {
					o := reflect.New(ot).Elem()
					o.Field(1).Set(reflect.New(kit.RType(ty).Elem()))
					return []reflect.Value{o}
				}).Interface()
			default:
				// a type that implements I0 and context.Context alike: As[I0], As[context.Context]
				ctor = func() *ctxAndI0 { return &ctxAndI0{} }
				opts = []godi.AddOption{godi.As[kit.I0](), godi.As[context.Context]()}
			}
			var err error
			var pan any
			reservedLife := rapid.IntRange(0, 2).Draw(rt, "reservedLife") // (drawn outside the recover below: rapid steers with panics)
			func() {
				defer func() { pan = recover() }()
				switch reservedLife {
				case 0:
					err = coll.AddSingleton(ctor, opts...)
				case 1:
					err = coll.AddScoped(ctor, opts...)
				default:
					err = coll.AddTransient(ctor, opts...)
				}
			}()
			steps = append(steps, fmt.Sprintf("add(%s + %v in one call, shape %s)", kit.TypeName(ty), reserved, shape))
			switch {
			case pan != nil:
				f = fail("C17", "no-panic", "add-reserved", "Add panicked: %v", pan)
			case err == nil:
				f = fail("C17", "add-verdict", "accepted-invalid/reserved-"+shape, "a registration that provides %v was accepted", reserved)
			}
			nt = true
		}
		// replace: the documented way of swapping one service of a package for another - remove
		// one identity of a registration that provides several, register a plain replacement
		doReplace := func() {
			var cands []refDesc
			for _, d := range ref.descs {
				reg := ref.regs[d.Reg]
				if d.Void || d.Ident.Group != "" || reg == nil || len(reg.AllProvides()) < 2 {
					continue
				}
				if d.Ident.Key == "" {
					ambiguous := false
					for _, o := range ref.descs {
						if !o.Void && o.Ident.T == d.Ident.T && (o.Ident.Key != "" || o.Ident.Group != "") {
							ambiguous = true
						}
					}
					if ambiguous {
						continue
					}
				}
				cands = append(cands, d)
			}
			if len(cands) == 0 {
				return
			}
			d := rapid.SampledFrom(cands).Draw(rt, "replaced")
			if d.Ident.Key != "" {
				coll.RemoveKeyed(kit.RType(d.Ident.T), d.Ident.Key)
			} else {
				coll.Remove(kit.RType(d.Ident.T))
			}
			ref.remove(d.Ident)
			removed = true
			steps = append(steps, fmt.Sprintf("remove(%s) [to be replaced]", d.Ident))
			impl := d.Ident.T
			if kit.IsIface(impl) {
				impl = rapid.SampledFrom([]int{0, kit.NumD}).Draw(rt, "replImpl")
			}
			doAddReg(kit.Reg{ID: nextID, Life: rapid.IntRange(0, 2).Draw(rt, "replLife"), Form: kit.FormPlain,
				Outs: []kit.OutSpec{{T: d.Ident.T, Impl: impl}}, Name: d.Ident.Key, HasErr: rapid.Bool().Draw(rt, "replErr")}, false)
		}
		// a user's name for an initializer function that looks like the key the collection would
		// generate next for an unnamed one: two different registrations, both are accepted
		doShadowGenerated := func() {
			last := int64(-1)
			for _, d := range coll.ToSlice() {
				if d == nil || !d.VoidReturn || d.Key == nil {
					continue
				}
				if ks := fmt.Sprint(d.Key); len(ks) > 1 && ks[0] == 'v' {
					if n, err := strconv.ParseInt(ks[1:], 36, 64); err == nil && n > last {
						last = n
					}
				}
			}
			if last < 0 {
				doAddReg(kit.Reg{ID: nextID, Life: kit.Scoped, Form: kit.FormVoid}, false)
				return
			}
			// (every registration of an initializer function draws a number, the named one too)
			doAddReg(kit.Reg{ID: nextID, Life: kit.Scoped, Form: kit.FormVoid, Name: "v" + strconv.FormatInt(last+2, 36)}, false)
			if f == nil {
				doAddReg(kit.Reg{ID: nextID, Life: kit.Scoped, Form: kit.FormVoid}, false)
			}
		}
		// a group grows while something else is replaced: member, Remove of an unrelated plain
		// registration, next member of the same group (the collection is as large at the second
		// Add as it was at the first)
		doGroupAroundRemove := func() {
			ty := rapid.SampledFrom(c17Types).Draw(rt, "garType")
			grp := rapid.SampledFrom([]string{"g", "h"}).Draw(rt, "garGroup")
			life := rapid.IntRange(0, 2).Draw(rt, "garLife")
			member := func() {
				impl := ty
				if kit.IsIface(impl) {
					impl = rapid.SampledFrom([]int{0, kit.NumD}).Draw(rt, "garImpl")
				}
				doAddReg(kit.Reg{ID: nextID, Life: life, Form: kit.FormPlain, Outs: []kit.OutSpec{{T: ty, Impl: impl}}, Group: grp}, false)
			}
			var cands []refDesc
			for _, d := range ref.descs {
				reg := ref.regs[d.Reg]
				if d.Void || d.Ident.Group != "" || d.Ident.Key != "" || reg == nil || len(reg.AllProvides()) != 1 {
					continue
				}
				ambiguous := false
				for _, o := range ref.descs {
					if !o.Void && o.Ident.T == d.Ident.T && (o.Ident.Key != "" || o.Ident.Group != "" || o.Ident.T == ty) {
						ambiguous = true
					}
				}
				if !ambiguous && d.Ident.T != ty {
					cands = append(cands, d)
				}
			}
			member()
			if f != nil || len(cands) == 0 {
				return
			}
			d := rapid.SampledFrom(cands).Draw(rt, "garRemoved")
			coll.Remove(kit.RType(d.Ident.T))
			ref.remove(d.Ident)
			removed = true
			steps = append(steps, fmt.Sprintf("remove(%s)", d.Ident))
			member()
		}
		// remove what ToSlice lists, with the very type and key it reports: the only way to address
		// an initializer function that was registered without a name, and the way for names that
		// are not the pool's "a"
		doRemoveListed := func() {
			if ref.tainted != "" {
				return
			}
			type cand struct {
				d   *godi.Descriptor
				ref int // index into ref.descs
			}
			var cands []cand
			var unnamed []*godi.Descriptor
			for _, d := range coll.ToSlice() {
				if d == nil || d.Group != "" || d.Key == nil {
					continue
				}
				if _, isName := d.Key.(string); !isName {
					if d.VoidReturn {
						unnamed = append(unnamed, d)
					}
					continue
				}
				for i, rd := range ref.descs {
					if rd.Ident.Group == "" && rd.Ident.Key != "" && rd.Ident.Key == d.Key.(string) && kit.RType(rd.Ident.T) == d.Type {
						cands = append(cands, cand{d, i})
					}
				}
			}
			// generated keys are handed out in increasing order (printed in base 36): the i-th unnamed
			// initializer of the reference is the i-th by generated key
			sort.Slice(unnamed, func(i, j int) bool {
				a, b := fmt.Sprint(unnamed[i].Key), fmt.Sprint(unnamed[j].Key)
				return len(a) < len(b) || len(a) == len(b) && a < b
			})
			var unnamedRef []int
			for i, rd := range ref.descs {
				if rd.Void && rd.Ident.Key == "" {
					unnamedRef = append(unnamedRef, i)
				}
			}
			if len(unnamed) == len(unnamedRef) {
				for i, d := range unnamed {
					cands = append(cands, cand{d, unnamedRef[i]})
				}
			}
			if len(cands) == 0 {
				return
			}
			c := cands[rapid.IntRange(0, len(cands)-1).Draw(rt, "listed")]
			rd := ref.descs[c.ref]
			coll.RemoveKeyed(c.d.Type, c.d.Key)
			if rd.Void && rd.Ident.Key == "" {
				ref.descs = append(ref.descs[:c.ref:c.ref], ref.descs[c.ref+1:]...)
				delete(ref.regs, rd.Reg)
				steps = append(steps, fmt.Sprintf("removeKeyed(unnamed initializer r%d, the key ToSlice reports)", rd.Reg))
			} else {
				ref.remove(rd.Ident)
				steps = append(steps, fmt.Sprintf("removeKeyed(%s, as ToSlice reports it)", rd.Ident))
			}
			removed = true
			if built {
				nt = true
			}
		}
		nsteps := rapid.IntRange(1, maxSteps).Draw(rt, "nsteps")
		for i := 0; i < nsteps && f == nil; i++ {
			if rapid.IntRange(0, 14).Draw(rt, "reservedSecondary") == 0 {
				doReservedSecondary()
				if f == nil && ref.tainted == "" {
					f = ref.checkQueries(coll)
				}
				continue
			}
			if rapid.IntRange(0, 9).Draw(rt, "addModuleMulti") == 0 {
				doAddModuleMulti()
				if f == nil && ref.tainted == "" {
					f = ref.checkQueries(coll)
				}
				continue
			}
			if rapid.IntRange(0, 11).Draw(rt, "removeListed") == 0 {
				doRemoveListed()
				if f == nil && ref.tainted == "" {
					f = ref.checkQueries(coll)
				}
				continue
			}
			if rapid.IntRange(0, 9).Draw(rt, "replace") == 0 {
				doReplace()
				continue
			}
			if rapid.IntRange(0, 11).Draw(rt, "groupAroundRemove") == 0 {
				doGroupAroundRemove()
				continue
			}
			if rapid.IntRange(0, 14).Draw(rt, "shadowGenerated") == 0 {
				doShadowGenerated()
				continue
			}
			switch k := rapid.IntRange(0, 11).Draw(rt, "op"); {
			case k <= 5:
				doAdd(false)
			case k == 6:
				doAdd(true)
			case k == 7 || k == 8:
				// remove: un-keyed only when the type has no keyed/grouped registrations (the statement leaves that case open)
				ty := rapid.SampledFrom(append(append([]int(nil), c17Types...), kit.TVoid)).Draw(rt, "rmtype")
				keyed := rapid.Bool().Draw(rt, "rmkeyed") || ty == kit.TVoid
				viaOption := ty != kit.TVoid && rapid.Bool().Draw(rt, "rmViaModule")
				if keyed {
					if viaOption {
						// the module-option form of the same removal (godi.RemoveKeyed[T](key))
						if err := coll.AddModules(removeOption(ty, true, "a")); err != nil {
							f = fail("C17", "remove", "option-error", "AddModules(RemoveKeyed[%s](a)) returned %v", kit.TypeName(ty), err)
						}
					} else {
						coll.RemoveKeyed(kit.RType(ty), "a")
					}
					ref.remove(kit.Ident{T: ty, Key: "a"})
					steps = append(steps, fmt.Sprintf("removeKeyed(%s,a,option=%v)", kit.TypeName(ty), viaOption))
				} else {
					ambiguous := false
					for _, d := range ref.descs {
						if !d.Void && d.Ident.T == ty && (d.Ident.Key != "" || d.Ident.Group != "") {
							ambiguous = true
						}
					}
					if ambiguous {
						continue
					}
					if viaOption {
						if err := coll.AddModules(godi.NewModule("rm", removeOption(ty, false, nil))); err != nil {
							f = fail("C17", "remove", "option-error", "AddModules(Remove[%s]()) returned %v", kit.TypeName(ty), err)
						}
					} else {
						coll.Remove(kit.RType(ty))
					}
					ref.remove(kit.Ident{T: ty})
					steps = append(steps, fmt.Sprintf("remove(%s,option=%v)", kit.TypeName(ty), viaOption))
				}
				removed = true
				if built {
					nt = true
				}
			default:
				if ref.tainted != "" {
					continue
				}
				// Build
				cfg := ref.config()
				m, err := kit.NewModel(cfg)
				if err != nil {
					panic("harness: reference registry inconsistent: " + err.Error())
				}
				counts := map[int]int{}
				for id, n := range w.Count {
					counts[id] = n
				}
				r := kit.NewRunner(w)
				r.Coll = coll
				o := r.BuildExisting()
				steps = append(steps, "build")
				if o.Panic != nil {
					f = fail("C17", "no-panic", "build", "Build panicked: %v", o.Panic)
					break
				}
				want := m.ExpectedVerdict()
				got := kit.Classify(o.Err)
				if len(defectClasses(m)) <= 1 && got != want {
					feat := want + "->" + got
					if removed {
						feat += "/after-remove"
					}
					f = fail("C17", "build-uses-registry", feat, "Build returned %s (%v) but the surviving registrations %s give %s", got, firstLine(o.Err), cfg, want)
					break
				}
				if removed {
					nt = true
				}
				if o.Err != nil {
					continue
				}
				built = true
				snap := &provSnap{R: r, M: m, Built: len(steps)}
				if f = checkProvider(snap, "right-after-build"); f != nil {
					break
				}
				// constructors that ran for this build: exactly the surviving registrations'
				for id, n := range w.Count {
					d := n - counts[id]
					if _, alive := ref.regs[id]; !alive && d > 0 {
						f = fail("C17", "removed-never-runs", "ran", "constructor of r%d (%s) ran %d times during/after Build although the registration was removed or rejected", id, regByID(w.Cfg, id), d)
					}
				}
				for id, reg := range ref.regs {
					if reg.Life == kit.Singleton && reg.Form != kit.FormInstance && reg.Form != kit.FormVoid && w.Count[id]-counts[id] != 1 {
						f = fail("C17", "build-uses-registry", "singleton-count", "singleton r%d (%s) ran %d times for this Build", id, reg, w.Count[id]-counts[id])
					}
				}
				if len(kept) < 2 && rapid.Bool().Draw(rt, "keep") {
					kept = append(kept, snap)
				} else {
					r.CloseProvider()
				}
			}
			if f == nil && ref.tainted == "" {
				f = ref.checkQueries(coll)
			}
		}
		for _, s := range kept {
			// kept providers were built from an untainted registry: whatever happened to the collection
			// afterwards (also edits whose meaning for the collection is left open) must not affect them
			if f == nil {
				f = checkProvider(s, "after-later-edits")
			}
			if f == nil {
				f = checkProviderScopes(s, "after-later-edits")
			}
			s.R.CloseProvider()
		}
		canon := strings.Join(steps, " ; ")
		labels := []string{}
		if ref.tainted != "" {
			labels = append(labels, "tainted(no-panic only)")
		}
		if ref.partial {
			labels = append(labels, "partial-removal")
		}
		if len(kept) > 0 {
			labels = append(labels, "kept-provider")
		}
		if f != nil && isKnown(f) {
			col.Excluded()
			return
		}
		col.Case(nt, canon, canon, labels...)
		if f != nil {
			rt.Fatalf("VIOLATION %s\nsteps: %s", f, canon)
		}
	}
}

func regByID(cfg *kit.Config, id int) string {
	for _, r := range cfg.Regs {
		if r.ID == id {
			return r.String()
		}
	}
	return "?"
}

var _ = reflect.TypeOf

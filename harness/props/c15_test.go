package props

import (
	"context"
	"errors"
	"fmt"
	"reflect"
	"runtime"
	"strings"
	"testing"
	"unsafe"

	"verif/evid"
	"verif/kit"

	"github.com/junioryono/godi/v4"
	"pgregory.net/rapid"
)

// ---------- (a) API misuse ----------

type valErr struct{ msg string }

func (e valErr) Error() string { return e.msg }

// wrappingErr is a constructor's own error that wraps a cause.
type wrappingErr struct {
	op    string
	cause error
}

func (e *wrappingErr) Error() string { return e.op + ": " + e.cause.Error() }
func (e *wrappingErr) Unwrap() error { return e.cause }

type ptrErr struct{ msg string }

func (e *ptrErr) Error() string { return e.msg }

type namedIn struct {
	In godi.In // named, not embedded: not a parameter object
	A  *kit.N0
}
type ptrIn struct {
	godi.In
	A *kit.N0 `optional:"true"`
	b *kit.N1 //nolint
}
type hostileOut struct {
	godi.Out
	A *kit.N0
	B *kit.N0 `name:"b"`
	C []*kit.N1
	d int //nolint
}
type keyStruct struct{ a, b int }

// disposables of types that cannot be compared or hashed
type closerList []func() error

func (c closerList) Close() error { return nil }

type closerStruct struct {
	hooks map[string]func()
}

func (c closerStruct) Close() error { return nil }

// a disposable of zero size: all its instances may share one address
type zeroCloser struct{}

func (*zeroCloser) Close() error { return nil }

// valSvc is registered by value: only *valSvc has the methods of the service
// interfaces (Base has pointer receivers).
type valSvc struct{ kit.Base }

type inI0 struct {
	godi.In
	A kit.I0
}
type inI0Named struct {
	godi.In
	A kit.I0 `name:"a"`
}
type inI0Group struct {
	godi.In
	A []kit.I0 `group:"g"`
}
type inI0Opt struct {
	godi.In
	A kit.I0   `optional:"true"`
	B []kit.I0 `group:"g" optional:"true"`
}

// Recursive named types of reference kind: legal Go, legal service types, and a trap for any
// code that walks a type's elements without looking at its name first.
type recSlice []recSlice
type recMap map[string]recMap
type recPtr *recPtr
type recFn func() recFn
type recChan chan recChan

// use consumes a result the way a caller does: the value is dropped, the error is printed and
// asked what it is. An error that cannot be rendered or classified is no usable error.
func use[T any](_ T, err error) { useErr(err) }

func useErr(err error) {
	if err == nil {
		return
	}
	_ = err.Error()
	_ = fmt.Sprintf("%v|%+v|%s", err, err, err)
	_ = classSet(err)
	for e := err; e != nil; e = errors.Unwrap(e) {
		_ = e.Error()
	}
}

type hostile struct {
	name string
	v    any
}

func hostileServices() []hostile {
	var nilFunc func() *kit.N0
	var nilPtr *kit.N0
	var nilIface kit.I0
	var nilMap map[string]int
	ch := make(chan int)
	return []hostile{
		{"nil", nil},
		{"typed-nil-func", nilFunc},
		{"typed-nil-ptr", nilPtr},
		{"nil-iface", nilIface},
		{"nil-map", nilMap},
		{"int", 42},
		{"string", "svc"},
		{"struct", keyStruct{1, 2}},
		{"ptr-struct", &keyStruct{1, 2}},
		{"slice", []int{1}},
		{"map", map[string]int{"a": 1}},
		{"chan", ch},
		{"func-no-return", func() {}},
		{"func-only-error", func() error { return nil }},
		{"func-only-error-fails", func() error { return errors.New("init failed") }},
		{"func-returns-chan", func() chan int { return ch }},
		{"func-takes-chan", func(c chan int) *kit.N0 { return &kit.N0{} }},
		{"func-returns-unsafe", func() unsafe.Pointer { return nil }},
		{"func-variadic", func(xs ...*kit.N1) *kit.N0 { return &kit.N0{} }},
		{"func-value-error-last", func() (*kit.N0, valErr) { return &kit.N0{}, valErr{} }},
		{"func-value-error-only", func() valErr { return valErr{"x"} }},
		{"func-ptr-error-last", func() (*kit.N0, *ptrErr) { return &kit.N0{}, nil }},
		{"func-error-first", func() (error, *kit.N0) { return nil, &kit.N0{} }},
		{"func-two-errors", func() (error, error) { return nil, nil }},
		{"func-returns-nil-iface", func() kit.I0 { return nil }},
		{"func-returns-nil-ptr", func() *kit.N0 { return nil }},
		{"func-returns-int", func() int { return 7 }},
		{"func-returns-string-slice", func() []string { return nil }},
		{"func-returns-func", func() func() { return nil }},
		{"func-returns-map", func() map[string]int { return nil }},
		{"func-named-in", func(p namedIn) *kit.N0 { return &kit.N0{} }},
		{"func-ptr-in", func(p *ptrIn) *kit.N0 { return &kit.N0{} }},
		{"func-in-and-more", func(p ptrIn, x *kit.N1) *kit.N0 { return &kit.N0{} }},
		{"func-out", func() hostileOut { return hostileOut{A: &kit.N0{}} }},
		{"func-ptr-out", func() *hostileOut { return nil }},
		{"func-out-and-value", func() (hostileOut, *kit.N1) { return hostileOut{}, nil }},
		{"func-panics", func() *kit.N0 { panic("boom") }},
		{"func-panics-nil", func() *kit.N0 { panic(nil) }},
		{"func-panics-err", func() *kit.N0 { panic(errors.New("boom-err")) }},
		{"func-exits-goroutine", func() *kit.N0 { var m map[int]int; m[1] = 1; return nil }},
		{"func-needs-unregistered", func(x kit.D5) *kit.N0 { return &kit.N0{} }},
		{"func-needs-itself", func(x *kit.N0) *kit.N0 { return x }},
		{"func-struct-value", func() keyStruct { return keyStruct{} }},
		{"func-iface-any", func() any { return 1 }},
		{"func-group-slice-param", func(xs []*kit.N1) *kit.N0 { return &kit.N0{} }},
		{"generic-func", genericCtor[*kit.N0]},
		{"method-value", (&kit.N0{}).Shutdown},
		{"ok-plain", func() *kit.N1 { return &kit.N1{} }},
		{"disposable-slice-value", func() closerList { return closerList{func() error { return nil }} }},
		{"disposable-slice-instance", closerList{nil}},
		{"disposable-map-struct", func() closerStruct { return closerStruct{hooks: map[string]func(){}} }},
		{"disposable-map-struct-instance", closerStruct{}},
		{"disposable-zero-size", func() *zeroCloser { return &zeroCloser{} }},
		{"rec-slice-ctor", func() recSlice { return recSlice{nil} }},
		{"rec-map-ctor", func() recMap { return recMap{"a": nil} }},
		{"rec-ptr-ctor", func() recPtr { return nil }},
		{"rec-fn-ctor", func() recFn { return nil }},
		{"rec-chan-ctor", func() (recChan, error) { return nil, errors.New("no channel") }},
		{"rec-slice-instance", recSlice{}},
		{"rec-map-instance", recMap{}},
		{"func-needs-rec", func(a recSlice, b recMap, c recPtr) *kit.N0 { return &kit.N0{} }},
		{"func-rec-needs-unregistered", func(x kit.D5) recMap { return nil }},
		{"func-rec-slice-needs-unregistered", func(x kit.D5) ([]recSlice, map[string]*recPtr) { return nil, nil }},
	}
}

// chainServices are providers of the interface I0 whose value is unusual (nil,
// a struct value that only implements I0 through its pointer, ...) and
// consumers that pull I0 in through every injection path. Each alone is
// harmless; the pairs exercise the argument builders.
func chainServices() []hostile {
	return []hostile{
		{"i0-nil", func() kit.I0 { return nil }},
		{"i0-nil-second", func() (kit.N4, kit.I0) { return kit.N4{}, nil }},
		{"i0-nil-first", func() (kit.I0, kit.N4) { return nil, kit.N4{} }},
		{"i0-ok", func() kit.I0 { return &kit.N0{} }},
		{"i0-value-instance", valSvc{}},
		{"i0-value-ctor", func() valSvc { return valSvc{} }},
		{"i0-ptr-instance", &valSvc{}},
		{"take-i0-param", func(x kit.I0) *kit.N2 { return &kit.N2{} }},
		{"take-i0-field", func(p inI0) *kit.N2 { return &kit.N2{} }},
		{"take-i0-named", func(p inI0Named) *kit.N2 { return &kit.N2{} }},
		{"take-i0-group", func(p inI0Group) *kit.N3 { return &kit.N3{} }},
		{"take-i0-opt", func(p inI0Opt) *kit.N3 { return &kit.N3{} }},
		{"take-i0-slice", func(xs []kit.I0) *kit.N3 { return &kit.N3{} }},
	}
}

func chainOptions(rt *rapid.T) ([]godi.AddOption, string) {
	pool := []struct {
		n string
		o godi.AddOption
	}{
		{"", nil}, {"", nil}, {"name-a", godi.Name("a")}, {"group-g", godi.Group("g")}, {"group-g", godi.Group("g")}, {"as-i0", godi.As[kit.I0]()},
		{"as-i0", godi.As[kit.I0]()}, {"as-i0-i1", godi.As[kit.I0]()},
	}
	n := rapid.IntRange(0, 2).Draw(rt, "nchainopts")
	var opts []godi.AddOption
	var names []string
	for i := 0; i < n; i++ {
		p := rapid.SampledFrom(pool).Draw(rt, "chainopt")
		opts = append(opts, p.o)
		if p.n != "" {
			names = append(names, p.n)
		}
	}
	return opts, strings.Join(names, "+")
}

func genericCtor[T any]() T { var z T; return z }

func hostileOptions(rt *rapid.T) ([]godi.AddOption, string) {
	pool := []struct {
		n string
		o godi.AddOption
	}{
		{"nil", nil}, {"name-a", godi.Name("a")}, {"name-empty", godi.Name("")}, {"name-bq", godi.Name("a`b")},
		{"group-g", godi.Group("g")}, {"group-empty", godi.Group("")}, {"group-bq", godi.Group("`")},
		{"as-i0", godi.As[kit.I0]()}, {"as-int", godi.As[int]()}, {"as-any", godi.As[any]()}, {"as-error", godi.As[error]()},
		{"as-ctx", godi.As[context.Context]()}, {"as-ptr", godi.As[*kit.N0]()},
	}
	n := rapid.IntRange(0, 3).Draw(rt, "nopts")
	var opts []godi.AddOption
	var names []string
	for i := 0; i < n; i++ {
		p := rapid.SampledFrom(pool).Draw(rt, "opt")
		opts = append(opts, p.o)
		names = append(names, p.n)
	}
	return opts, strings.Join(names, "+")
}

func hostileKeys() []any {
	return []any{nil, "", "a", 0, 1, -1, 3.5, true, keyStruct{1, 2}, &keyStruct{}, [2]int{1, 2}, kit.Ident{T: 1}, reflect.TypeOf(0), struct{}{}, 'x', uint8(3), errors.New("k")}
}

func hostileTypes() []reflect.Type {
	return []reflect.Type{nil, kit.RType(0), kit.RType(kit.NumD), kit.RType(kit.TI0), kit.CtxType, kit.ScopeType, kit.ProviderType, reflect.TypeOf(0), reflect.TypeOf(""), reflect.TypeOf(struct{}{}),
		reflect.TypeOf(closerList{}), reflect.TypeOf(closerStruct{}), reflect.TypeOf(&zeroCloser{}),
		reflect.TypeOf(recSlice{}), reflect.TypeOf(recMap{}), reflect.TypeOf(recPtr(nil)), reflect.TypeOf(recFn(nil)), reflect.TypeOf(recChan(nil)), reflect.TypeOf([]recSlice{}),
		reflect.TypeOf([]*kit.N1{}), reflect.TypeOf((*error)(nil)).Elem(), reflect.TypeOf(keyStruct{}), reflect.TypeOf(func() {}), reflect.TypeOf(make(chan int)), reflect.TypeOf(map[string]int{})}
}

func callNoPanic(f func()) (pan any, stack string) {
	defer func() {
		if p := recover(); p != nil {
			pan = p
			buf := make([]byte, 4096)
			stack = string(buf[:runtime.Stack(buf, false)])
		}
	}()
	f()
	return
}

func TestC15Misuse(t *testing.T) {
	col := evid.New("C15", "api-misuse", "random sequences of public API calls with hostile arguments: Add* with nil / typed-nil / non-function values of every kind, constructors with unsupported or odd signatures (channel, unsafe pointer, variadic, value-type error results, error-only, named/pointer In, pointer Out, nil results, panicking), 0-3 hostile options (nil, Name+Group, backquotes, As of non-interfaces/reserved types), then Build and Get/GetKeyed/GetGroup/CreateScope/Resolve*/FromContext with nil types, nil and exotic hashable keys, empty groups, nil contexts, nil providers, on live and closed providers and scopes; oracle: recover() around every call - nothing panics; non-trivial = a call with >=2 hostile arguments or a hostile constructor that reaches Build/resolution")
	defer col.Flush()
	svcs := hostileServices()
	chain := chainServices()
	keys := hostileKeys()
	types := hostileTypes()
	rapid.Check(t, func(rt *rapid.T) {
		coll := godi.NewCollection()
		var trace []string
		hostileArgs := 0
		check := func(what string, f func()) {
			trace = append(trace, what)
			if pan, st := callNoPanic(f); pan != nil {
				fl := fail("C15", "no-panic", strings.SplitN(what, "(", 2)[0], "%s panicked: %v", what, pan)
				if isKnown(fl) {
					col.Excluded()
					return
				}
				rt.Fatalf("VIOLATION %s\ncalls: %s\n%s", fl, strings.Join(trace, " ; "), st)
			}
		}
		nadd := rapid.IntRange(0, 6).Draw(rt, "nadd")
		accepted := 0
		chainMode := rapid.IntRange(0, 2).Draw(rt, "chain") == 0
		for i := 0; i < nadd; i++ {
			var h hostile
			var opts []godi.AddOption
			var on string
			if chainMode && rapid.IntRange(0, 3).Draw(rt, "fromchain") != 0 {
				h = rapid.SampledFrom(chain).Draw(rt, "chainsvc")
				opts, on = chainOptions(rt)
			} else {
				h = rapid.SampledFrom(svcs).Draw(rt, "svc")
				opts, on = hostileOptions(rt)
			}
			life := rapid.IntRange(0, 3).Draw(rt, "life")
			if on != "" {
				hostileArgs++
			}
			check(fmt.Sprintf("Add%d(%s,%s)", life, h.name, on), func() {
				var err error
				switch life {
				case 0:
					err = coll.AddSingleton(h.v, opts...)
				case 1:
					err = coll.AddScoped(h.v, opts...)
				case 2:
					err = coll.AddTransient(h.v, opts...)
				default:
					err = coll.AddModules(godi.NewModule("m", nil, godi.AddScoped(h.v, opts...), nil), nil)
				}
				if err == nil {
					accepted++
				}
				useErr(err)
			})
		}
		check("queries(nil)", func() {
			coll.Contains(nil)
			coll.ContainsKeyed(nil, nil)
			coll.ContainsKeyed(kit.RType(0), nil)
			coll.Remove(nil)
			coll.RemoveKeyed(nil, "a")
			coll.RemoveKeyed(kit.RType(0), keyStruct{})
			_ = coll.AddModules()
			_ = coll.AddModules(nil, nil)
			_ = coll.Count()
			_ = coll.ToSlice()
		})
		var p godi.Provider
		bk := rapid.IntRange(0, 2).Draw(rt, "buildkind")
		check(fmt.Sprintf("Build%d", bk), func() {
			var err error
			switch bk {
			case 0:
				p, err = coll.Build()
			case 1:
				p, err = coll.BuildWithContext(nil) //nolint
			default:
				p, err = coll.BuildWithOptions(nil)
			}
			if err != nil {
				p = nil
			}
			useErr(err)
		})
		var targets []godi.Provider
		if p != nil {
			targets = append(targets, p)
			check("CreateScope(nil)", func() {
				if s, err := p.CreateScope(nil); err == nil { //nolint
					targets = append(targets, s)
					if s2, err := s.CreateScope(nil); err == nil { //nolint
						targets = append(targets, s2)
					}
				}
			})
		}
		if chainMode {
			// pull everything through the argument builders once
			for k, tgt := range targets {
				tgt := tgt
				for _, ty := range []reflect.Type{kit.RType(kit.NumD + 2), kit.RType(kit.NumD + 3), kit.RType(kit.NumD + 4), kit.RType(kit.TI0)} {
					ty := ty
					check(fmt.Sprintf("t%d.sweep(%v)", k, ty), func() {
						use(tgt.Get(ty))
						use(tgt.GetKeyed(ty, "a"))
						use(tgt.GetGroup(ty, "g"))
					})
				}
				check(fmt.Sprintf("t%d.sweep(typed)", k), func() {
					use(godi.Resolve[kit.I0](tgt))
					use(godi.ResolveKeyed[kit.I0](tgt, "a"))
					use(godi.ResolveGroup[kit.I0](tgt, "g"))
				})
			}
		}
		ncalls := rapid.IntRange(0, 12).Draw(rt, "ncalls")
		closedSome := false
		for i := 0; i < ncalls; i++ {
			var tgt godi.Provider
			tn := "nil-provider"
			if len(targets) > 0 && rapid.IntRange(0, 6).Draw(rt, "niltarget") != 0 {
				k := rapid.IntRange(0, len(targets)-1).Draw(rt, "target")
				tgt, tn = targets[k], fmt.Sprintf("t%d", k)
			}
			ty := rapid.SampledFrom(types).Draw(rt, "type")
			key := rapid.SampledFrom(keys).Draw(rt, "key")
			grp := rapid.SampledFrom([]string{"", "g", "`", "nope"}).Draw(rt, "group")
			if ty == nil || key == nil || grp == "" {
				hostileArgs++
			}
			switch c := rapid.IntRange(0, 8).Draw(rt, "call"); c {
			case 0:
				if tgt != nil {
					check(fmt.Sprintf("%s.Get(%v)", tn, ty), func() { use(tgt.Get(ty)) })
				}
			case 1:
				if tgt != nil {
					check(fmt.Sprintf("%s.GetKeyed(%v,%#v)", tn, ty, key), func() { use(tgt.GetKeyed(ty, key)) })
				}
			case 2:
				if tgt != nil {
					check(fmt.Sprintf("%s.GetGroup(%v,%q)", tn, ty, grp), func() { use(tgt.GetGroup(ty, grp)) })
				}
			case 3:
				check(fmt.Sprintf("Resolve*(%s,%#v,%q)", tn, key, grp), func() {
					use(godi.Resolve[*kit.N0](tgt))
					use(godi.Resolve[kit.I0](tgt))
					use(godi.Resolve[int](tgt))
					use(godi.Resolve[context.Context](tgt))
					use(godi.ResolveKeyed[*kit.N0](tgt, key))
					use(godi.ResolveGroup[*kit.N1](tgt, grp))
					use(godi.ResolveGroup[kit.I0](tgt, grp))
				})
			case 4:
				check("FromContext", func() {
					use(godi.FromContext(nil)) //nolint
					use(godi.FromContext(context.Background()))
					use(godi.FromContext(context.WithValue(context.Background(), keyStruct{}, 1)))
				})
			case 5:
				if tgt != nil {
					check(fmt.Sprintf("%s.CreateScope", tn), func() {
						ctx, cancel := context.WithCancel(context.Background())
						cancel()
						if s, err := tgt.CreateScope(ctx); err == nil {
							_ = s.Close()
						}
					})
				}
			case 6:
				if tgt != nil && len(targets) > 1 {
					check(fmt.Sprintf("%s.Close", tn), func() { _ = tgt.Close(); _ = tgt.Close() })
					closedSome = true
				}
			case 7:
				if s, ok := tgt.(godi.Scope); ok && s != nil {
					check(fmt.Sprintf("%s.accessors", tn), func() { _ = s.Context(); _ = s.Provider(); _ = s.ID() })
				}
			case 8:
				check("Must*", func() {
					// the Must helpers panic by contract; only check they panic with a message rather than crash differently
					func() { defer func() { _ = recover() }(); godi.MustResolve[kit.D5](tgt) }()
					func() { defer func() { _ = recover() }(); godi.MustResolveKeyed[kit.D5](tgt, key) }()
					func() { defer func() { _ = recover() }(); godi.MustResolveGroup[kit.D5](tgt, grp) }()
				})
			}
		}
		if p != nil {
			check("provider.Close", func() { _ = p.Close(); _ = p.Close() })
		}
		_ = closedSome
		canon := strings.Join(trace, " ; ")
		col.Case(hostileArgs >= 2 || (accepted > 0 && p != nil), canon, canon, fmt.Sprintf("accepted=%d", min(accepted, 3)), fmt.Sprintf("built=%v", p != nil), fmt.Sprintf("chain=%v", chainMode))
	})
}

// ---------- (b) constructor faults: classification, exposure, retry ----------

type structPanic struct{ A, B int }

func panicValues() []any {
	return []any{"boom", errors.New("boom-error"), 42, structPanic{1, 2}, &structPanic{3, 4}, nil, fmt.Errorf("wrapped: %w", context.Canceled), []int{1}}
}

// classSet lists every named failure class err satisfies (errors.Is/As only).
func classSet(err error) []string {
	var out []string
	if errors.Is(err, godi.ErrServiceNotFound) {
		out = append(out, "not-found")
	}
	if kit.IsDisposed(err) {
		out = append(out, "disposed")
	}
	if _, ok := kit.CircularPath(err); ok {
		out = append(out, "circular")
	}
	var le *godi.LifetimeConflictError
	var lev godi.LifetimeConflictError
	if errors.As(err, &le) || errors.As(err, &lev) {
		out = append(out, "lifetime-conflict")
	}
	if kit.IsAlreadyRegistered(err) {
		out = append(out, "already-registered")
	}
	return out
}

func findPanic(err error) (any, bool) {
	var pe *godi.ConstructorPanicError
	if errors.As(err, &pe) {
		return pe.Panic, true
	}
	var pv godi.ConstructorPanicError
	if errors.As(err, &pv) {
		return pv.Panic, true
	}
	return nil, false
}

func samePanic(got, want any) bool {
	if want == nil {
		// panic(nil) surfaces as *runtime.PanicNilError since Go 1.21
		if got == nil {
			return true
		}
		_, ok := got.(*runtime.PanicNilError)
		return ok
	}
	defer func() { _ = recover() }()
	if reflect.TypeOf(got) != reflect.TypeOf(want) {
		return false
	}
	if reflect.TypeOf(want).Comparable() {
		return got == want
	}
	return reflect.DeepEqual(got, want)
}

// behindOptional: is every path from a requested identity's registration to
// the faulty registration forced through an optional dependency? Approximated
// conservatively: the faulty registration is the target of some optional
// dependency anywhere in the configuration.
func reachableViaOptional(m *kit.Model, faulty int) bool {
	for _, id := range m.Order {
		for _, d := range m.Regs[id].Deps {
			if d.Optional {
				for _, tg := range m.DepTargets(d) {
					if tg.Reg == faulty || regDistance(m, []int{tg.Reg}, faulty) > 0 {
						return true
					}
				}
			}
		}
	}
	return false
}

func TestC15Faults(t *testing.T) {
	col := evid.New("C15", "constructor-faults", "buildable configurations x histories; a dry run lists the constructor invocations, then one invocation (any position: Build, scope creation, resolution; any depth) is made to return a distinct error, panic with an arbitrary value (string, error, int, struct, pointer, nil, slice) or return nil, the failing operation is retried immediately and the history continues to provider close; oracle: no panic escapes, the failing operation returns an error that satisfies errors.Is(injected error) resp. exposes the panic value through errors.As(ConstructorPanicError), Build failures are BuildErrors, the retry succeeds like a first attempt, and the whole run still satisfies the C02 (one instance per scope, nothing re-run) and C10 (everything constructed on the way is disposed exactly once) ledger oracles; non-trivial = fault >=2 levels below the requested service or at an invocation k>=2")
	defer col.Flush()
	pvals := panicValues()
	rapid.Check(t, func(rt *rapid.T) {
		o := kit.FullOpts()
		o.DisposableBias = true
		o.ChainBias = true
		o.MaxRegs = 12
		cfg := kit.GenConfig(rt, o)
		x, err := startRun(cfg, nil)
		if err != nil {
			rt.Fatal(err)
		}
		if x.Build.Err != nil || x.Build.Panic != nil {
			col.Case(false, cfg.String(), nil, "build-failed(not judged here)")
			return
		}
		x.genHistory(rt, histOpts{MaxSteps: 15, MaxDepth: 3, CloseScopes: true})
		invs := x.W.AllInvs()
		if len(invs) == 0 {
			col.Case(false, cfg.String(), nil, "no-constructor-runs")
			return
		}
		// prefer faults deep below the requested service
		depthOf := func(inv *kit.Inv) int {
			if inv.EndSeq <= x.Build.EndSeq {
				return 0
			}
			for i, ob := range x.R.Obs[1:] {
				if inv.StartSeq > ob.StartSeq && inv.EndSeq < ob.EndSeq && i < len(x.Script) && x.Script[i].Kind == "get" {
					id := x.Script[i].Ident
					var starts []int
					if id.Group != "" {
						for _, ow := range x.M.Members(id.T, id.Group) {
							starts = append(starts, ow.Reg)
						}
					} else if ow, ok := x.M.Owner(id); ok {
						starts = []int{ow.Reg}
					}
					return regDistance(x.M, starts, inv.Reg)
				}
			}
			return 0
		}
		var deep []int
		for i, inv := range invs {
			if depthOf(inv) >= 2 {
				deep = append(deep, i)
			}
		}
		k := rapid.IntRange(0, len(invs)-1).Draw(rt, "faultpos")
		if len(deep) > 0 && rapid.IntRange(0, 3).Draw(rt, "deep") != 0 {
			k = rapid.SampledFrom(deep).Draw(rt, "deeppos")
		}
		inv := invs[k]
		reg := x.M.Regs[inv.Reg]
		var flt kit.Fault
		// the constructor's own error may itself wrap something (a typed error around a cause):
		// it is the constructor's error that has to stay reachable, not only the bottom of its chain
		var injected error = fmt.Errorf("injected-error-%d", k)
		if rapid.Bool().Draw(rt, "wrappingError") {
			injected = &wrappingErr{op: fmt.Sprintf("injected-error-%d", k), cause: fmt.Errorf("root cause: %w", context.DeadlineExceeded)}
		}
		switch fk := rapid.IntRange(0, 2).Draw(rt, "faultkind"); {
		case fk == 0 && reg.HasErr:
			flt = kit.Fault{Kind: kit.FaultError, Err: injected}
		case fk == 1 && reg.Form == kit.FormPlain && kit.IsIface(reg.Outs[0].T):
			flt = kit.Fault{Kind: kit.FaultNil}
		default:
			flt = kit.Fault{Kind: kit.FaultPanic, Panic: rapid.SampledFrom(pvals).Draw(rt, "panicval")}
		}
		// which scripted op does the faulty invocation belong to?
		duringBuild := inv.EndSeq <= x.Build.EndSeq
		failingOp := -1
		if !duringBuild {
			// ops and observations are 1:1 for sequential scripts (after the build obs)
			for i, ob := range x.R.Obs[1:] {
				if inv.StartSeq > ob.StartSeq && inv.EndSeq < ob.EndSeq {
					failingOp = i
				}
			}
		}
		script := x.Script
		if failingOp >= 0 && failingOp < len(script) {
			// insert an immediate retry of the failing op (creates are retried too: a new scope)
			ns := append([]Op(nil), script[:failingOp+1]...)
			if script[failingOp].Kind == "get" {
				ns = append(ns, script[failingOp])
			}
			script = append(ns, script[failingOp+1:]...)
		}
		key := [2]int{inv.Reg, inv.N}
		// the clean-up after a failed Build may fail as well (Close methods of what was built so
		// far return errors): the constructor's failure is still what Build has to report
		cleanupFails := duringBuild && rapid.IntRange(0, 2).Draw(rt, "cleanupFails") == 0
		// the failing constructor may be the reason the build's context is done (a dial that gives up
		// at the deadline of the build, a constructor that cancels what it was started under): what
		// it fails with is still what Build reports
		// (not behind an optional dependency: there the failure is swallowed - the known finding - and
		// the build goes on to notice nothing but the cancellation)
		cancelsBuild := duringBuild && flt.Kind != kit.FaultNil && !reachableViaOptional(x.M, inv.Reg) && rapid.IntRange(0, 2).Draw(rt, "cancelsBuild") == 0
		rcfg := cfg
		if cancelsBuild {
			rcfg = kit.CloneConfig(cfg)
			rcfg.BuildMode = 1
		}
		y, err := replay(rcfg, script, func(w *kit.World) {
			w.Faults[key] = flt
			w.CancelBuildOnFault = cancelsBuild
			if cleanupFails {
				regs := map[int]bool{}
				for _, r := range w.Cfg.Regs {
					if r.Form != kit.FormInstance {
						regs[r.ID] = true
					}
				}
				w.CloseFailRegs = regs
			}
		})
		if err != nil {
			rt.Fatal(err)
		}
		depth := 0
		if !duringBuild && failingOp >= 0 && x.Script[failingOp].Kind == "get" {
			// distance between requested registration and faulty one
			id := x.Script[failingOp].Ident
			var starts []int
			if id.Group != "" {
				for _, ow := range x.M.Members(id.T, id.Group) {
					starts = append(starts, ow.Reg)
				}
			} else if ow, ok := x.M.Owner(id); ok {
				starts = []int{ow.Reg}
			}
			depth = regDistance(x.M, starts, inv.Reg)
		}
		where := "resolve"
		if duringBuild {
			where = "build"
		} else if reg.Form == kit.FormVoid || (failingOp >= 0 && x.Script[failingOp].Kind == "create") {
			where = "scope-creation"
		}
		// a constructor that fails is reported - also when the service it was to produce is
		// somebody's optional dependency: optional means "zero when nothing is registered"
		// (C04), not "zero when the registered service cannot be built"
		optional := reachableViaOptional(x.M, inv.Reg)
		labels := []string{"fault-during:" + where, fmt.Sprintf("fault-kind:%d", flt.Kind), fmt.Sprintf("depth:%d", min(depth, 3))}
		if optional {
			labels = append(labels, "fault-behind-optional")
		}
		if cleanupFails {
			labels = append(labels, "clean-up-after-failed-build-fails-too")
		}
		if cancelsBuild {
			labels = append(labels, "failing-constructor-cancels-the-build-context")
		}
		canon := fmt.Sprintf("%s || %s || fault r%d#%d kind %d", rcfg, scriptString(script), inv.Reg, inv.N, flt.Kind)
		if cancelsBuild {
			canon += " (the failing constructor first cancels the context of BuildWithContext)"
		}
		col.Case(depth >= 2 || inv.N >= 2, canon, canon, labels...)

		var f *Failure
		classify := func(what string, e error) *Failure {
			if e == nil {
				sig := where + "/" + fmt.Sprint(flt.Kind)
				if optional {
					sig = "behind-optional/" + sig
				}
				return fail("C15", "reported", sig, "%s succeeded although constructor r%d#%d failed", what, inv.Reg, inv.N)
			}
			if cs := classSet(e); len(cs) > 0 {
				return fail("C15", "distinguishable", where+"/"+strings.Join(cs, "+"), "%s failed because constructor r%d#%d failed, yet the error also classifies as %v: %v", what, inv.Reg, inv.N, cs, firstLine(e))
			}
			switch flt.Kind {
			case kit.FaultError:
				if !errors.Is(e, injected) {
					return fail("C15", "wraps-constructor-error", where, "%s returned %v, which does not wrap the constructor's own error", what, firstLine(e))
				}
			case kit.FaultPanic:
				pv, ok := findPanic(e)
				if !ok {
					return fail("C15", "exposes-panic", where+"/no-typed-error", "%s returned %v: no ConstructorPanicError reachable with errors.As", what, firstLine(e))
				}
				if !samePanic(pv, flt.Panic) {
					return fail("C15", "exposes-panic", where+"/value", "%s exposes panic value %#v, the constructor panicked with %#v", what, pv, flt.Panic)
				}
			}
			return nil
		}
		for _, ob := range y.R.Obs {
			if ob.Panic != nil {
				f = fail("C15", "no-panic", where+"/"+ob.Kind, "%s panicked under a constructor fault: %v", ob.Kind, ob.Panic)
			}
		}
		if f == nil && duringBuild {
			f = classify("Build", y.Build.Err)
			if f == nil && y.Build.Err != nil {
				var be *godi.BuildError
				var bev godi.BuildError
				if !errors.As(y.Build.Err, &be) && !errors.As(y.Build.Err, &bev) {
					f = fail("C15", "build-error", "type", "Build failure is not a BuildError: %T", y.Build.Err)
				}
			}
		} else if f == nil && failingOp >= 0 && len(y.R.Obs) > failingOp+2 {
			fo := y.R.Obs[failingOp+1]
			f = classify(fmt.Sprintf("%s(s%d,%s)", fo.Kind, fo.Scope, fo.Ident), fo.Err)
			if f == nil && x.Script[failingOp].Kind == "get" {
				ro := y.R.Obs[failingOp+2]
				if ro.Err != nil && !(fo.Err == nil) {
					f = fail("C15", "retry", where, "retrying %s(s%d,%s) right after the failure failed again: %v", ro.Kind, ro.Scope, ro.Ident, firstLine(ro.Err))
				}
			}
		}
		if f == nil && y.Build.Err == nil {
			obs, problems := y.observations()
			if f = y.checkC02(obs); f != nil {
				f = fail("C15", "retry-consistent", f.Oracle+"/"+f.Sig, "after the failure and retry: %s", f.Msg)
			}
			// nothing of the failure is remembered: every constructor invoked from the
			// retry on receives all its registered dependencies again, optional ones
			// included (the failed attempt itself may have swallowed an optional one)
			if f == nil && !duringBuild && failingOp >= 0 && len(y.R.Obs) > failingOp+2 {
				from := y.R.Obs[failingOp+2].StartSeq
				for _, p := range problems {
					if p.Inv != nil && p.Inv.StartSeq > from {
						f = fail("C15", "retry-consistent", p.Oracle+"/"+p.Sig, "after the failure and retry: %s", p.Msg)
						break
					}
				}
			}
		}
		if f == nil {
			if g := y.checkC10(y.R.PClosed || y.Build.Err != nil); g != nil {
				f = fail("C15", "partial-state-disposed", g.Oracle+"/"+g.Sig, "after the failure: %s", g.Msg)
			}
		}
		if f != nil {
			if isKnown(f) {
				col.Excluded()
				return
			}
			rt.Fatalf("VIOLATION %s\nconfig: %s\nscript: %s\nfault: r%d invocation #%d (%s), kind %d value %#v", f, cfg, scriptString(script), inv.Reg, inv.N, where, flt.Kind, flt.Panic)
		}
	})
}

// regDistance: length of the shortest dependency path from any start to target (0 if start == target, -1 unreachable -> 0).
func regDistance(m *kit.Model, starts []int, target int) int {
	dist := map[int]int{}
	var q []int
	for _, s := range starts {
		dist[s] = 0
		q = append(q, s)
	}
	for len(q) > 0 {
		u := q[0]
		q = q[1:]
		if u == target {
			return dist[u]
		}
		for _, v := range m.RegEdges(m.Regs[u]) {
			if _, ok := dist[v]; !ok {
				dist[v] = dist[u] + 1
				q = append(q, v)
			}
		}
	}
	return 0
}

// ---------- (c) failure classes stay distinguishable through every wrapper ----------

func TestC15Classes(t *testing.T) {
	col := evid.New("C15", "error-classes", "generated registration sets made defective in exactly one way - a dependency cycle (through plain/keyed/group/optional/parameter-object edges, incl. a service depending on several members of one cycle), a captive dependency, a missing required dependency, or a duplicate registration - registered directly or through 1-4 levels of nested modules; oracle: the error returned by Build (a BuildError) or by the registration (wrapped in ModuleErrors) is classifiable with errors.Is/As as exactly that class: CircularDependencyError, LifetimeConflictError, ErrServiceNotFound, AlreadyRegisteredError; non-trivial = the defect involves >=3 registrations or >=2 wrapper levels")
	defer col.Flush()
	rapid.Check(t, func(rt *rapid.T) {
		cfg := kit.GenConfig(rt, kit.FullOpts())
		want := rapid.SampledFrom([]string{kit.VCircular, kit.VCircular, kit.VLifetime, kit.VMissing, "duplicate"}).Draw(rt, "class")
		switch want {
		case kit.VCircular:
			kit.PlantCycle(rt, cfg)
		case kit.VLifetime:
			kit.PlantCaptive(rt, cfg)
		case kit.VMissing:
			kit.DropRegs(rt, cfg, 30)
		}
		m, err := kit.NewModel(cfg)
		if err != nil {
			rt.Fatal(err)
		}
		classes := defectClasses(m)
		if want != "duplicate" && (len(classes) != 1 || classes[0] != want) {
			col.Case(false, cfg.String(), nil, "generated-other-defect(not judged)")
			return
		}
		if want == "duplicate" && len(classes) != 0 {
			col.Case(false, cfg.String(), nil, "generated-other-defect(not judged)")
			return
		}
		w, _ := kit.NewWorld(cfg)
		coll := godi.NewCollection()
		depth := rapid.IntRange(0, 4).Draw(rt, "moddepth")
		dupAt := -1
		if want == "duplicate" {
			var cands []int
			for i := range cfg.Regs {
				for _, p := range cfg.Regs[i].Provides() {
					if p.Ident.Group == "" {
						cands = append(cands, i)
						break
					}
				}
			}
			if len(cands) == 0 {
				col.Case(false, cfg.String(), nil, "no-duplicable-registration")
				return
			}
			dupAt = rapid.SampledFrom(cands).Draw(rt, "dupAt")
		}
		var regErr error
		add := func(r *kit.Reg) error {
			if depth == 0 {
				return w.Register(coll, r)
			}
			opt := w.ModuleOption(r)
			for d := 0; d < depth; d++ {
				opt = godi.NewModule(fmt.Sprintf("lvl%d", depth-d), opt)
			}
			return coll.AddModules(opt)
		}
		for i := range cfg.Regs {
			if regErr = add(&cfg.Regs[i]); regErr != nil {
				rt.Fatalf("registration of a valid registration failed: %v", regErr)
			}
		}
		var got error
		where := "build"
		if dupAt >= 0 {
			where = "registration"
			got = add(&cfg.Regs[dupAt])
			if got == nil {
				rt.Fatalf("VIOLATION C15/classifiable [duplicate/accepted]: registering %s a second time was accepted\n%s", cfg.Regs[dupAt].String(), cfg)
			}
		} else {
			r := kit.NewRunner(w)
			r.Coll = coll
			o := r.BuildExisting()
			if o.Panic != nil {
				rt.Fatalf("VIOLATION C15/no-panic [build]: %v", o.Panic)
			}
			got = o.Err
			if got == nil {
				r.CloseProvider()
			}
		}
		involved := 0
		switch want {
		case kit.VCircular:
			involved = len(m.CyclicRegs())
		case kit.VLifetime:
			involved = 2
		case kit.VMissing:
			involved = 1
		}
		canon := fmt.Sprintf("%s || class=%s depth=%d", cfg, want, depth)
		col.Case(involved >= 3 || depth >= 2, canon, canon, "class:"+want, fmt.Sprintf("module-depth:%d", depth))
		var f *Failure
		if got == nil {
			f = fail("C15", "classifiable", want+"/accepted", "%s succeeded although the registration set has a %s defect", where, want)
		} else {
			ok := false
			switch want {
			case kit.VCircular:
				ok = kit.Classify(got) == kit.VCircular
			case kit.VLifetime:
				ok = kit.Classify(got) == kit.VLifetime
			case kit.VMissing:
				ok = errors.Is(got, godi.ErrServiceNotFound)
			case "duplicate":
				ok = kit.IsAlreadyRegistered(got)
			}
			if !ok {
				f = fail("C15", "classifiable", want+"/"+where, "the %s error of a %s defect is not classifiable as such with errors.Is/As: %v", where, want, firstLine(got))
			} else if cs := classSet(got); len(cs) != 1 {
				f = fail("C15", "distinguishable", want+"/"+strings.Join(cs, "+"), "the %s error of a %s defect classifies as %v - the classes are not distinguishable: %v", where, want, cs, firstLine(got))
			}
			if f == nil && dupAt < 0 {
				var be *godi.BuildError
				var bev godi.BuildError
				if !errors.As(got, &be) && !errors.As(got, &bev) {
					f = fail("C15", "build-error", "type", "Build failure is not a BuildError: %T", got)
				}
			}
			if f == nil && dupAt >= 0 && depth > 0 {
				var me godi.ModuleError
				if !errors.As(got, &me) {
					f = fail("C15", "classifiable", "duplicate/no-module-error", "registration error through %d module levels carries no ModuleError: %v", depth, firstLine(got))
				}
			}
		}
		if f != nil {
			if isKnown(f) {
				col.Excluded()
				return
			}
			rt.Fatalf("VIOLATION %s\n%s", f, canon)
		}
	})
}

// ---------- known findings of this property: each listed finding's minimal reproduction ----------

type kfDep struct{ n int }
type kfSvc struct{ dep *kfDep }
type kfIn struct {
	godi.In
	Dep *kfDep `optional:"true"`
}

// reproOptionalSwallowsConstructorError: a registered service whose constructor
// fails, behind an optional parameter-object field. Reports whether the
// failure is still swallowed (the consumer is handed out with a nil field and
// no error).
func reproOptionalSwallowsConstructorError() (bool, string) {
	boom := errors.New("constructor failed")
	c := godi.NewCollection()
	if err := c.AddScoped(func() (*kfDep, error) { return nil, boom }); err != nil {
		return false, err.Error()
	}
	if err := c.AddScoped(func(in kfIn) *kfSvc { return &kfSvc{dep: in.Dep} }); err != nil {
		return false, err.Error()
	}
	p, err := c.Build()
	if err != nil {
		return false, err.Error()
	}
	defer p.Close()
	sc, err := p.CreateScope(context.Background())
	if err != nil {
		return false, err.Error()
	}
	defer sc.Close()
	v, err := godi.Resolve[*kfSvc](sc)
	if err == nil && v != nil && v.dep == nil {
		return true, "AddScoped(func() (*Dep, error) { return nil, boom }); AddScoped(func(in struct{ godi.In; Dep *Dep `optional:\"true\"` }) *Svc): Resolve[*Svc] returns a *Svc with a nil Dep and a nil error - the constructor's error is reported by nobody"
	}
	return false, ""
}

var knownRepros = map[string]func() (bool, string){
	"optionalSwallowsConstructorError": reproOptionalSwallowsConstructorError,
}

// TestC15KnownFindings runs the minimal reproduction of every listed finding of
// C15 and prints a KNOWN-FINDING line for those that still fail. A finding
// that no longer reproduces prints nothing (and its exclusion then excludes
// nothing that occurs).
func TestC15KnownFindings(t *testing.T) {
	for _, k := range loadKnown() {
		if k.Property != "C15" {
			continue
		}
		f := knownRepros[k.Repro]
		if f == nil {
			t.Fatalf("known finding %q names no reproduction this harness has", k.Repro)
		}
		if still, what := f(); still {
			fmt.Printf("KNOWN-FINDING: property=C15 %s\n", what)
		}
	}
}

// TestC15ResultObjectWithExtraResults: a constructor that returns a result object, further
// values and an error (func() (Out, *Extra, error)) is accepted at registration. Whatever
// happens to the further values, its error is the constructor's error: reported, wrapped.
func TestC15ResultObjectWithExtraResults(t *testing.T) {
	col := evid.New("C15", "result-object-with-extra-results", "constructors of the shape func(...) (Out, X..., error) with 1-2 named result fields and 0-2 further results between the result object and the error, any lifetime, registered through Add*; the constructor fails (error) on a generated call; the fields are resolved from the provider and a scope; oracle: registration either rejects the shape or - if it accepts it - Build / the resolution during which the constructor failed returns an error that wraps the constructor's own error, and no panic escapes; non-trivial = at least one further result")
	defer col.Flush()
	type extra struct{ n int }
	rapid.Check(t, func(rt *rapid.T) {
		life := rapid.IntRange(0, 2).Draw(rt, "life")
		nextra := rapid.IntRange(0, 2).Draw(rt, "nextra")
		failAt := rapid.IntRange(1, 3).Draw(rt, "failAt")
		ot := reflect.StructOf([]reflect.StructField{
			{Name: "Out", Type: reflect.TypeOf(godi.Out{}), Anonymous: true},
			{Name: "A", Type: reflect.TypeOf(&rkPtr{}), Tag: `name:"xa"`},
		})
		outs := []reflect.Type{ot}
		for i := 0; i < nextra; i++ {
			outs = append(outs, reflect.TypeOf(&extra{}))
		}
		outs = append(outs, reflect.TypeOf((*error)(nil)).Elem())
		boom := fmt.Errorf("constructor-error-of-the-result-object-constructor")
		calls := 0
		ctor := reflect.MakeFunc(reflect.FuncOf(nil, outs, false), func([]reflect.Value) []reflect.Value {
			calls++
			res := make([]reflect.Value, len(outs))
			for i, o := range outs {
				res[i] = reflect.Zero(o)
			}
			v := reflect.New(ot).Elem()
			v.Field(1).Set(reflect.ValueOf(&rkPtr{c: &rkCount{id: calls}}))
			res[0] = v
			if calls == failAt {
				res[len(outs)-1] = reflect.ValueOf(&boom).Elem()
			}
			return res
		}).Interface()
		canon := fmt.Sprintf("%s func() (Out{A `name:\"xa\"`}, %d further results, error), failing on call %d", lifeName(life), nextra, failAt)
		col.Case(nextra > 0, canon, canon)
		coll := godi.NewCollection()
		var err error
		var pv any
		func() {
			defer func() { pv = recover() }()
			switch life {
			case 0:
				err = coll.AddSingleton(ctor)
			case 1:
				err = coll.AddScoped(ctor)
			default:
				err = coll.AddTransient(ctor)
			}
		}()
		if pv != nil {
			rt.Fatalf("VIOLATION C15/no-panic [result-object-with-extra-results/register]: registration panicked: %v\n%s", pv, canon)
		}
		if err != nil {
			return // the shape is refused: fine
		}
		check := func(what string, e error) {
			if calls == failAt && e == nil {
				rt.Fatalf("VIOLATION C15/reported [result-object-with-extra-results]: %s succeeded although the constructor returned an error on that call\n%s", what, canon)
			}
			if calls == failAt && !errors.Is(e, boom) {
				rt.Fatalf("VIOLATION C15/wraps-constructor-error [result-object-with-extra-results]: %s returned %v, which does not wrap the constructor's own error\n%s", what, firstLine(e), canon)
			}
		}
		var p godi.Provider
		func() {
			defer func() { pv = recover() }()
			p, err = coll.Build()
		}()
		if pv != nil {
			rt.Fatalf("VIOLATION C15/no-panic [result-object-with-extra-results/build]: Build panicked: %v\n%s", pv, canon)
		}
		if life == 0 && calls >= 1 {
			check("Build", err)
		}
		if err != nil || p == nil {
			return
		}
		defer p.Close()
		for i := 0; i < 3; i++ {
			sc, serr := p.CreateScope(context.Background())
			if serr != nil {
				break
			}
			before := calls
			var gerr error
			func() {
				defer func() { pv = recover() }()
				_, gerr = sc.GetKeyed(reflect.TypeOf(&rkPtr{}), "xa")
			}()
			if pv != nil {
				rt.Fatalf("VIOLATION C15/no-panic [result-object-with-extra-results/resolve]: GetKeyed panicked: %v\n%s", pv, canon)
			}
			if calls != before {
				check("GetKeyed(*rkPtr, \"xa\")", gerr)
			}
			_ = sc.Close()
		}
	})
}

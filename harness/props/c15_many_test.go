package props

import (
	"context"
	"errors"
	"fmt"
	"testing"

	"verif/evid"

	"github.com/junioryono/godi/v4"
	"pgregory.net/rapid"
)

// "A failed resolution is not cached ... and a retry behaves like a first
// attempt" has no count attached: a service that has been failing for a long
// time (a dependency that is down) and recovers is resolved like any other, and
// what failed in the meantime has left nothing behind in the scope.

type mfFlaky struct{ n int }
type mfOther struct{ n int }
type mfUser struct{ f *mfFlaky }

var errMfDown = errors.New("backend is down")

func TestC15ManyFailures(t *testing.T) {
	col := evid.New("C15", "long-failing-then-recovering", "a scoped or transient constructor (optionally behind a dependent service) that fails N times in a row - N from 1 to several thousand, by returning an error or by panicking - and then succeeds, resolved again and again on the provider, one scope or a nested scope, with resolutions of an unrelated transient service in between; oracle: every failed attempt reports the constructor's own error (errors.Is) or panic value, never anything else; the first attempt after the recovery succeeds like a first attempt (one constructor run, a proper instance), the unrelated service is never affected, and the scope closes without error; non-trivial = N >= 100")
	defer col.Flush()
	rapid.Check(t, func(rt *rapid.T) {
		n := rapid.SampledFrom([]int{1, 2, 7, 100, 1000, 4096, 4097, 5000, 9000}).Draw(rt, "failures")
		life := rapid.IntRange(1, 2).Draw(rt, "life") // 1 scoped, 2 transient
		panics := rapid.Bool().Draw(rt, "panics")
		via := rapid.Bool().Draw(rt, "viaDependent")
		depth := rapid.IntRange(0, 2).Draw(rt, "depth")
		calls, others := 0, 0
		flaky := func() (*mfFlaky, error) {
			calls++
			if calls <= n {
				if panics {
					panic(fmt.Sprintf("down %d", calls))
				}
				return nil, fmt.Errorf("attempt %d: %w", calls, errMfDown)
			}
			return &mfFlaky{calls}, nil
		}
		coll := godi.NewCollection()
		add := coll.AddScoped
		if life == 2 {
			add = coll.AddTransient
		}
		if err := add(flaky); err != nil {
			rt.Fatal(err)
		}
		if err := coll.AddTransient(func() *mfOther { others++; return &mfOther{others} }); err != nil {
			rt.Fatal(err)
		}
		if err := add(func(f *mfFlaky) *mfUser { return &mfUser{f} }); err != nil {
			rt.Fatal(err)
		}
		p, err := coll.Build()
		if err != nil {
			rt.Fatalf("VIOLATION C15/retry [build]: Build failed although nothing is constructed eagerly: %v", err)
		}
		defer p.Close()
		var tgt godi.Provider = p
		var scopes []godi.Scope
		for i := 0; i < depth; i++ {
			s, err := tgt.CreateScope(context.Background())
			if err != nil {
				rt.Fatalf("CreateScope: %v", err)
			}
			scopes = append(scopes, s)
			tgt = s
		}
		canon := fmt.Sprintf("failures=%d life=%s panics=%v viaDependent=%v depth=%d", n, lifeName(life), panics, via, depth)
		col.Case(n >= 100, canon, canon, fmt.Sprintf("failures>=%d", map[bool]int{true: 100, false: 1}[n >= 100]))
		resolve := func() (any, error) {
			if via {
				return godi.Resolve[*mfUser](tgt)
			}
			return godi.Resolve[*mfFlaky](tgt)
		}
		for i := 1; i <= n; i++ {
			v, err := resolve()
			if err == nil {
				rt.Fatalf("VIOLATION C15/reported [long-failing]: attempt %d of %d returned %v and no error although the constructor failed\n%s", i, n, v, canon)
			}
			if calls != i {
				rt.Fatalf("VIOLATION C15/retry [long-failing/not-run]: attempt %d: the constructor has run %d times - a retry runs it again (error: %v)\n%s", i, calls, firstLine(err), canon)
			}
			if panics {
				if pv, ok := findPanic(err); !ok || !samePanic(pv, fmt.Sprintf("down %d", i)) {
					rt.Fatalf("VIOLATION C15/reported [long-failing/panic-value]: attempt %d: the error does not expose the panic value: %v\n%s", i, firstLine(err), canon)
				}
			} else if !errors.Is(err, errMfDown) {
				rt.Fatalf("VIOLATION C15/reported [long-failing/own-error]: attempt %d: the error does not wrap the constructor's own error: %v\n%s", i, firstLine(err), canon)
			}
			if cs := classSet(err); len(cs) > 0 {
				rt.Fatalf("VIOLATION C15/classes [long-failing]: attempt %d: a constructor failure is classified as %v: %v\n%s", i, cs, firstLine(err), canon)
			}
			if i%97 == 0 || i == n {
				if o, err := godi.Resolve[*mfOther](tgt); err != nil || o == nil {
					rt.Fatalf("VIOLATION C15/retry [long-failing/bystander]: after %d failed attempts an unrelated transient service does not resolve: %v\n%s", i, firstLine(err), canon)
				}
			}
		}
		v, err := resolve()
		if err != nil || v == nil {
			rt.Fatalf("VIOLATION C15/retry [long-failing/recovery]: after %d failed attempts the constructor succeeds, the resolution does not: %v\n%s", n, firstLine(err), canon)
		}
		if calls != n+1 {
			rt.Fatalf("VIOLATION C15/retry [long-failing/recovery-count]: the recovering attempt ran the constructor %d times\n%s", calls-n, canon)
		}
		if o, err := godi.Resolve[*mfOther](tgt); err != nil || o == nil {
			rt.Fatalf("VIOLATION C15/retry [long-failing/bystander]: after the recovery an unrelated transient service does not resolve: %v\n%s", firstLine(err), canon)
		}
		for i := len(scopes) - 1; i >= 0; i-- {
			if err := scopes[i].Close(); err != nil {
				rt.Fatalf("VIOLATION C15/retry [long-failing/close]: closing the scope failed: %v\n%s", err, canon)
			}
		}
	})
}

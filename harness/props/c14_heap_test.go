package props

import (
	"context"
	"errors"
	"fmt"
	"runtime"
	"testing"
	"time"

	"verif/evid"

	"github.com/junioryono/godi/v4"
	"pgregory.net/rapid"
)

// TestC14HeapBounded: "an unbounded sequence of create-use-close cycles therefore
// runs in bounded memory". Reachability of scopes and instances is the business
// of the other parts; what is left is book-keeping that is not an object of the
// user's: measured as live heap after GC, per cycle, over tens of thousands of
// cycles - each on a goroutine of its own, as a server runs them, or closed by
// cancelling the context (the closing goroutine is then godi's, a new one per
// scope). The bound is generous: 64 bytes per cycle, where the unchanged library
// stays below 5 and one leaked map entry per cycle costs more than 100; a
// measurement above the bound is repeated once and has to persist.

type hbSvc struct{ buf [16]byte }

func (*hbSvc) Close() error { return nil }

func TestC14HeapBounded(t *testing.T) {
	col := evid.New("C14", "live-heap-per-cycle", "20 000-40 000 create-resolve-close cycles against one provider, each cycle on a goroutine of its own, closed by cancelling the scope's context, or all on one goroutine; with or without a nested scope; live heap (runtime.ReadMemStats after two GCs, goroutines back at the baseline) before and after, following 2 000 warm-up cycles; oracle: growth of at most 64 bytes per cycle (repeated once before it counts); non-trivial = cycles on fresh goroutines or closed by cancellation")
	defer col.Flush()
	rapid.Check(t, func(rt *rapid.T) {
		mode := rapid.SampledFrom([]string{"fresh-goroutine", "fresh-goroutine", "context-cancel", "same-goroutine"}).Draw(rt, "mode")
		nested := rapid.Bool().Draw(rt, "nested")
		n := rapid.SampledFrom([]int{20000, 40000}).Draw(rt, "cycles")
		canon := fmt.Sprintf("mode=%s nested=%v cycles=%d", mode, nested, n)
		coll := godi.NewCollection()
		if err := coll.AddScoped(func() *hbSvc { return &hbSvc{} }); err != nil {
			rt.Fatal(err)
		}
		if err := coll.AddScoped(func(*hbSvc) {}); err != nil {
			rt.Fatal(err)
		}
		p, err := coll.Build()
		if err != nil {
			rt.Fatal(err)
		}
		defer p.Close()
		cycle := func() {
			ctx, cancel := context.WithCancel(context.Background())
			defer cancel()
			s, err := p.CreateScope(ctx)
			if err != nil {
				panic(err)
			}
			var tgt godi.Scope = s
			if nested {
				if c, err := s.CreateScope(nil); err == nil { //nolint
					tgt = c
				}
			}
			_, _ = godi.Resolve[*hbSvc](tgt)
			if mode == "context-cancel" {
				cancel()
				<-s.Context().Done()
				for i := 0; i < 1000000; i++ {
					if _, err := s.Get(nil); errors.Is(err, godi.ErrScopeDisposed) {
						break
					}
					runtime.Gosched()
				}
				_ = s.Close() // (waits for the watcher's close to finish)
				return
			}
			_ = s.Close()
		}
		run := func(k int) {
			for i := 0; i < k; i++ {
				if mode == "fresh-goroutine" {
					done := make(chan struct{})
					go func() { defer close(done); cycle() }()
					<-done
				} else {
					cycle()
				}
			}
		}
		live := func(base int) uint64 {
			deadline := time.Now().Add(5 * time.Second)
			for runtime.NumGoroutine() > base && time.Now().Before(deadline) {
				time.Sleep(time.Millisecond)
			}
			runtime.GC()
			runtime.GC()
			var ms runtime.MemStats
			runtime.ReadMemStats(&ms)
			return ms.HeapAlloc
		}
		run(2000)
		base := runtime.NumGoroutine()
		measure := func() float64 {
			before := live(base)
			run(n)
			after := live(base)
			if after <= before {
				return 0
			}
			return float64(after-before) / float64(n)
		}
		per := measure()
		if per > 64 {
			per2 := measure()
			if per2 < per {
				per = per2
			}
		}
		col.Case(mode != "same-goroutine", canon, canon, "mode="+mode)
		if per > 64 {
			rt.Fatalf("VIOLATION C14/bounded-memory [%s]: the live heap grows by %.1f bytes per create-resolve-close cycle (measured twice over %d cycles, after GC, goroutines back at the baseline)\n%s", mode, per, n, canon)
		}
	})
}

package props

import (
	"fmt"
	"runtime/debug"
	"strings"
	"testing"
	"time"

	"verif/evid"
	"verif/kit"

	"pgregory.net/rapid"
)

func init() { debug.SetMaxStack(64 << 20) }

// validateCyclePath checks that the path reported by Build is a closed walk of
// real dependencies of the model (group placeholder nodes are transparent).
func validateCyclePath(m *kit.Model, err error) *Failure {
	ce, ok := kit.CircularPath(err)
	if !ok {
		return fail("C05", "cycle-path", "no-typed-error", "error is not a CircularDependencyError")
	}
	if len(ce.Path) == 0 {
		return fail("C05", "cycle-path", "empty", "reported cycle path is empty")
	}
	var regs []int
	for _, n := range ce.Path {
		reg, isGroup, e := m.NodeOwner(n.Type, n.Key, n.Group)
		if e != nil {
			return fail("C05", "cycle-path", "unknown-node", "reported path contains %v: %v", n, e)
		}
		if isGroup {
			continue
		}
		regs = append(regs, reg)
	}
	if len(regs) == 0 {
		return fail("C05", "cycle-path", "only-group-nodes", "reported path has no service node: %v", ce.Path)
	}
	// closed walk: last == first (explicitly repeated) or closing edge exists
	if len(regs) >= 2 && regs[0] == regs[len(regs)-1] {
		regs = regs[:len(regs)-1]
	}
	for i := range regs {
		u, v := regs[i], regs[(i+1)%len(regs)]
		if !m.IsRegEdge(u, v) {
			return fail("C05", "cycle-path", "not-an-edge", "reported path %v maps to registrations %v, but r%d does not depend on r%d", ce.Path, regs, u, v)
		}
	}
	return nil
}

func edgeKindsOnCycles(m *kit.Model) []string {
	on := m.CyclicRegs()
	set := map[string]bool{}
	for id := range on {
		r := m.Regs[id]
		for _, d := range r.Deps {
			for _, tg := range m.DepTargets(d) {
				if on[tg.Reg] {
					k := "plain"
					switch {
					case d.Group != "":
						k = "group"
					case d.Key != "":
						k = "keyed"
					case r.UseIn:
						k = "in-field"
					}
					if d.Optional {
						k += "+optional"
					}
					set["cycle-edge:"+k] = true
				}
			}
		}
	}
	return sortedKeys(set)
}

// resolveEverything resolves every registered identity from the provider and
// from a fresh scope; returning at all is the termination oracle.
func (x *run) resolveEverything() (*kit.ScopeRec, []*kit.Obs) {
	if x.EditAfterBuild {
		// the collection goes on living after Build: every group gets one more (scoped) member, every
		// other identity is removed. The provider was validated against what was registered when it
		// was built, and that is all it may ever see.
		x.EditAfterBuild = false
		var edits []kit.CollEdit
		for _, id := range x.M.AllIdents() {
			if id.Group != "" {
				edits = append(edits, kit.CollEdit{Ident: id, Life: kit.Scoped})
			}
		}
		x.R.EditCollection(edits)
	}
	rec, co := x.R.CreateScope(0, 1)
	var obs []*kit.Obs
	obs = append(obs, co)
	if !rec.Created {
		return rec, obs
	}
	for _, id := range x.M.AllIdents() {
		obs = append(obs, x.R.Resolve(rec.Tag, id))
		obs = append(obs, x.R.Resolve(0, id))
	}
	return rec, obs
}

func TestC05Container(t *testing.T) {
	col := evid.New("C05", "container", "buildable configurations (all forms and lifetimes) with 0-3 extra dependencies planted between arbitrary registrations through plain, keyed, group, optional and parameter-object edges (cycles incl. self-dependencies arise; the un-planted twin is acyclic); oracle: Build error is circular <=> reference reg-level digraph (groups expanded to members) has a cycle, reported path validated against the model, acyclic+built => every identity resolves from a fresh scope and returns; non-trivial = cycle through a group/keyed/parameter-object edge, or the acyclic twin of a planted case")
	defer col.Flush()
	rapid.Check(t, func(rt *rapid.T) {
		cfg := kit.GenConfig(rt, kit.FullOpts())
		nplant := rapid.IntRange(0, 3).Draw(rt, "nplant")
		planted := kit.PlantDeps(rt, cfg, nplant, true)
		if rapid.IntRange(0, 2).Draw(rt, "plantcycle") == 0 && kit.PlantCycle(rt, cfg) {
			planted = append(planted, "cycle(+shared parent)")
		}
		m, err := kit.NewModel(cfg)
		if err != nil {
			rt.Fatalf("invalid config: %v", err)
		}
		cyc := m.Cyclic()
		labels := append(configLabels(cfg), fmt.Sprintf("cyclic=%v", cyc))
		kinds := edgeKindsOnCycles(m)
		labels = append(labels, kinds...)
		nt := (!cyc && len(planted) > 0)
		for _, k := range kinds {
			if k != "cycle-edge:plain" {
				nt = true
			}
		}
		canon := cfg.String()
		// write the case down first: an undetected cycle may crash the process with a stack overflow
		x, err := startRun(cfg, nil)
		if err != nil {
			rt.Fatal(err)
		}
		col.Case(nt, canon, canon+" planted="+strings.Join(planted, ","), labels...)
		if x.Build.Panic != nil {
			rt.Fatalf("VIOLATION C05/no-panic: Build panicked: %v\n%s", x.Build.Panic, canon)
		}
		if x.Build.Kind == "register" {
			rt.Fatalf("registration of generated config failed: %v\n%s", x.Build.Err, canon)
		}
		gotCirc := kit.Classify(x.Build.Err) == kit.VCircular
		var f *Failure
		switch {
		case cyc && !gotCirc:
			f = fail("C05", "exact", "missed/"+strings.Join(kinds, ","), "model has a dependency cycle through %v but Build returned %v", keysOf(m.CyclicRegs()), firstLine(x.Build.Err))
		case !cyc && gotCirc:
			f = fail("C05", "exact", "false-positive", "model is acyclic but Build reported a circular dependency: %v", firstLine(x.Build.Err))
		case cyc && gotCirc:
			f = validateCyclePath(m, x.Build.Err)
		case x.Build.Err == nil:
			// the graph that was found acyclic is the one of the registrations at Build: members that
			// join a group of the collection later are not part of what this provider resolves
			x.EditAfterBuild = true
			_, obs := x.resolveEverything()
			for _, o := range obs {
				if o.Panic != nil {
					f = fail("C05", "terminates", "panic", "%s(s%d,%s) panicked: %v", o.Kind, o.Scope, o.Ident, o.Panic)
				}
			}
			if a := x.W.Anomalies(); f == nil && len(a) > 0 {
				f = fail("C05", "terminates", "not-part-of-the-validated-graph", "%s", a[0])
			}
			if f == nil {
				f = x.failThenRetry(rt)
			}
			x.R.CloseProvider()
		}
		if f != nil {
			if isKnown(f) {
				col.Excluded()
				return
			}
			rt.Fatalf("VIOLATION %s\nconfig: %s\nplanted: %v", f, canon, planted)
		}
	})
}

// failThenRetry: termination is promised for every resolution on the built provider, the
// one after a failure too. In a fresh scope the next construction of some scoped or
// transient service is made to fail; the identities it provides are then resolved twice
// more (the second time from another goroutine), each call bounded by 10 s.
func (x *run) failThenRetry(rt *rapid.T) *Failure {
	var cands []*kit.Reg
	for _, id := range x.M.Order {
		if r := x.M.Regs[id]; r.Life != kit.Singleton && r.Form != kit.FormInstance && r.Form != kit.FormVoid && len(r.Provides()) > 0 {
			cands = append(cands, r)
		}
	}
	if len(cands) == 0 {
		return nil
	}
	r := rapid.SampledFrom(cands).Draw(rt, "failingReg")
	rec, co := x.R.CreateScope(0, 1)
	if co.Err != nil || !rec.Created {
		return nil
	}
	x.W.SetFaultNext(r.ID, faultFor(r, rapid.IntRange(0, 2).Draw(rt, "failKind")))
	for attempt := 0; attempt < 3; attempt++ {
		for _, p := range r.Provides() {
			id := p.Ident
			done := make(chan struct{})
			go func() {
				defer close(done)
				x.R.Resolve(rec.Tag, id)
			}()
			if !kit.WaitOrTimeout(done, 10*time.Second) {
				return fail("C05", "terminates", "after-failure", "get(s%d,%s) has not returned after 10 s; an earlier construction of r%d in that scope had been made to fail (attempt %d)", rec.Tag, id, r.ID, attempt)
			}
		}
	}
	for _, o := range x.R.Obs {
		if o.Panic != nil {
			return fail("C05", "terminates", "panic", "%s(s%d,%s) panicked: %v", o.Kind, o.Scope, o.Ident, o.Panic)
		}
	}
	return nil
}

func keysOf(m map[int]bool) []int {
	var out []int
	for k := range m {
		out = append(out, k)
	}
	return kit.SortedInts(out)
}

// ---------- C06 (container half) ----------

// groupPreservingPerm returns a random permutation of registration positions
// that keeps the relative order of members inside every group.
func groupPreservingPerm(rt *rapid.T, cfg *kit.Config) []int {
	n := len(cfg.Regs)
	// constraint edges i -> j (i must stay before j) for consecutive members of a group
	after := make([][]int, n)
	indeg := make([]int, n)
	last := map[string]int{}
	for i := range cfg.Regs {
		seenG := map[string]bool{}
		for _, p := range cfg.Regs[i].Provides() {
			if p.Ident.Group == "" {
				continue
			}
			k := fmt.Sprintf("%d/%s", p.Ident.T, p.Ident.Group)
			if seenG[k] {
				continue
			}
			seenG[k] = true
			if j, ok := last[k]; ok {
				after[j] = append(after[j], i)
				indeg[i]++
			}
			last[k] = i
		}
	}
	// a registration that registers again what another one registered and removed stays behind it
	for i := range cfg.Regs {
		for _, before := range cfg.Regs[i].After {
			for j := range cfg.Regs {
				if cfg.Regs[j].ID == before {
					after[j] = append(after[j], i)
					indeg[i]++
				}
			}
		}
	}
	var avail, out []int
	for i := 0; i < n; i++ {
		if indeg[i] == 0 {
			avail = append(avail, i)
		}
	}
	for len(avail) > 0 {
		k := rapid.IntRange(0, len(avail)-1).Draw(rt, "perm")
		v := avail[k]
		avail = append(avail[:k], avail[k+1:]...)
		out = append(out, v)
		for _, w := range after[v] {
			indeg[w]--
			if indeg[w] == 0 {
				avail = append(avail, w)
			}
		}
	}
	return out
}

// canonGraph renders the object graph reachable from all identities resolved
// on the provider and on one fresh scope, up to renaming of instances.
func (x *run) canonGraph() (string, *Failure) {
	_, obs := x.resolveEverything()
	num := map[*kit.Entry]int{}
	var sb strings.Builder
	var render func(e *kit.Entry)
	render = func(e *kit.Entry) {
		if e == nil {
			sb.WriteString("nil")
			return
		}
		if k, ok := num[e]; ok {
			fmt.Fprintf(&sb, "@%d", k)
			return
		}
		num[e] = len(num)
		fmt.Fprintf(&sb, "r%d.%d", e.Reg, e.Out)
		if e.Inv == nil {
			return
		}
		sb.WriteString("(")
		for i, a := range e.Inv.Args {
			if i > 0 {
				sb.WriteString(",")
			}
			switch {
			case a.Dep.Builtin != 0:
				fmt.Fprintf(&sb, "b%d:%v", a.Dep.Builtin, a.Present)
			case a.Dep.Group != "":
				sb.WriteString("[")
				for j, m := range a.Entries {
					if j > 0 {
						sb.WriteString(" ")
					}
					render(m)
				}
				sb.WriteString("]")
			case !a.Present:
				sb.WriteString("-")
			case len(a.Entries) == 0:
				sb.WriteString("void") // a dependency on a named initializer: no instance
			default:
				render(a.Entries[0])
			}
		}
		sb.WriteString(")")
	}
	for _, o := range obs {
		if o.Kind != "resolve" {
			continue
		}
		fmt.Fprintf(&sb, "%s@s%d=", o.Ident, min(o.Scope, 1))
		if o.Err != nil || o.Panic != nil {
			fmt.Fprintf(&sb, "ERR(%s);", kit.Classify(o.Err))
			continue
		}
		for _, e := range o.Entries {
			render(e)
			sb.WriteString(" ")
		}
		sb.WriteString(";")
	}
	// the wiring is a function of the set of registrations: every identity is served, and every
	// argument filled, by the registration that owns it - not by whoever was constructed first
	if sobs, problems := x.observations(); true {
		if f := x.checkC04(sobs, problems); f != nil && f.Oracle == "right-constructor" {
			return "", fail("C06", "wiring-by-registrations", f.Sig, "%s", f.Msg)
		}
	}
	// a singleton that depends (by name) on a singleton function without results starts after that function has run
	for _, inv := range x.W.AllInvs() {
		r := x.M.Regs[inv.Reg]
		if r == nil || r.Life != kit.Singleton {
			continue
		}
		for _, d := range r.Deps {
			if d.T != kit.TVoid || d.Key == "" {
				continue
			}
			for _, tg := range x.M.DepTargets(d) {
				if x.M.Regs[tg.Reg].Life != kit.Singleton {
					continue
				}
				ran := false
				for _, vi := range x.W.AllInvs() {
					if vi.Reg == tg.Reg && vi.Outcome == 1 && vi.EndSeq != 0 && vi.EndSeq < inv.StartSeq {
						ran = true
					}
				}
				if !ran {
					return "", fail("C06", "deps-first", "function-by-name", "singleton r%d started (seq %d) before the singleton function r%d it depends on by name had run", inv.Reg, inv.StartSeq, tg.Reg)
				}
			}
		}
	}
	// every singleton's singleton arguments were fully constructed before it started
	for _, inv := range x.W.AllInvs() {
		if x.M.Regs[inv.Reg].Life != kit.Singleton {
			continue
		}
		for _, a := range inv.Args {
			for _, e := range a.Entries {
				if e == nil || e.Inv == nil {
					continue
				}
				if x.M.Regs[e.Reg].Life == kit.Singleton && (e.BornSeq == 0 || e.BornSeq > inv.StartSeq) {
					return "", fail("C06", "deps-first", depVia(a.Dep), "singleton r%d started (seq %d) before its dependency %v was fully constructed (seq %d)", inv.Reg, inv.StartSeq, e, e.BornSeq)
				}
			}
		}
	}
	return sb.String(), nil
}

func depVia(d kit.DepSpec) string {
	switch {
	case d.Group != "":
		return "group"
	case d.Key != "":
		return "keyed"
	}
	return "plain"
}

func defectClasses(m *kit.Model) []string {
	var c []string
	if m.Cyclic() {
		c = append(c, kit.VCircular)
	}
	if len(m.LifetimeConflicts()) > 0 {
		c = append(c, kit.VLifetime)
	}
	if len(m.Missing()) > 0 {
		c = append(c, kit.VMissing)
	}
	return c
}

func TestC06Container(t *testing.T) {
	M, N := 3, 4
	if thorough() {
		M, N = 6, 8
	}
	col := evid.New("C06", "container-permute-rebuild", fmt.Sprintf("configurations (buildable, or made defective by planting 0-2 extra dependencies / dropping providers) registered in %d random permutations that keep intra-group order, each built %d times in fresh worlds (fresh maps, fresh iteration order); oracle: identical verdict class everywhere (and equal to the model's when exactly one defect class is present), identical canonical object graph for successful builds, every singleton's singleton dependencies fully constructed before it starts; non-trivial = a singleton consumes a group whose members have dependencies, or dependency depth >=3, or unbuildable for a reason involving >=2 registrations", M, N))
	defer col.Flush()
	rapid.Check(t, func(rt *rapid.T) {
		gopts := kit.FullOpts()
		// in a third of the cases every multi-output registration that allows it has one of its
		// identities removed and registered again by somebody else (a mock replaces one service of
		// a package): which of the two is wired where must not depend on who is constructed first
		gopts.ReplaceBias = rapid.IntRange(0, 2).Draw(rt, "replaceBias") == 0
		cfg := kit.GenConfig(rt, gopts)
		mode := rapid.IntRange(0, 3).Draw(rt, "mode")
		var planted []string
		var dropped []int
		switch mode {
		case 1:
			planted = kit.PlantDeps(rt, cfg, rapid.IntRange(1, 2).Draw(rt, "nplant"), true)
		case 2:
			dropped = kit.DropRegs(rt, cfg, 20)
		}
		if mode == 0 && rapid.IntRange(0, 3).Draw(rt, "voidChain") == 0 && kit.PlantVoidChain(rt, cfg) {
			planted = append(planted, "singleton-function-in-a-dependency-chain")
		}
		m, err := kit.NewModel(cfg)
		if err != nil {
			rt.Fatalf("invalid config: %v", err)
		}
		classes := defectClasses(m)
		nt := len(classes) > 0
		for _, id := range m.Order {
			r := m.Regs[id]
			if !m.Cyclic() && m.Depth(id) >= 3 {
				nt = true
			}
			if r.Life == kit.Singleton && !m.Cyclic() {
				for _, d := range r.Deps {
					if d.Group != "" {
						for _, tg := range m.DepTargets(d) {
							if len(m.Regs[tg.Reg].Deps) > 0 {
								nt = true
							}
						}
					}
				}
			}
		}
		canon := cfg.String()
		labels := append(configLabels(cfg), "defects="+strings.Join(classes, "+"))
		// now and then the caller's context is cancelled from inside Build - by a singleton's constructor
		// once it has done its work: whatever Build makes of a cancellation at that point (the
		// statement does not say), it is one verdict for the set of registrations
		var cancelReg *int
		if len(classes) == 0 && rapid.IntRange(0, 3).Draw(rt, "cancelDuringBuild") == 0 {
			var cands []int
			for _, id := range m.Order {
				if r := m.Regs[id]; r.Life == kit.Singleton && r.Form != kit.FormInstance && r.Kind == kit.KindMakeFunc {
					cands = append(cands, id)
				}
			}
			if len(cands) > 0 {
				id := rapid.SampledFrom(cands).Draw(rt, "cancelReg")
				cancelReg = &id
				cfg.BuildMode = 1
				canon += fmt.Sprintf(" [the constructor of r%d cancels the context of BuildWithContext]", id)
				labels = append(labels, "build-cancelled-by-a-constructor")
			}
		}
		col.Case(nt, canon, fmt.Sprintf("%s planted=%v dropped=%v", canon, planted, dropped), labels...)
		var refVerdict, refGraph, refOrder string
		for pi := 0; pi < M; pi++ {
			var order []int
			if pi > 0 {
				order = groupPreservingPerm(rt, cfg)
			}
			for bi := 0; bi < N; bi++ {
				x, err := startRunWith(kit.CloneConfig(cfg), order, func(w *kit.World) { w.CancelBuildReg = cancelReg })
				if err != nil {
					rt.Fatal(err)
				}
				if x.Build.Panic != nil {
					rt.Fatalf("VIOLATION C06/no-panic: Build panicked: %v\n%s", x.Build.Panic, canon)
				}
				if x.Build.Kind == "register" {
					rt.Fatalf("registration failed: %v\n%s", x.Build.Err, canon)
				}
				verdict := kit.Classify(x.Build.Err)
				graph := ""
				var f *Failure
				if x.Build.Err == nil {
					graph, f = x.canonGraph()
					x.R.CloseProvider()
				}
				here := fmt.Sprintf("permutation %d %v build %d", pi, order, bi)
				if f == nil && pi == 0 && bi == 0 {
					refVerdict, refGraph, refOrder = verdict, graph, here
					if len(classes) == 1 && verdict != classes[0] {
						f = fail("C06", "verdict-model", classes[0]+"->"+verdict, "model says the only defect is %q but Build returned %s (%v)", classes[0], verdict, firstLine(x.Build.Err))
					}
					if len(classes) == 0 && verdict != kit.VOK && cancelReg == nil {
						f = fail("C06", "verdict-model", "ok->"+verdict, "model says buildable but Build returned %v", firstLine(x.Build.Err))
					}
				} else if f == nil && verdict != refVerdict {
					f = fail("C06", "verdict-stable", refVerdict+"/"+verdict, "verdict %s at %s, but %s at %s (%v)", refVerdict, refOrder, verdict, here, firstLine(x.Build.Err))
				} else if f == nil && graph != refGraph {
					f = fail("C06", "graph-stable", "differs", "object graph differs between %s and %s:\n  %s\n  %s", refOrder, here, refGraph, graph)
				}
				if f != nil {
					if isKnown(f) {
						col.Excluded()
						return
					}
					rt.Fatalf("VIOLATION %s\nconfig: %s\nplanted=%v dropped=%v", f, canon, planted, dropped)
				}
			}
		}
	})
}

// ---------- C07 ----------

// c07Config builds n services 0..n-1 where i depends on j for each edge
// (i<j), every dependency declared through the given form.
//
//	form 0 plain parameter, 1 keyed (parameter object), 2 group, 3 parameter-object field, 4 interface alias
func c07Config(n int, lifes []int, edges [][2]int, form func(e int) int) *kit.Config {
	cfg := &kit.Config{}
	// how each service is provided depends on how it is consumed; a service
	// consumed through several forms is provided under the union of identities
	// via separate registrations is not possible, so per-target form = form of
	// its first incoming edge (uniform runs use one form for all).
	provForm := make([]int, n)
	for i := range provForm {
		provForm[i] = -1
	}
	for ei, e := range edges {
		if provForm[e[1]] < 0 {
			provForm[e[1]] = form(ei)
		}
	}
	for i := 0; i < n; i++ {
		r := kit.Reg{ID: i, Life: lifes[i], Form: kit.FormPlain, Outs: []kit.OutSpec{{T: i, Impl: i}}}
		switch provForm[i] {
		case 1:
			r.Name = "k"
		case 2:
			r.Group = "g"
		case 4:
			r.As = []int{kit.TI0 + i}
		}
		for _, e := range edges {
			if e[0] != i {
				continue
			}
			j := e[1]
			d := kit.DepSpec{T: j}
			switch provForm[j] {
			case 1:
				d.Key = "k"
				r.UseIn = true
			case 2:
				d.Group = "g"
				r.UseIn = true
			case 3:
				r.UseIn = true
			case 4:
				d.T = kit.TI0 + j
			}
			r.Deps = append(r.Deps, d)
		}
		cfg.Regs = append(cfg.Regs, r)
	}
	return cfg
}

// checkC07 runs one configuration through both directions of the property.
func checkC07(cfg *kit.Config) (*Failure, bool) {
	x, err := startRun(cfg, nil)
	if err != nil {
		return fail("C07", "harness", "config", "%v", err), false
	}
	m := x.M
	conflicts := m.LifetimeConflicts()
	if x.Build.Panic != nil {
		return fail("C07", "no-panic", "build", "Build panicked: %v", x.Build.Panic), false
	}
	verdict := kit.Classify(x.Build.Err)
	if cfg.LateDuringBuild && cfg.PreBuild > 0 {
		// which registrations the Build saw is not known: a provider, if there is one, is judged by
		// what its long-lived services hold
		if x.Build.Err != nil {
			return nil, len(conflicts) > 0
		}
		x.resolveEverything()
		x.resolveEverything()
		var f *Failure
		for _, a := range x.W.Anomalies() {
			if strings.Contains(a, "while Build was under way") {
				f = fail("C07", "no-hang", "add-during-build", "%s", a)
			}
		}
		for _, inv := range x.W.AllInvs() {
			if m.Regs[inv.Reg].Life == kit.Scoped {
				continue
			}
			for _, a := range inv.Args {
				for _, e := range a.Entries {
					if e != nil && m.Regs[e.Reg].Life == kit.Scoped {
						f = fail("C07", "holds-no-scoped", "registered-during-build/"+lifeName(m.Regs[inv.Reg].Life)+"/"+depVia(a.Dep), "Build returned a provider in which %s r%d was constructed with %v, an instance of scoped r%d (registered while Build was under way)", lifeName(m.Regs[inv.Reg].Life), inv.Reg, e, e.Reg)
					}
				}
			}
		}
		x.R.CloseProvider()
		return f, len(conflicts) > 0
	}
	if len(conflicts) > 0 {
		if verdict != kit.VLifetime {
			c := conflicts[0]
			via := "plain"
			for _, d := range m.Regs[c.From].Deps {
				for _, tg := range m.DepTargets(d) {
					if tg.Reg == c.To {
						via = depVia(d)
						if len(m.Regs[c.To].As) > 0 {
							via = "alias"
						}
					}
				}
			}
			if x.Build.Err == nil {
				x.R.CloseProvider()
			}
			return fail("C07", "rejects-captive", lifeName(m.Regs[c.From].Life)+"->scoped/"+via, "r%d (%s) depends on scoped r%d but Build returned %s (%v)", c.From, lifeName(m.Regs[c.From].Life), c.To, verdict, firstLine(x.Build.Err)), true
		}
		return nil, true
	}
	if verdict == kit.VLifetime {
		return fail("C07", "no-false-rejection", "lifetime", "no singleton/transient depends on a scoped service, but Build failed with a lifetime conflict: %v", firstLine(x.Build.Err)), false
	}
	if x.Build.Err != nil {
		return nil, false // some other defect: not this property's business
	}
	// walk what long-lived instances actually hold - validated was what was registered at Build: a
	// scoped member that joins a group of the collection afterwards is not part of this provider
	x.EditAfterBuild = true
	x.resolveEverything()
	x.resolveEverything()
	var f *Failure
	if a := x.W.Anomalies(); len(a) > 0 {
		f = fail("C07", "holds-no-scoped", "not-part-of-the-build", "%s", a[0])
	}
	for _, inv := range x.W.AllInvs() {
		if m.Regs[inv.Reg].Life == kit.Scoped {
			continue
		}
		for _, a := range inv.Args {
			for _, e := range a.Entries {
				if e != nil && m.Regs[e.Reg].Life == kit.Scoped {
					f = fail("C07", "holds-no-scoped", lifeName(m.Regs[inv.Reg].Life)+"/"+depVia(a.Dep), "%s r%d was constructed with %v, an instance of scoped r%d", lifeName(m.Regs[inv.Reg].Life), inv.Reg, e, e.Reg)
				}
			}
		}
	}
	x.R.CloseProvider()
	return f, false
}

var c07FormNames = []string{"plain", "keyed", "group", "in-field", "alias"}

func TestC07Exhaustive(t *testing.T) {
	maxN := 3
	if thorough() {
		maxN = 4
	}
	col := evid.New("C07", "exhaustive-small", fmt.Sprintf("every assignment of the three lifetimes to every forward DAG on 1..%d services, with all dependencies declared through one of 5 forms (plain parameter, keyed, group, parameter-object field, interface alias); oracle both ways: Build fails with LifetimeConflictError <=> some singleton/transient has an edge to a scoped service; after a successful Build nothing long-lived was constructed with a scoped instance; non-trivial = a scoped and a long-lived service connected by a non-plain edge or a path of length>=2", maxN))
	col.Exhaust = true
	defer col.Flush()
	si, sn := shardInfo()
	caseNo := 0
	for n := 1; n <= maxN; n++ {
		var pairs [][2]int
		for i := 0; i < n; i++ {
			for j := i + 1; j < n; j++ {
				pairs = append(pairs, [2]int{i, j})
			}
		}
		pow3 := 1
		for i := 0; i < n; i++ {
			pow3 *= 3
		}
		for shape := 0; shape < 1<<uint(len(pairs)); shape++ {
			var edges [][2]int
			for k, p := range pairs {
				if shape&(1<<uint(k)) != 0 {
					edges = append(edges, p)
				}
			}
			for la := 0; la < pow3; la++ {
				lifes := make([]int, n)
				for i, v := 0, la; i < n; i, v = i+1, v/3 {
					lifes[i] = v % 3
				}
				for form := 0; form < 5; form++ {
					caseNo++
					if caseNo%sn != si {
						continue
					}
					cfg := c07Config(n, lifes, edges, func(int) int { return form })
					f, conflict := checkC07(cfg)
					nt := false
					m, _ := kit.NewModel(cfg)
					hasScoped, hasLong := false, false
					for _, l := range lifes {
						if l == kit.Scoped {
							hasScoped = true
						} else {
							hasLong = true
						}
					}
					if hasScoped && hasLong && len(edges) > 0 && (form != 0 || len(edges) >= 2) {
						nt = true
					}
					_ = m
					col.Case(nt, fmt.Sprintf("n=%d shape=%d lifes=%v form=%d", n, shape, lifes, form), cfg.String(), "form:"+c07FormNames[form], fmt.Sprintf("conflict=%v", conflict))
					if f != nil && !isKnown(f) {
						evid.Violation("C07", f.Oracle, map[string]any{"config": cfg.String(), "failure": f.String()})
						t.Fatalf("VIOLATION %s\nconfig: %s", f, cfg)
					}
				}
			}
		}
	}
}

func TestC07Random(t *testing.T) {
	col := evid.New("C07", "random-larger", "random sets of up to 12 services from the full generator (all forms incl. multi-return, result objects, aliases, groups) with 0-3 planted extra dependencies so that captive dependencies arise through every edge kind; cases with a cycle or a missing dependency are not judged (other properties); same two-way oracle; non-trivial = a long-lived and a scoped service connected through a non-plain edge")
	defer col.Flush()
	rapid.Check(t, propC07Random(col))
}

// propC07Random is the property of TestC07Random; the native fuzz target of the same name decodes its input through it.
func propC07Random(col *evid.Collector) func(rt *rapid.T) {
	return func(rt *rapid.T) {
		o := kit.FullOpts()
		o.MaxRegs = 12
		cfg := kit.GenConfig(rt, o)
		planted := kit.PlantDeps(rt, cfg, rapid.IntRange(0, 2).Draw(rt, "nplant"), true)
		if rapid.Bool().Draw(rt, "captive") && kit.PlantCaptive(rt, cfg) {
			planted = append(planted, "captive-dependency")
		}
		if rapid.IntRange(0, 1).Draw(rt, "flip") == 0 && kit.PlantCaptiveFlip(rt, cfg) {
			planted = append(planted, "provider-made-scoped")
		}
		if rapid.IntRange(0, 3).Draw(rt, "late") == 0 && kit.PlantLateCaptive(rt, cfg) {
			// the scoped provider is registered after the collection was built once without it
			planted = append(planted, "captive-only-at-the-second-build")
			if rapid.IntRange(0, 1).Draw(rt, "duringBuild") == 0 {
				// ... or no first Build at all: the late registrations arrive from another goroutine while the
				// only Build is under way. Whatever Build makes of that - if it returns a provider, no
				// long-lived service of that provider holds a scoped instance.
				cfg.LateDuringBuild = true
				cfg.LateAt = rapid.IntRange(1, 6).Draw(rt, "lateAt")
				planted = append(planted, "registered-while-build-is-under-way")
			}
		}
		if rapid.IntRange(0, 3).Draw(rt, "twinLifetimes") == 0 && kit.PlantTwinsLifetimes(rt, cfg) {
			// two parameter-object types with one printed name and one layout: one asks for a scoped
			// service (by name or by type), its twin for a singleton of that type
			planted = append(planted, "twin-parameter-objects-over-a-scoped-and-a-singleton-provider")
		}
		if rapid.IntRange(0, 2).Draw(rt, "sliceNamed") == 0 && kit.PlantSliceNamed(rt, cfg) {
			planted = append(planted, "scoped-slice-service-named-like-a-group-field")
		}
		if rapid.IntRange(0, 3).Draw(rt, "samector") == 0 && kit.PlantSameCtor(rt, cfg) {
			planted = append(planted, "same-constructor-registered-again-as-long-lived")
		}
		m, err := kit.NewModel(cfg)
		if err != nil {
			rt.Fatal(err)
		}
		if m.Cyclic() || len(m.Missing()) > 0 {
			col.Case(false, cfg.String(), nil, "not-judged:other-defect")
			return
		}
		nt := false
		for _, c := range m.LifetimeConflicts() {
			for _, d := range m.Regs[c.From].Deps {
				for _, tg := range m.DepTargets(d) {
					if tg.Reg == c.To && (depVia(d) != "plain" || m.Regs[c.From].UseIn || len(m.Regs[c.To].As) > 0 || m.Regs[c.To].Form != kit.FormPlain) {
						nt = true
					}
				}
			}
		}
		f, conflict := checkC07(cfg)
		col.Case(nt, cfg.String(), fmt.Sprintf("%s planted=%v", cfg, planted), append(configLabels(cfg), fmt.Sprintf("conflict=%v", conflict))...)
		if f != nil {
			if isKnown(f) {
				col.Excluded()
				return
			}
			rt.Fatalf("VIOLATION %s\nconfig: %s\nplanted: %v", f, cfg, planted)
		}
	}
}

// ---------- C08 ----------

func TestC08Build(t *testing.T) {
	col := evid.New("C08", "drop-providers", "buildable configurations from which each provider registration is dropped with probability 0-40% (so plain, keyed, optional and group dependencies of singletons, scoped services, transients and initializer functions lose their provider); oracle (=>): if Build succeeds, resolving every registered identity from a fresh scope and from the provider never fails with service-not-found; (<=): if the reference finds no cycle, no captive dependency and no missing required dependency, Build must succeed - also when constructors that are not eagerly run (neither singletons, nor scope initializer functions, nor dependencies of those) fail or panic whenever they are called; non-trivial = a required dependency of a scoped/transient/initializer is missing, or the set contains an initializer depending on a singleton, or an optional/group dependency without provider")
	defer col.Flush()
	rapid.Check(t, propC08Build(col))
}

// propC08Build is the property of TestC08Build; the native fuzz target of the same name decodes its input through it.
func propC08Build(col *evid.Collector) func(rt *rapid.T) {
	return func(rt *rapid.T) {
		gopts := kit.FullOpts()
		gopts.VoidAnyLife = true // initializer-shaped functions may be registered with any lifetime
		cfg := kit.GenConfig(rt, gopts)
		pct := rapid.SampledFrom([]int{0, 0, 10, 25, 40}).Draw(rt, "droppct")
		dropped := kit.DropRegs(rt, cfg, pct)
		if rapid.IntRange(0, 5).Draw(rt, "twins") == 0 && kit.PlantTwins(rt, cfg) {
			dropped = append(dropped, -2) // (marker in the report: twin parameter-object types were added)
		}
		// a name-tagged field of a reserved type can never be satisfied (nothing can be registered
		// for it, and the built-in itself is only served without a name): a missing dependency
		if rapid.IntRange(0, 5).Draw(rt, "namedBuiltin") == 0 {
			var cands []int
			for i := range cfg.Regs {
				if r := &cfg.Regs[i]; r.Form != kit.FormInstance && !r.HasCtorOf {
					cands = append(cands, i)
				}
			}
			if len(cands) > 0 {
				r := &cfg.Regs[rapid.SampledFrom(cands).Draw(rt, "namedBuiltinReg")]
				r.Deps = append(r.Deps, kit.DepSpec{Builtin: rapid.IntRange(1, 3).Draw(rt, "namedBuiltinKind"), Key: "a"})
				r.UseIn = true
				dropped = append(dropped, -1)
			}
		}
		m, err := kit.NewModel(cfg)
		if err != nil {
			rt.Fatal(err)
		}
		missing := m.Missing()
		nt := false
		labels := configLabels(cfg)
		for _, ms := range missing {
			r := m.Regs[ms.Reg]
			l := "missing-dep-of:" + lifeName(r.Life)
			if r.Form == kit.FormVoid {
				l = "missing-dep-of:initializer"
			}
			labels = append(labels, l)
			if r.Life != kit.Singleton {
				nt = true
			}
		}
		for _, id := range m.Order {
			r := m.Regs[id]
			for _, d := range r.Deps {
				if len(m.DepTargets(d)) == 0 && d.Builtin == 0 && !d.Ignored && (d.Optional || d.Group != "") {
					nt = true
					labels = append(labels, "unprovided-optional-or-group")
				}
				if r.Form == kit.FormVoid {
					for _, tg := range m.DepTargets(d) {
						if m.Regs[tg.Reg].Life == kit.Singleton {
							nt = true
							labels = append(labels, "initializer-needs-singleton")
						}
					}
				}
			}
		}
		// "...and whose eagerly run constructors succeed": constructors that Build has no business
		// running may be broken - they fail (or panic) whenever they are called. Eagerly run are
		// the singletons, the scope initializer functions (for the root scope) and whatever
		// those depend on; everything else is constructed on request only.
		var lazyFaulty []int
		if rapid.IntRange(0, 2).Draw(rt, "lazyFaults") == 0 {
			eager := map[int]bool{}
			var visit func(id int)
			visit = func(id int) {
				if eager[id] {
					return
				}
				eager[id] = true
				for _, d := range m.Regs[id].Deps {
					if d.Ignored {
						continue
					}
					for _, tg := range m.DepTargets(d) {
						visit(tg.Reg)
					}
				}
			}
			for _, id := range m.Order {
				if r := m.Regs[id]; r.Life == kit.Singleton || (r.Life == kit.Scoped && r.Form == kit.FormVoid) {
					visit(id)
				}
			}
			for _, id := range m.Order {
				if r := m.Regs[id]; !eager[id] && r.Form != kit.FormInstance && rapid.IntRange(0, 2).Draw(rt, "lazyFaulty") == 0 {
					lazyFaulty = append(lazyFaulty, id)
				}
			}
			if len(lazyFaulty) > 0 {
				labels = append(labels, "broken-lazy-constructor")
				for _, id := range lazyFaulty {
					if r := m.Regs[id]; r.Form == kit.FormVoid && r.Life == kit.Transient {
						labels = append(labels, "broken-transient-function")
						nt = true
					}
				}
			}
		}
		labels = dedup(labels)
		canon := cfg.String()
		if len(lazyFaulty) > 0 {
			canon += fmt.Sprintf(" [constructors that always fail: r%v]", lazyFaulty)
		}
		x, err := startRunWith(cfg, nil, func(w *kit.World) {
			for _, id := range lazyFaulty {
				for n := 1; n <= 64; n++ {
					if m.Regs[id].HasErr {
						w.Faults[[2]int{id, n}] = kit.Fault{Kind: kit.FaultError, Err: fmt.Errorf("r%d is broken", id)}
					} else {
						w.Faults[[2]int{id, n}] = kit.Fault{Kind: kit.FaultPanic, Panic: fmt.Sprintf("r%d is broken", id)}
					}
				}
			}
		})
		if err != nil {
			rt.Fatal(err)
		}
		col.Case(nt, canon, fmt.Sprintf("%s dropped=%v", canon, dropped), labels...)
		if x.Build.Panic != nil {
			rt.Fatalf("VIOLATION C08/no-panic: Build panicked: %v\n%s", x.Build.Panic, canon)
		}
		if x.Build.Kind == "register" {
			rt.Fatalf("registration failed: %v\n%s", x.Build.Err, canon)
		}
		var f *Failure
		if x.Build.Err == nil {
			rec, obs := x.resolveEverything()
			// registrations without a service type of their own (initializer-shaped functions) are
			// registered under a generated key: resolve those too, through what ToSlice reports
			for _, d := range x.R.Coll.ToSlice() {
				if d != nil && d.VoidReturn && rec.Created {
					_, err := rec.S.GetKeyed(d.Type, d.Key)
					obs = append(obs, &kit.Obs{Kind: "resolve-initializer", Scope: rec.Tag, Err: err})
				}
			}
			for _, o := range obs {
				if o.Err != nil && kit.IsNotFound(o.Err) {
					who := "?"
					if len(missing) > 0 {
						r := m.Regs[missing[0].Reg]
						who = lifeName(r.Life)
						if r.Form == kit.FormVoid {
							who = "initializer"
						}
					}
					f = fail("C08", "accepted-unresolvable", who, "Build succeeded but %s(s%d,%s) fails with service-not-found: %v (model: missing %v)", o.Kind, o.Scope, o.Ident, firstLine(o.Err), missing)
					break
				}
			}
			x.R.CloseProvider()
		} else if len(defectClasses(m)) == 0 {
			sig := kit.Classify(x.Build.Err)
			if len(lazyFaulty) > 0 {
				sig += "/broken-lazy-constructor"
			}
			f = fail("C08", "rejected-resolvable", sig, "no cycle, no captive dependency, nothing required missing (constructors that fail whenever called, none of them eagerly run: r%v), yet Build failed: %v", lazyFaulty, firstLine(x.Build.Err))
		}
		// the same must hold for a later Build of the same collection after a registration was removed
		if f == nil && rapid.IntRange(0, 2).Draw(rt, "rebuild") == 0 {
			var cands []int
			for i := range cfg.Regs {
				ps := cfg.Regs[i].Provides()
				if len(ps) != 1 || ps[0].Ident.Group != "" {
					continue
				}
				ambiguous := false
				if ps[0].Ident.Key == "" {
					for _, id := range m.AllIdents() {
						if id.T == ps[0].Ident.T && (id.Key != "" || id.Group != "") {
							ambiguous = true
						}
					}
				}
				if !ambiguous {
					cands = append(cands, i)
				}
			}
			if len(cands) > 0 {
				ri := rapid.SampledFrom(cands).Draw(rt, "removeReg")
				id := cfg.Regs[ri].Provides()[0].Ident
				if id.Key == "" {
					x.R.Coll.Remove(kit.RType(id.T))
				} else {
					x.R.Coll.RemoveKeyed(kit.RType(id.T), id.Key)
				}
				cfg2 := kit.CloneConfig(cfg)
				cfg2.Regs = append(cfg2.Regs[:ri:ri], cfg2.Regs[ri+1:]...)
				m2, _ := kit.NewModel(cfg2)
				r2 := kit.NewRunner(x.W)
				r2.Coll = x.R.Coll
				y := &run{Cfg: cfg2, W: x.W, M: m2, R: r2}
				y.Build = r2.BuildExisting()
				col.Label("rebuild-after-remove")
				switch {
				case y.Build.Panic != nil:
					f = fail("C08", "no-panic", "rebuild", "second Build panicked: %v", y.Build.Panic)
				case y.Build.Err == nil:
					_, obs := y.resolveEverything()
					for _, o := range obs {
						if o.Err != nil && kit.IsNotFound(o.Err) {
							f = fail("C08", "accepted-unresolvable", "rebuild-after-remove", "after removing %s a second Build succeeded but %s(s%d,%s) fails with service-not-found: %v (model: missing %v)", id, o.Kind, o.Scope, o.Ident, firstLine(o.Err), m2.Missing())
							break
						}
					}
					r2.CloseProvider()
				case len(defectClasses(m2)) == 0:
					f = fail("C08", "rejected-resolvable", "rebuild-after-remove/"+kit.Classify(y.Build.Err), "after removing %s the set has no defect, yet the second Build failed: %v", id, firstLine(y.Build.Err))
				}
			}
		}
		if f != nil {
			if isKnown(f) {
				col.Excluded()
				return
			}
			rt.Fatalf("VIOLATION %s\nconfig: %s\ndropped: %v", f, canon, dropped)
		}
	}
}

func dedup(xs []string) []string {
	set := map[string]bool{}
	var out []string
	for _, x := range xs {
		if !set[x] {
			set[x] = true
			out = append(out, x)
		}
	}
	return out
}

package props

import (
	"testing"

	"verif/evid"

	"pgregory.net/rapid"
)

// Native (coverage-guided) fuzz targets at the container: the byte input is
// the bit stream of the rapid generators of the corresponding part
// (rapid.MakeFuzz), the oracle is that part's oracle. Thorough tier only; the
// statistics of a campaign are the fuzzer's own (executions, inputs that
// reached new coverage), the collector is not flushed.

func FuzzC17Registry(f *testing.F) {
	f.Fuzz(rapid.MakeFuzz(propC17Registry(evid.New("C17", "fuzz", ""), 40)))
}

func FuzzC20Modules(f *testing.F) {
	f.Fuzz(rapid.MakeFuzz(propC20Modules(evid.New("C20", "fuzz", ""))))
}

func FuzzC08Build(f *testing.F) {
	f.Fuzz(rapid.MakeFuzz(propC08Build(evid.New("C08", "fuzz", ""))))
}

func FuzzC07Random(f *testing.F) {
	f.Fuzz(rapid.MakeFuzz(propC07Random(evid.New("C07", "fuzz", ""))))
}

package props

import (
	"testing"

	"verif/kit"

	"pgregory.net/rapid"
)

func TestSmoke(t *testing.T) {
	fails := map[string]int{}
	var samples = map[string]string{}
	n := 0
	rapid.Check(t, func(rt *rapid.T) {
		cfg := kit.GenConfig(rt, kit.FullOpts())
		w, err := kit.NewWorld(cfg)
		if err != nil {
			rt.Fatalf("gen produced invalid config: %v\n%s", err, cfg)
		}
		if v := w.M.ExpectedVerdict(); v != kit.VOK {
			rt.Fatalf("gen produced non-buildable config (%s): %s", v, cfg)
		}
		n++
		r := kit.NewRunner(w)
		o := r.Build(nil)
		if o.Panic != nil {
			fails["build-panic"]++
			samples["build-panic"] = cfg.String()
			return
		}
		if o.Err != nil {
			k := o.Kind + ":" + kit.Classify(o.Err)
			fails[k]++
			if len(samples[k]) == 0 || len(cfg.String()) < len(samples[k]) {
				samples[k] = cfg.String() + "  ERR " + o.Err.Error()[:min(300, len(o.Err.Error()))]
			}
			return
		}
		s, so := r.CreateScope(0, 1)
		if so.Err != nil || so.Panic != nil {
			fails["scope-create"]++
			samples["scope-create"] = cfg.String()
			return
		}
		for _, id := range w.M.AllIdents() {
			for _, tag := range []int{0, s.Tag} {
				ob := r.Resolve(tag, id)
				if ob.Err != nil || ob.Panic != nil {
					k := "resolve:" + kit.Classify(ob.Err)
					fails[k]++
					if len(samples[k]) == 0 || len(cfg.String()) < len(samples[k]) {
						samples[k] = cfg.String() + "  ID " + id.String() + " ERR " + ob.Err.Error()[:min(300, len(ob.Err.Error()))]
					}
				}
			}
		}
		r.CloseProvider()
	})
	t.Logf("cases=%d fails=%v", n, fails)
	for k, v := range samples {
		t.Logf("%s: %s", k, v)
	}
}

package props

import (
	"testing"
	"verif/kit"
)

func TestDbg(t *testing.T) {
	cfg := &kit.Config{Regs: []kit.Reg{
		{ID: 0, Life: kit.Singleton, Form: kit.FormPlain, HasErr: true, Outs: []kit.OutSpec{{T: kit.TI0, Impl: 0}}, Group: "g"},
		{ID: 1, Life: kit.Singleton, Form: kit.FormPlain, HasErr: true, Outs: []kit.OutSpec{{T: 0, Impl: 0}}, Group: "g"},
		{ID: 2, Life: kit.Scoped, Form: kit.FormVoid, HasErr: true},
		{ID: 3, Life: kit.Singleton, Form: kit.FormMulti, HasErr: true, Outs: []kit.OutSpec{{T: 1, Impl: 1}, {T: 0, Impl: 0}}},
	}}
	for i := 0; i < 200; i++ {
		x, _ := startRun(kit.CloneConfig(cfg), nil)
		if x.Build.Err != nil {
			t.Fatal(x.Build.Err)
		}
		o := x.R.Resolve(0, kit.Ident{T: 0})
		if o.Err != nil {
			t.Fatalf("iter %d: %v", i, o.Err)
		}
		x.R.CloseProvider()
	}
}

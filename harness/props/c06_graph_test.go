package props

import (
	"fmt"
	"testing"

	"verif/evid"

	"pgregory.net/rapid"
)

// TestC06GraphTopo: all labelled DAGs on <=4 nodes x every insertion order x
// both insertion modes: TopologicalSort (twice) must be a dependency-first
// permutation of the node set (checked inside checkQueries).
func TestC06GraphTopo(t *testing.T) {
	maxN := 3
	if thorough() {
		maxN = 4
	}
	col := evid.New("C06", "graph-topo-exhaustive", fmt.Sprintf("every labelled DAG on 1..%d nodes x every insertion order x {immediate, deferred} insertion; TopologicalSort called twice (second answer may be cached) and validated as a permutation with dependencies first; non-trivial = DAG has >=2 edges", maxN))
	col.Exhaust = true
	defer col.Flush()
	si, sn := shardInfo()
	for n := 1; n <= maxN; n++ {
		perms := permutations(n)
		total := uint32(1) << uint(n*n)
		for bits := uint32(0); bits < total; bits++ {
			if int(bits)%sn != si {
				continue
			}
			deps := func(v int) []int { return adjDeps(n, bits, v) }
			m := newGSys(n).m
			edges := 0
			for v := 0; v < n; v++ {
				m.Add(v, deps(v), v+1)
				edges += len(deps(v))
			}
			if m.Cyclic() {
				continue
			}
			for pi, order := range perms {
				for _, deferred := range []bool{true, false} {
					_, err := runDigraph(n, deps, order, deferred)
					col.Case(edges >= 2, fmt.Sprintf("n=%d adj=%#x order=%d deferred=%v", n, bits, pi, deferred), nil)
					if err != nil {
						evid.Violation("C06", "graph-topo", map[string]any{"n": n, "adj_bits": bits, "order": order, "deferred": deferred, "error": err.Error()})
						t.Fatalf("n=%d adj=%#x order=%v deferred=%v: %v", n, bits, order, deferred, err)
					}
				}
			}
		}
	}
}

func TestC06GraphTopoRandom(t *testing.T) {
	col := evid.New("C06", "graph-topo-random", "random DAGs on 5..14 nodes (edges only from later to earlier position of a random permutation, so acyclic by construction), random insertion order and mode, interleaved removals/replacements; TopologicalSort validated after every mutation; non-trivial = longest chain >= 3")
	defer col.Flush()
	rapid.Check(t, func(rt *rapid.T) {
		n := rapid.IntRange(5, 14).Draw(rt, "n")
		rank := rapid.Permutation(seq(n)).Draw(rt, "rank")
		density := rapid.IntRange(10, 70).Draw(rt, "density")
		depsOf := make([][]int, n)
		for v := 0; v < n; v++ {
			for w := 0; w < n; w++ {
				if rank[w] < rank[v] && rapid.IntRange(0, 99).Draw(rt, "e") < density {
					depsOf[v] = append(depsOf[v], w)
				}
			}
		}
		order := rapid.Permutation(seq(n)).Draw(rt, "order")
		deferred := rapid.Bool().Draw(rt, "deferred")
		s := newGSys(n)
		for _, v := range order {
			if deferred {
				if err := s.addDeferred(v, depsOf[v]); err != nil {
					rt.Fatal(err)
				}
			} else if rej, err := s.addImmediate(v, depsOf[v]); err != nil || rej {
				rt.Fatalf("add %d<-%v: rejected=%v err=%v", v, depsOf[v], rej, err)
			}
		}
		if deferred {
			if err := s.detect(); err != nil {
				rt.Fatal(err)
			}
		}
		depth := 0
		for v := 0; v < n; v++ {
			if d := s.m.Depth(v); d > depth {
				depth = d
			}
		}
		col.Case(depth >= 3, fmt.Sprint(n, depsOf, order, deferred), fmt.Sprintf("deps=%v order=%v deferred=%v", depsOf, order, deferred), fmt.Sprintf("depth=%d", min(depth, 6)))
		if err := s.checkQueries(); err != nil {
			rt.Fatalf("deps=%v order=%v deferred=%v: %v", depsOf, order, deferred, err)
		}
		// a few follow-up mutations that keep the graph acyclic, topo re-validated each time
		k := rapid.IntRange(0, 4).Draw(rt, "extra")
		for i := 0; i < k; i++ {
			v := rapid.IntRange(0, n-1).Draw(rt, "v")
			if rapid.Bool().Draw(rt, "rm") {
				s.remove(v)
			} else {
				var nd []int
				for w := 0; w < n; w++ {
					if rank[w] < rank[v] && rapid.IntRange(0, 99).Draw(rt, "e2") < density {
						nd = append(nd, w)
					}
				}
				if _, err := s.addImmediate(v, nd); err != nil {
					rt.Fatal(err)
				}
			}
			if err := s.checkQueries(); err != nil {
				rt.Fatalf("after extra mutation %d: %v", i, err)
			}
		}
	})
}

// TestC06GraphAfterRejects: the graph a topological order is asked of has a
// history: adds that were refused because they would have closed a cycle
// (and whose dependencies had no node of their own yet) leave nothing behind.
func TestC06GraphAfterRejects(t *testing.T) {
	col := evid.New("C06", "graph-topo-after-rejects", "random DAGs on 3..10 nodes inserted in a random order, each node through AddProvider or AddProviderDeferred; before any insertion up to 3 cyclic AddProvider calls (a provider that needs itself next to random other nodes, provided or not yet provided) are made and must be refused; after all insertions TopologicalSort (twice), DetectCycles and the depth/reachability queries are validated against the reference digraph, which the refused adds did not change; a temporary node is added now and then, depended upon by later insertions and removed again - also while deferred insertions are pending -, which takes the edges to it away; non-trivial = a refused add named a node that had no provider yet and was provided later, or an inserted node depended on the temporary node")
	defer col.Flush()
	rapid.Check(t, func(rt *rapid.T) {
		n := rapid.IntRange(3, 10).Draw(rt, "n")
		rank := rapid.Permutation(seq(n)).Draw(rt, "rank")
		density := rapid.IntRange(20, 80).Draw(rt, "density")
		depsOf := make([][]int, n)
		for v := 0; v < n; v++ {
			for w := 0; w < n; w++ {
				if rank[w] < rank[v] && rapid.IntRange(0, 99).Draw(rt, "e") < density {
					depsOf[v] = append(depsOf[v], w)
				}
			}
		}
		order := rapid.Permutation(seq(n)).Draw(rt, "order")
		s := newGSys(n + 1) // node n is a temporary node: added, depended upon, removed again
		added := map[int]bool{}
		placeholderLater := false
		tempLive, tempUsed := false, false
		var tempDeps []int
		var hist []string
		removeTemp := func() {
			hist = append(hist, fmt.Sprintf("remove %d (pending=%v)", n, s.pending))
			s.remove(n)
			tempLive = false
		}
		for _, v := range order {
			if tempLive && rapid.Bool().Draw(rt, "rmTemp") {
				removeTemp()
			}
			if !tempLive && rapid.IntRange(0, 3).Draw(rt, "addTemp") == 0 {
				var td []int
				for w := 0; w < n; w++ {
					if added[w] && rapid.IntRange(0, 2).Draw(rt, "td") == 0 {
						td = append(td, w)
					}
				}
				hist = append(hist, fmt.Sprintf("deferred %d<-%v (temporary)", n, td))
				if err := s.addDeferred(n, td); err != nil {
					rt.Fatalf("%v: %v", hist, err)
				}
				tempLive, tempDeps = true, td
			}
			for k := rapid.IntRange(0, 3).Draw(rt, "rejects"); k > 0; k-- {
				x := rapid.IntRange(0, n-1).Draw(rt, "x")
				deps := []int{x}
				for w := 0; w < n; w++ {
					if w != x && rapid.IntRange(0, 3).Draw(rt, "rd") == 0 {
						deps = append(deps, w)
						if !added[w] {
							placeholderLater = true
						}
					}
				}
				if rapid.Bool().Draw(rt, "selfLast") {
					deps = append(deps[1:], x)
				}
				rej, err := s.addImmediate(x, deps)
				hist = append(hist, fmt.Sprintf("reject %d<-%v", x, deps))
				if err != nil {
					rt.Fatalf("%v: %v", hist, err)
				}
				if !rej {
					rt.Fatalf("%v: AddProvider(%d<-%v) needs itself and was accepted", hist, x, deps)
				}
			}
			dv := depsOf[v]
			below := true // (what the temporary node depends on cannot depend on v: edges only lead to lower ranks)
			for _, w := range tempDeps {
				if rank[w] >= rank[v] {
					below = false
				}
			}
			if tempLive && below && rapid.Bool().Draw(rt, "useTemp") {
				// depends on the temporary node for now: the edge goes when that node is removed
				dv = append(append([]int(nil), dv...), n)
				tempUsed = true
			}
			if rapid.Bool().Draw(rt, "deferred") {
				hist = append(hist, fmt.Sprintf("deferred %d<-%v", v, dv))
				if err := s.addDeferred(v, dv); err != nil {
					rt.Fatalf("%v: %v", hist, err)
				}
			} else {
				hist = append(hist, fmt.Sprintf("add %d<-%v", v, dv))
				if rej, err := s.addImmediate(v, dv); err != nil || rej {
					rt.Fatalf("%v: rejected=%v err=%v", hist, rej, err)
				}
			}
			added[v] = true
			if rapid.IntRange(0, 3).Draw(rt, "mid") == 0 {
				if s.pending {
					if err := s.detect(); err != nil {
						rt.Fatalf("%v: %v", hist, err)
					}
				}
				if err := s.checkQueries(); err != nil {
					rt.Fatalf("%v: %v", hist, err)
				}
			}
		}
		if tempLive {
			removeTemp()
		}
		if s.pending {
			if err := s.detect(); err != nil {
				rt.Fatalf("%v: %v", hist, err)
			}
		}
		col.Case(placeholderLater || tempUsed, fmt.Sprint(hist), fmt.Sprint(hist))
		if err := s.checkQueries(); err != nil {
			rt.Fatalf("%v: %v", hist, err)
		}
	})
}

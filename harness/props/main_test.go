package props

import (
	"os"
	"sync"
	"testing"

	"verif/kit"
)

// A process that has been serving requests for a while has started millions
// of goroutines: goroutine numbers have seven digits and more. The checks run
// in such a process, not in a newborn one (godi tells a re-entrant Close from
// a concurrent one by the number of the goroutine).
func TestMain(m *testing.M) {
	if os.Getenv("VERIF_NO_AGING") == "" {
		ageProcess(1_000_100)
	}
	os.Exit(m.Run())
}

func ageProcess(minGoid int64) {
	for kit.Goid() < minGoid {
		var wg sync.WaitGroup
		for i := 0; i < 20000; i++ {
			wg.Add(1)
			go wg.Done()
		}
		wg.Wait()
		last := make(chan int64, 1)
		go func() { last <- kit.Goid() }()
		if <-last >= minGoid {
			return
		}
	}
}

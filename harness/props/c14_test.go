package props

import (
	"context"
	"fmt"
	"runtime"
	"strings"
	"sync"
	"sync/atomic"
	"testing"
	"time"

	"verif/evid"
	"verif/kit"

	"github.com/junioryono/godi/v4"
	"pgregory.net/rapid"
)

// plainCtx hides the concrete context type: context.WithCancel on it has to
// start a goroutine that lives until the derived context is cancelled.
type plainCtx struct{ done chan struct{} }

func newPlainCtx() plainCtx                  { return plainCtx{done: make(chan struct{})} }
func (plainCtx) Deadline() (time.Time, bool) { return time.Time{}, false }
func (c plainCtx) Done() <-chan struct{}     { return c.done }
func (plainCtx) Err() error                  { return nil }
func (plainCtx) Value(any) any               { return nil }

func waitFor(cond func() bool, d time.Duration) bool {
	deadline := time.Now().Add(d)
	for {
		if cond() {
			return true
		}
		if time.Now().After(deadline) {
			return false
		}
		time.Sleep(200 * time.Microsecond)
	}
}

func TestC14Release(t *testing.T) {
	sizes := []int{1, 10, 100}
	if thorough() {
		sizes = []int{10, 100, 1000}
	}
	col := evid.New("C14", "create-use-close-cycles", fmt.Sprintf("N in %v create/(nest)/use/close cycles against one long-lived provider (and optionally one long-lived parent scope), with contexts the caller never cancels (nil, Background, a child of a long-lived cancellable context, a context of a foreign type that forces context.WithCancel to start a goroutine), instances that hold on to their scope/context/dependencies (and, in a third of the cases, open a scope of their own below the Scope they are handed - initializer functions do so while their scope is still being created; in a quarter of the nested cases the cycle's scope is closed by nobody but the Close method of an instance of its innermost descendant), and - when the configuration has initializer functions - a failing initializer (error or panic) at a rotating position in a generated share of the cycles; oracle after the cycles, with provider and parent still alive: goroutine count back at the pre-cycle baseline (bounded wait), every closed scope's context cancelled, weak handles of every closed scope object and of every instance created in the cycles dead after GC; non-trivial = N>=10, nested scopes or a failing initializer", sizes))
	defer col.Flush()
	rapid.Check(t, func(rt *rapid.T) {
		o := kit.FullOpts()
		o.DisposableBias = true
		cfg := kit.GenConfig(rt, o)
		for i := range cfg.Regs {
			r := &cfg.Regs[i]
			if r.Form != kit.FormInstance && r.Life != kit.Singleton && rapid.IntRange(0, 2).Draw(rt, "holdscope") == 0 {
				r.Deps = append(r.Deps, kit.DepSpec{Builtin: rapid.IntRange(1, 2).Draw(rt, "b")})
			}
		}
		if rapid.Bool().Draw(rt, "addInit") {
			// an extra initializer function that pulls a scoped/transient disposable into every new scope
			m0, _ := kit.NewModel(cfg)
			var deps []kit.DepSpec
			if m0 != nil {
				for _, id := range m0.AllIdents() {
					if id.Group == "" && len(deps) < 2 {
						deps = append(deps, kit.DepSpec{T: id.T, Key: id.Key})
					}
				}
			}
			nid := 0
			for _, r := range cfg.Regs {
				if r.ID >= nid {
					nid = r.ID + 1
				}
			}
			useIn := false
			for _, d := range deps {
				if d.Key != "" {
					useIn = true
				}
			}
			cfg.Regs = append(cfg.Regs, kit.Reg{ID: nid, Life: kit.Scoped, Form: kit.FormVoid, HasErr: true, Deps: deps, UseIn: useIn},
				kit.Reg{ID: nid + 1, Life: kit.Scoped, Form: kit.FormVoid, Deps: []kit.DepSpec{{Builtin: 2}}})
		}
		w, err := kit.NewWorld(cfg)
		if err != nil {
			rt.Fatal(err)
		}
		w.HoldArgs = true
		// in a share of the cases the Close methods of some registrations fail: a scope whose
		// disposal reports an error is released like any other
		closeFails := false
		if rapid.IntRange(0, 3).Draw(rt, "closeFails") == 0 {
			regs := map[int]bool{}
			for _, r := range cfg.Regs {
				if r.Form != kit.FormInstance && r.Life != kit.Singleton && rapid.Bool().Draw(rt, "closeFailReg") {
					regs[r.ID] = true
					closeFails = true
				}
			}
			w.CloseFailRegs = regs
		}
		var mu sync.Mutex
		var instHandles []func() bool
		collecting := false
		w.OnMade = func(obj any) {
			mu.Lock()
			if collecting {
				instHandles = append(instHandles, kit.WeakOf(obj))
			}
			mu.Unlock()
		}
		// in a third of the cases user code that is handed a Scope opens a scope of its own below it
		// (context.Background(): nothing but the enclosing scope's Close will ever close it) - an
		// initializer function does so while its scope is still being created, and a later
		// initializer of that creation may fail
		nestInside := rapid.IntRange(0, 2).Draw(rt, "nestInside") == 0
		var nesting atomic.Int32
		var nestedHandles []func() bool
		nestedMade := 0
		if nestInside {
			w.OnBuiltin = func(v any) {
				sc, ok := v.(godi.Scope)
				mu.Lock()
				on := collecting
				mu.Unlock()
				if !ok || !on || !nesting.CompareAndSwap(0, 1) {
					return
				}
				defer nesting.Store(0)
				if child, err := sc.CreateScope(context.Background()); err == nil {
					mu.Lock()
					nestedHandles = append(nestedHandles, godi.VerifWeakScope(child))
					nestedMade++
					mu.Unlock()
				}
			}
		}
		coll := godi.NewCollection()
		if err := w.RegisterAll(coll, nil); err != nil {
			rt.Fatalf("registration failed: %v", err)
		}
		p, err := coll.Build()
		if err != nil {
			col.Case(false, cfg.String(), nil, "build-failed(not judged here)")
			return
		}
		defer p.Close()
		var voids []int
		for _, r := range cfg.Regs {
			if r.Form == kit.FormVoid {
				voids = append(voids, r.ID)
			}
		}
		longCtx, cancelLong := context.WithCancel(context.Background())
		defer cancelLong()
		var parent godi.Provider = p
		useParentScope := rapid.Bool().Draw(rt, "parentScope")
		if useParentScope {
			ps, err := p.CreateScope(context.Background())
			if err != nil {
				rt.Fatalf("VIOLATION C14/setup: CreateScope failed: %v", err)
			}
			parent = ps
		}
		N := rapid.SampledFrom(sizes).Draw(rt, "N")
		nest := rapid.IntRange(0, 2).Draw(rt, "nest")
		faultEvery := 0
		if len(voids) > 0 {
			faultEvery = rapid.SampledFrom([]int{0, 1, 2, 5}).Draw(rt, "faultEvery")
		}
		ctxKinds := rapid.SliceOfN(rapid.IntRange(0, 4), 1, 4).Draw(rt, "ctxkinds")
		ids := w.M.AllIdents()
		nget := rapid.IntRange(0, 4).Draw(rt, "nget")
		var getIDs []kit.Ident
		for i := 0; i < nget && len(ids) > 0; i++ {
			getIDs = append(getIDs, rapid.SampledFrom(ids).Draw(rt, "getid"))
		}
		closeChildFirst := rapid.Bool().Draw(rt, "closeChildFirst")
		// in some cycles a resolution is still inside a constructor when the scope is closed: what it
		// finishes constructing afterwards belongs to nobody and must be released like everything else
		closedFromBelow := nest > 0 && rapid.IntRange(0, 3).Draw(rt, "closedFromBelow") == 0
		closedBelow := 0
		var armedScope godi.Scope
		if closedFromBelow {
			w.InClose = func(*kit.Entry) {
				mu.Lock()
				sc := armedScope
				armedScope = nil
				mu.Unlock()
				if sc != nil {
					_ = sc.Close()
				}
			}
		}
		siblings := rapid.SampledFrom([]int{1, 1, 2, 3}).Draw(rt, "siblings")
		lateEvery := rapid.SampledFrom([]int{0, 0, 1, 3}).Draw(rt, "lateEvery")
		late := 0

		// a few unmeasured warm-up cycles first: anything the container starts once (not per scope) is part of the baseline
		for i := 0; i < 3; i++ {
			if s, err := parent.CreateScope(context.Background()); err == nil {
				_ = s.Close()
			}
		}
		runtime.GC()
		time.Sleep(time.Millisecond)
		base := runtime.NumGoroutine()
		mu.Lock()
		collecting = true
		mu.Unlock()
		var scopeHandles []func() bool
		failedCreates, okCreates := 0, 0
		var f *Failure
		foreign := newPlainCtx() // one long-lived foreign context, never cancelled
		var cancels []context.CancelFunc
		defer func() {
			for _, c := range cancels {
				c()
			}
		}()
		mkctx := func(k int) context.Context {
			switch k {
			case 1:
				return context.Background()
			case 2:
				c, cancel := context.WithCancel(longCtx) // the caller does not cancel before the measurements
				cancels = append(cancels, cancel)
				return c
			case 3:
				return foreign
			case 4:
				// a context that is already cancelled (the client went away before the scope was
				// asked for): whether the creation is refused or yields a scope that is closed at
				// once, nothing of it may stay behind
				c, cancel := context.WithCancel(context.Background())
				cancel()
				return c
			}
			return nil
		}
		for i := 0; i < N && f == nil; i++ {
			if faultEvery > 0 && i%faultEvery == 0 {
				vr := voids[(i/faultEvery)%len(voids)]
				flt := kit.Fault{Kind: kit.FaultPanic, Panic: "init-boom"}
				if w.M.Regs[vr].HasErr && i%2 == 0 {
					flt = kit.Fault{Kind: kit.FaultError, Err: fmt.Errorf("init-failed")}
				}
				w.SetFaultNext(vr, flt)
			}
			func() {
				// siblings that are open at the same time and closed in the order they were created
				// (not last-in-first-out): the parent's bookkeeping has to cope with holes
				var olderSiblings []godi.Scope
				for k := 1; k < siblings; k++ {
					if sib, err := parent.CreateScope(mkctx(ctxKinds[(i+k)%len(ctxKinds)])); err == nil {
						scopeHandles = append(scopeHandles, godi.VerifWeakScope(sib))
						olderSiblings = append(olderSiblings, sib)
					} else {
						failedCreates++
					}
				}
				defer func() {
					for _, sib := range olderSiblings {
						_ = sib.Close()
					}
				}()
				s, err := parent.CreateScope(mkctx(ctxKinds[i%len(ctxKinds)]))
				if err != nil {
					failedCreates++
					return
				}
				okCreates++
				scopeHandles = append(scopeHandles, godi.VerifWeakScope(s))
				chain := []godi.Scope{s}
				for d := 0; d < nest; d++ {
					c, err := chain[len(chain)-1].CreateScope(mkctx(ctxKinds[(i+d+1)%len(ctxKinds)]))
					if err != nil {
						failedCreates++
						break
					}
					scopeHandles = append(scopeHandles, godi.VerifWeakScope(c))
					chain = append(chain, c)
				}
				if lateEvery > 0 && i%lateEvery == 0 && len(getIDs) > 0 {
					id := getIDs[i%len(getIDs)]
					tgt := chain[len(chain)-1]
					var goid atomic.Int64
					pk := kit.NewParker(func(gp kit.GatePoint) bool { return gp.Kind == kit.GateCtorExit && gp.Goid == goid.Load() })
					w.SetGate(pk.Gate)
					done := make(chan struct{})
					go func() {
						defer close(done)
						goid.Store(kit.Goid())
						switch {
						case id.Group != "":
							_, _ = tgt.GetGroup(kit.RType(id.T), id.Group)
						case id.Key != "":
							_, _ = tgt.GetKeyed(kit.RType(id.T), id.Key)
						default:
							_, _ = tgt.Get(kit.RType(id.T))
						}
					}()
					select {
					case <-pk.Parked():
						late++
					case <-done:
					}
					_ = s.Close()
					pk.Release()
					if !kit.WaitOrTimeout(done, 20*time.Second) {
						f = fail("C14", "no-hang", "late", "a resolution overlapping the Close of its scope did not return (cycle %d)", i)
					}
					w.SetGate(nil)
					return
				}
				for gi, id := range getIDs {
					tgt := chain[(i+gi)%len(chain)]
					switch {
					case id.Group != "":
						_, _ = tgt.GetGroup(kit.RType(id.T), id.Group)
					case id.Key != "":
						_, _ = tgt.GetKeyed(kit.RType(id.T), id.Key)
					default:
						_, _ = tgt.Get(kit.RType(id.T))
					}
				}
				if closedFromBelow && len(chain) > 1 {
					// the scope is closed by nobody but an instance of its innermost descendant, from inside that
					// descendant's disposal (a unit of work that ends its session)
					mu.Lock()
					armedScope = s
					mu.Unlock()
					_ = chain[len(chain)-1].Close()
					mu.Lock()
					fired := armedScope == nil
					armedScope = nil
					mu.Unlock()
					if fired {
						closedBelow++
						// (the instance's Close method may have run on another goroutine - a context watcher's:
						// the Close it called is then still under way; it is given time to finish)
						if !waitFor(func() bool { return s.Context().Err() != nil }, 5*time.Second) {
							f = fail("C14", "context-cancelled", "closed-from-a-descendant's-disposal", "a scope that an instance of its innermost descendant closed from inside that descendant's disposal still has an uncancelled context 5 s later (cycle %d)", i)
						}
						// (whatever of that Close - or of a watcher's - is still under way below the scope: wait for it)
						_ = s.Close()
					} else {
						_ = s.Close()
					}
				} else {
					if closeChildFirst && len(chain) > 1 {
						_ = chain[len(chain)-1].Close()
					}
					_ = s.Close()
				}
				for _, c := range chain {
					if c.Context().Err() == nil {
						f = fail("C14", "context-cancelled", fmt.Sprintf("depth%d", len(chain)), "a closed scope's context is not cancelled (cycle %d)", i)
					}
				}
			}()
			w.ClearFaults()
		}
		mu.Lock()
		collecting = false
		handles := append([]func() bool(nil), instHandles...)
		scopeHandles = append(scopeHandles, nestedHandles...)
		mu.Unlock()
		labels := []string{fmt.Sprintf("N=%d", N), fmt.Sprintf("nest=%d", nest)}
		if nestedMade > 0 {
			labels = append(labels, "scopes-opened-by-user-code-inside")
		}
		if closedBelow > 0 {
			labels = append(labels, "closed-only-from-a-descendant's-disposal")
		}
		if failedCreates > 0 {
			labels = append(labels, "failed-creations")
		}
		if useParentScope {
			labels = append(labels, "long-lived-parent-scope")
		}
		if late > 0 {
			labels = append(labels, "constructions-overlapping-close")
		}
		if siblings > 1 {
			labels = append(labels, "overlapping-siblings")
		}
		if closeFails {
			labels = append(labels, "failing-Close-methods")
		}
		canon := fmt.Sprintf("%s || N=%d nest=%d ctx=%v gets=%v faultEvery=%d parentScope=%v childFirst=%v nestInside=%v closedFromBelow=%v(%d)", cfg, N, nest, ctxKinds, getIDs, faultEvery, useParentScope, closeChildFirst, nestInside, closedFromBelow, closedBelow)
		col.Case(N >= 10 || nest > 0 || failedCreates > 0, canon, canon, labels...)
		if f == nil {
			if !waitFor(func() bool { return runtime.NumGoroutine() <= base }, 5*time.Second) {
				f = fail("C14", "goroutines", fmt.Sprintf("failed-creates=%v", failedCreates > 0), "%d goroutines before the cycles, %d five seconds after %d create/close cycles (%d creations failed)", base, runtime.NumGoroutine(), N, failedCreates)
			}
		}
		if f == nil {
			alive := func() (int, int) {
				as, ai := 0, 0
				for _, h := range scopeHandles {
					if h() {
						as++
					}
				}
				for _, h := range handles {
					if h() {
						ai++
					}
				}
				return as, ai
			}
			ok := false
			var as, ai int
			for try := 0; try < 8 && !ok; try++ {
				runtime.GC()
				runtime.GC()
				as, ai = alive()
				ok = as == 0 && ai == 0
			}
			if !ok && as > 0 {
				f = fail("C14", "scope-released", fmt.Sprintf("parentScope=%v", useParentScope), "%d of %d closed scope objects are still reachable after GC (provider and parent alive)", as, len(scopeHandles))
			} else if !ok {
				f = fail("C14", "instances-released", fmt.Sprintf("failed-creates=%v", failedCreates > 0), "%d of %d instances created during the cycles are still reachable after their scopes were closed and GC ran", ai, len(handles))
			}
		}
		if f != nil {
			if isKnown(f) {
				col.Excluded()
				return
			}
			rt.Fatalf("VIOLATION %s\n%s", f, canon)
		}
	})
}

// TestC14CreateVsClose: a child scope is being created while its parent is
// closed. Whatever the creation returns, once everything is let go nothing of
// it may stay reachable from the (still open) provider, and a scope that is
// handed out with a nil error is one the caller can use.
func TestC14CreateVsClose(t *testing.T) {
	col := evid.New("C14", "creation-overlapping-close", "two-thread programs against a long-lived provider: thread A creates a child of a scope P (nil / Background / cancellable context, P at depth 1-2) and is parked at the n-th schedule point inside CreateScope or at a constructor entry/exit of an initializer; thread B closes P (or P's parent) to completion - or, in a third of the programs, the scope under construction itself, through the Scope an initializer function was injected with and handed on (P may then be the provider); A is released; all references are dropped; oracle: a creation that returns a nil error returns a scope that is not already closed (or was closed only after the creation returned), and after GC neither P, the child nor the instances created on the way are reachable although the provider is still open; goroutine count back at the baseline; non-trivial = A was parked")
	defer col.Flush()
	rapid.Check(t, func(rt *rapid.T) {
		o := kit.FullOpts()
		o.Lifetimes = []int{kit.Singleton, kit.Scoped, kit.Scoped, kit.Transient}
		cfg := kit.GenConfig(rt, o)
		// in a third of the programs it is not an enclosing scope that is closed but the scope under
		// construction itself: an initializer function has handed the Scope it was injected with to
		// somebody else (a timeout, a supervisor), who closes it while CreateScope has not returned
		newborn := rapid.IntRange(0, 2).Draw(rt, "closeNewborn") == 0
		if newborn {
			nid := 0
			for _, r := range cfg.Regs {
				if r.ID >= nid {
					nid = r.ID + 1
				}
			}
			cfg.Regs = append(cfg.Regs, kit.Reg{ID: nid, Life: kit.Scoped, Form: kit.FormVoid, Deps: []kit.DepSpec{{Builtin: 2}}})
		}
		w, err := kit.NewWorld(cfg)
		if err != nil {
			rt.Fatal(err)
		}
		w.HoldArgs = true
		var mu sync.Mutex
		var instHandles []func() bool
		collecting := false
		var leaked godi.Scope // the Scope an initializer of the creation under test was given
		var leakGoid atomic.Int64
		w.OnBuiltin = func(v any) {
			if s, ok := v.(godi.Scope); ok && newborn && leakGoid.Load() != 0 && kit.Goid() == leakGoid.Load() {
				mu.Lock()
				leaked = s
				mu.Unlock()
			}
		}
		w.OnMade = func(obj any) {
			mu.Lock()
			if collecting {
				instHandles = append(instHandles, kit.WeakOf(obj))
			}
			mu.Unlock()
		}
		coll := godi.NewCollection()
		if err := w.RegisterAll(coll, nil); err != nil {
			rt.Fatalf("registration failed: %v", err)
		}
		p, err := coll.Build()
		if err != nil {
			col.Case(false, cfg.String(), nil, "build-failed(not judged here)")
			return
		}
		defer p.Close()
		for i := 0; i < 3; i++ {
			if s, err := p.CreateScope(context.Background()); err == nil {
				_ = s.Close()
			}
		}
		runtime.GC()
		time.Sleep(time.Millisecond)
		base := runtime.NumGoroutine()
		mu.Lock()
		collecting = true
		mu.Unlock()

		depth := rapid.IntRange(1, 2).Draw(rt, "depth")
		if newborn {
			depth = rapid.IntRange(0, 2).Draw(rt, "newbornDepth") // 0: the scope is created on the provider itself
		}
		ctxKind := rapid.IntRange(0, 2).Draw(rt, "ctx")
		closeTop := rapid.Bool().Draw(rt, "closeTop")
		gateKind := rapid.SampledFrom([]int{kit.GateInternal, kit.GateInternal, kit.GateInternal, kit.GateCtorEnter, kit.GateCtorExit}).Draw(rt, "gate")
		gateN := rapid.IntRange(1, 5).Draw(rt, "gateN")
		var f *Failure
		var handles []func() bool
		var newbornHandle func() bool
		parked := false
		point := ""
		func() {
			top, err := p.CreateScope(context.Background())
			if err != nil {
				return
			}
			handles = append(handles, godi.VerifWeakScope(top))
			var parent godi.Provider = top
			if depth == 0 {
				parent = p
			}
			if depth == 2 {
				mid, err := top.CreateScope(nil) //nolint
				if err != nil {
					_ = top.Close()
					return
				}
				parent = mid
				handles = append(handles, godi.VerifWeakScope(mid))
			}
			var ctx context.Context
			var cancel context.CancelFunc
			switch ctxKind {
			case 1:
				ctx = context.Background()
			case 2:
				ctx, cancel = context.WithCancel(context.Background())
			}
			defer func() {
				if cancel != nil {
					cancel()
				}
			}()
			var goid atomic.Int64
			count := 0
			pk := kit.NewParker(func(gp kit.GatePoint) bool {
				if gp.Goid != goid.Load() || gp.Kind != gateKind || (gp.Kind == kit.GateInternal && !strings.HasPrefix(gp.Point, "scope.CreateScope.") && !strings.HasPrefix(gp.Point, "provider.CreateScope.")) {
					return false
				}
				if newborn {
					// (only once an initializer has handed the scope on)
					mu.Lock()
					have := leaked != nil
					mu.Unlock()
					if !have {
						return false
					}
				}
				count++
				return count == gateN
			})
			w.SetGate(pk.Gate)
			type res struct {
				s   godi.Scope
				err error
			}
			ch := make(chan res, 1)
			go func() {
				goid.Store(kit.Goid())
				leakGoid.Store(kit.Goid())
				s, err := parent.CreateScope(ctx)
				leakGoid.Store(0)
				ch <- res{s, err}
			}()
			var r res
			got := false
			select {
			case <-pk.Parked():
				parked, point = true, pk.Hit.Point
			case r = <-ch:
				got = true
			}
			var victim godi.Provider = parent
			if closeTop {
				victim = top
			}
			if newborn {
				mu.Lock()
				if leaked != nil {
					victim = leaked
					newbornHandle = godi.VerifWeakScope(leaked)
				} else if depth == 0 {
					victim = top // (nothing was handed on, and the provider stays open in this test)
				}
				leaked = nil
				mu.Unlock()
			}
			closed := make(chan struct{})
			go func(v godi.Provider) { _ = v.Close(); close(closed) }(victim)
			victim = nil
			bDone := kit.WaitOrTimeout(closed, 30*time.Millisecond)
			pk.Release()
			if !got {
				select {
				case r = <-ch:
				case <-time.After(20 * time.Second):
					f = fail("C14", "no-hang", "create", "CreateScope overlapping the Close of its parent did not return")
					return
				}
			}
			if !kit.WaitOrTimeout(closed, 20*time.Second) {
				f = fail("C14", "no-hang", "close", "Close overlapping a CreateScope did not return")
				return
			}
			w.SetGate(nil)
			if r.err == nil && r.s != nil {
				handles = append(handles, godi.VerifWeakScope(r.s))
				// the Close had returned before the creation did: what the creation hands out with a nil
				// error cannot be a scope that this Close has already closed
				// (when it is the new scope itself that somebody closed, a creation that completes normally
				// is as good as one that reports the disposed error: the scope was closed by its user)
				if parked && bDone && !newborn {
					if _, gerr := r.s.Get(kit.ScopeType); gerr != nil {
						f = fail("C14", "failed-creation-leaves-nothing", "closed-scope-returned", "CreateScope returned a nil error and a scope that is already closed (%v): the parent's Close had returned before", firstLine(gerr))
					}
				}
				_ = r.s.Close()
			}
			// the scope that was closed while it was being created is released although the scope it was
			// created on (and the provider) is still open
			if newbornHandle != nil && f == nil {
				r = res{}
				gone := false
				for try := 0; try < 8 && !gone; try++ {
					runtime.GC()
					runtime.GC()
					gone = !newbornHandle()
				}
				if !gone {
					f = fail("C14", "scope-released", fmt.Sprintf("closed-during-creation/depth%d", depth), "a scope that was closed while CreateScope had not returned is still reachable after GC while the scope it was created on (depth %d, 0 = the provider) is open", depth)
				}
				handles = append(handles, newbornHandle)
			}
			_ = top.Close()
		}()
		mu.Lock()
		collecting = false
		leaked = nil // (the harness's own reference)
		insts := append([]func() bool(nil), instHandles...)
		mu.Unlock()
		canon := fmt.Sprintf("%s || depth=%d ctx=%d closeTop=%v closeNewborn=%v gate=%d#%d parked=%v at=%s", cfg, depth, ctxKind, closeTop, newborn, gateKind, gateN, parked, point)
		labels := []string{fmt.Sprintf("parked=%v", parked), fmt.Sprintf("close-newborn=%v", newborn && parked)}
		if point != "" {
			labels = append(labels, "at:"+point)
		}
		col.Case(parked, canon, canon, labels...)
		if f == nil && !waitFor(func() bool { return runtime.NumGoroutine() <= base }, 5*time.Second) {
			f = fail("C14", "goroutines", "create-vs-close", "%d goroutines before, %d five seconds after a creation overlapped a Close", base, runtime.NumGoroutine())
		}
		if f == nil {
			ok := false
			as, ai := 0, 0
			for try := 0; try < 8 && !ok; try++ {
				runtime.GC()
				runtime.GC()
				as, ai = 0, 0
				for _, h := range handles {
					if h() {
						as++
					}
				}
				for _, h := range insts {
					if h() {
						ai++
					}
				}
				ok = as == 0 && ai == 0
			}
			if !ok && as > 0 {
				f = fail("C14", "scope-released", "create-vs-close", "%d of %d scope objects are still reachable after everything was closed and GC ran (provider alive)", as, len(handles))
			} else if !ok {
				f = fail("C14", "instances-released", "create-vs-close", "%d of %d instances are still reachable after everything was closed and GC ran", ai, len(insts))
			}
		}
		if f != nil {
			if isKnown(f) {
				col.Excluded()
				return
			}
			rt.Fatalf("VIOLATION %s\n%s", f, canon)
		}
	})
}

package props

import (
	"context"
	"errors"
	"fmt"
	"regexp"
	"sort"
	"strings"
	"testing"
	"time"

	"verif/evid"
	"verif/kit"

	"github.com/junioryono/godi/v4"
	"pgregory.net/rapid"
)

// mnode is a node of a generated module tree.
type mnode struct {
	Name     string            // module node
	Children []*mnode          // module node
	Twice    bool              // module node: the option is built twice from the same entry slice, the second one is used
	Leaf     string            // "", add, remove, removeKeyed, nil, gate, custom
	Gate     godi.ModuleOption // gate leaf: an entry written by the harness that registers nothing
	Reg      int               // index into the registration list (add)
	T        int               // type id (remove*)
	KeyKind  int               // removeKeyed: which key value (see rmKeys)
	// a module node may occur at several places of the tree (one module value included by two
	// parents, or applied again later): the option is built once per world and reused
	optFor *kit.World
	opt    godi.ModuleOption
}

// rmKey is a defined string type: a key of this type is not the name "a" that
// godi.Name("a") registers, although it prints the same.
type rmKey string

// rmKeys are the key values RemoveKeyed entries are issued with - through a
// module and directly, the very same value.
var rmKeys = []any{"a", "a", "b", rmKey("a"), "", 7}

// Errors of hand-written module entries (ModuleOption is a plain func type anybody may implement):
// a sentinel, a sentinel wrapped with %w, a typed error, a wrapped standard-library sentinel.
var errCustomEntry = errors.New("custom entry failed")

type customEntryErr struct{ Code int }

func (e *customEntryErr) Error() string { return fmt.Sprintf("custom entry error %d", e.Code) }

var theCustomEntryErr = &customEntryErr{Code: 7}

func customEntryError(kind int) error {
	switch kind {
	case 1:
		return errCustomEntry
	case 2:
		return fmt.Errorf("loading plug-in: %w", errCustomEntry)
	case 3:
		return theCustomEntryErr
	case 4:
		return fmt.Errorf("plug-in timed out: %w", context.DeadlineExceeded)
	}
	return nil
}

// customCauseReachable: the error of a hand-written entry is still reachable through errors.Is/As.
func customCauseReachable(err error, kind int) bool {
	switch kind {
	case 1, 2:
		return errors.Is(err, errCustomEntry)
	case 3:
		var ce *customEntryErr
		return errors.As(err, &ce) && ce == theCustomEntryErr
	case 4:
		return errors.Is(err, context.DeadlineExceeded)
	}
	return true
}

func (n *mnode) String() string {
	switch n.Leaf {
	case "custom":
		return fmt.Sprintf("custom(add#%d,err%d,viaAddModules=%v)", n.Reg, n.KeyKind, n.Twice)
	case "add":
		return fmt.Sprintf("add#%d", n.Reg)
	case "remove":
		return "remove(" + kit.TypeName(n.T) + ")"
	case "removeKeyed":
		return fmt.Sprintf("removeKeyed(%s,%#v)", kit.TypeName(n.T), rmKeys[n.KeyKind])
	case "nil":
		return "nil"
	case "addnil":
		return fmt.Sprintf("add%d(nil-service)", n.T)
	case "gate":
		return "GATE"
	}
	parts := make([]string, len(n.Children))
	for i, c := range n.Children {
		parts[i] = c.String()
	}
	return n.Name + "{" + strings.Join(parts, " ") + "}"
}

func removeOption(t int, keyed bool, key any) godi.ModuleOption {
	type rm struct{ plain, keyed godi.ModuleOption }
	var o rm
	switch t {
	case 0:
		o = rm{godi.Remove[*kit.D0](), godi.RemoveKeyed[*kit.D0](key)}
	case 1:
		o = rm{godi.Remove[*kit.D1](), godi.RemoveKeyed[*kit.D1](key)}
	case kit.NumD:
		o = rm{godi.Remove[*kit.N0](), godi.RemoveKeyed[*kit.N0](key)}
	case kit.NumD + 1:
		o = rm{godi.Remove[*kit.N1](), godi.RemoveKeyed[*kit.N1](key)}
	case kit.TI0:
		o = rm{godi.Remove[kit.I0](), godi.RemoveKeyed[kit.I0](key)}
	case kit.TI1:
		o = rm{godi.Remove[kit.I1](), godi.RemoveKeyed[kit.I1](key)}
	default:
		o = rm{godi.Remove[kit.I2](), godi.RemoveKeyed[kit.I2](key)}
	}
	if keyed {
		return o.keyed
	}
	return o.plain
}

// genTreeShared is genTree with a pool of finished module nodes that later parts of the tree may
// include again: the very same module value, a second time.
var sharedPool *[]*mnode

func genTree(rt *rapid.T, depth int, regs *[]kit.Reg) *mnode {
	n := &mnode{Name: rapid.SampledFrom([]string{"m0", "m1", "m2", "app", ""}).Draw(rt, "mname"), Twice: rapid.IntRange(0, 2).Draw(rt, "twice") == 0}
	k := rapid.IntRange(0, 5).Draw(rt, "fanout")
	for i := 0; i < k; i++ {
		c := rapid.IntRange(0, 9).Draw(rt, "child")
		switch {
		case c <= 1 && sharedPool != nil && len(*sharedPool) > 0 && rapid.IntRange(0, 3).Draw(rt, "shareModule") == 0:
			n.Children = append(n.Children, rapid.SampledFrom(*sharedPool).Draw(rt, "sharedModule"))
		case c <= 1 && depth < 5:
			n.Children = append(n.Children, genTree(rt, depth+1, regs))
		case c == 2 && rapid.IntRange(0, 3).Draw(rt, "nilservice") == 0:
			// a registration entry built from a nil service: fails like the direct call does
			n.Children = append(n.Children, &mnode{Leaf: "addnil", T: rapid.IntRange(0, 2).Draw(rt, "nilLife")})
		case c == 2:
			n.Children = append(n.Children, &mnode{Leaf: "nil"})
		case c == 4 && rapid.IntRange(0, 2).Draw(rt, "customEntry") == 0:
			// a hand-written entry: registers one service through the collection it is given (or nothing)
			// and then reports an error of its own (or none)
			cn := &mnode{Leaf: "custom", Reg: -1, KeyKind: rapid.IntRange(0, 4).Draw(rt, "customErr")}
			if rapid.IntRange(0, 1).Draw(rt, "customAdds") == 0 {
				*regs = append(*regs, kit.GenLooseReg(rt, len(*regs), true))
				cn.Reg = len(*regs) - 1
				// ... directly, or by applying a module of its own to the collection (a conditional
				// sub-module helper: when(enabled, modules...))
				cn.Twice = rapid.Bool().Draw(rt, "customViaAddModules")
			}
			n.Children = append(n.Children, cn)
		case c == 3:
			n.Children = append(n.Children, &mnode{Leaf: rapid.SampledFrom([]string{"remove", "removeKeyed"}).Draw(rt, "rmkind"), T: rapid.SampledFrom(c17Types).Draw(rt, "rmT"), KeyKind: rapid.IntRange(0, len(rmKeys)-1).Draw(rt, "rmKey")})
		default:
			reg := kit.GenLooseReg(rt, len(*regs), true)
			*regs = append(*regs, reg)
			n.Children = append(n.Children, &mnode{Leaf: "add", Reg: len(*regs) - 1})
		}
	}
	if sharedPool != nil && len(n.Children) > 0 {
		*sharedPool = append(*sharedPool, n)
	}
	return n
}

func (n *mnode) option(w *kit.World) godi.ModuleOption {
	switch n.Leaf {
	case "add":
		return w.ModuleOption(&w.Cfg.Regs[n.Reg])
	case "remove":
		return removeOption(n.T, false, nil)
	case "removeKeyed":
		return removeOption(n.T, true, rmKeys[n.KeyKind])
	case "nil":
		return nil
	case "addnil":
		switch n.T {
		case 0:
			return godi.AddSingleton(nil)
		case 1:
			return godi.AddScoped(nil)
		}
		return godi.AddTransient(nil)
	case "gate":
		return n.Gate
	case "custom":
		reg, kind, viaModules := n.Reg, n.KeyKind, n.Twice
		return func(c godi.Collection) error {
			if reg >= 0 && viaModules {
				if err := c.AddModules(godi.NewModule("sub", w.ModuleOption(&w.Cfg.Regs[reg]))); err != nil {
					return err
				}
			} else if reg >= 0 {
				if err := w.Register(c, &w.Cfg.Regs[reg]); err != nil {
					return err
				}
			}
			return customEntryError(kind)
		}
	}
	if n.optFor == w && n.opt != nil {
		return n.opt // the same module value, included once more
	}
	opts := make([]godi.ModuleOption, len(n.Children))
	for i, c := range n.Children {
		opts[i] = c.option(w)
	}
	m := godi.NewModule(n.Name, opts...)
	defer func() { n.optFor, n.opt = w, m }()
	if n.Twice {
		// the same entry list (a slice the caller keeps) is used to build the module a second time:
		// building a module must not change the list it was given
		m = godi.NewModule(n.Name, opts...)
	}
	return m
}

// flatten lists the leaves left to right with the names of their enclosing modules.
type flatLeaf struct {
	N    *mnode
	Path []string
}

func (n *mnode) flatten(path []string, out *[]flatLeaf) {
	if n.Leaf != "" {
		*out = append(*out, flatLeaf{n, append([]string(nil), path...)})
		return
	}
	p := append(append([]string(nil), path...), n.Name)
	for _, c := range n.Children {
		c.flatten(p, out)
	}
}

var voidKeyRe = regexp.MustCompile(`\bv[0-9a-z]+\b`)

// sliceShape renders ToSlice as a sorted multiset (no order is promised).
func sliceShape(c godi.Collection) string {
	var parts []string
	for _, d := range c.ToSlice() {
		if d == nil {
			parts = append(parts, "<nil>")
			continue
		}
		key := fmt.Sprint(d.Key)
		if d.VoidReturn {
			key = "void"
		}
		parts = append(parts, fmt.Sprintf("%v|%s|%s|%v", d.Type, key, d.Group, d.Lifetime))
	}
	sort.Strings(parts)
	return strings.Join(parts, ";")
}

func TestC20Modules(t *testing.T) {
	col := evid.New("C20", "module-tree-vs-flat", "module trees (depth<=5, fan-out<=5, repeated and empty names; now and then at the bottom of a chain of 10-150 modules that contain only the next one) whose leaves are Add*/Remove/RemoveKeyed entries over a tiny identity pool, nil entries and failing entries (duplicates, invalid options) at arbitrary positions; twin collections: A gets the tree through AddModules, B gets the flattened calls directly and stops at the first error; oracle: same error-or-not, A's error unwraps to ModuleErrors naming exactly the enclosing modules outermost first with the innermost cause classified and worded like B's error, identical Count/ToSlice/Contains*, identical Build verdict, canonical object graph and constructor counts; non-trivial = nesting>=2 with a failing or Remove entry that is not in first position")
	defer col.Flush()
	rapid.Check(t, propC20Modules(col))
}

// propC20Modules is the property of TestC20Modules; the native fuzz target of the same name decodes its input through it.
func propC20Modules(col *evid.Collector) func(rt *rapid.T) {
	return func(rt *rapid.T) {
		var regs []kit.Reg
		ntop := rapid.IntRange(1, 3).Draw(rt, "ntop")
		var tops []*mnode
		pool := []*mnode{}
		sharedPool = &pool // finished modules may be included again further to the right
		for i := 0; i < ntop; i++ {
			tops = append(tops, genTree(rt, 1, &regs))
		}
		sharedPool = nil
		if rapid.IntRange(0, 5).Draw(rt, "deepChain") == 0 {
			// "any nesting": one of the trees sits at the bottom of a long chain of modules that
			// contain nothing but the next one (generated code, a plug-in inside a plug-in ...)
			i := rapid.IntRange(0, len(tops)-1).Draw(rt, "deepTop")
			for k := rapid.SampledFrom([]int{10, 31, 32, 33, 40, 70, 150}).Draw(rt, "chainLen"); k > 0; k-- {
				tops[i] = &mnode{Name: rapid.SampledFrom([]string{"w", "w", "wrap", ""}).Draw(rt, "wname"), Children: []*mnode{tops[i]}}
			}
		}
		if len(pool) > 0 && rapid.IntRange(0, 3).Draw(rt, "reapply") == 0 {
			// a module that has been applied is applied once more at the very end
			tops = append(tops, rapid.SampledFrom(pool).Draw(rt, "reapplied"))
		}
		mk := func() (*kit.World, godi.Collection) {
			cfg := &kit.Config{Regs: append([]kit.Reg(nil), regs...)}
			w, _ := kit.NewWorld(&kit.Config{})
			w.Cfg = cfg
			return w, godi.NewCollection()
		}
		wa, ca := mk()
		wb, cb := mk()
		// A: the tree
		var errA error
		var panA any
		func() {
			defer func() { panA = recover() }()
			opts := make([]godi.ModuleOption, len(tops))
			for i, n := range tops {
				opts[i] = n.option(wa)
			}
			errA = ca.AddModules(opts...)
		}()
		// B: flat
		var leaves []flatLeaf
		for _, n := range tops {
			n.flatten(nil, &leaves)
		}
		var errB error
		failIdx := -1
		customRegFailed := false // the failing entry is a hand-written one whose own registration call failed
		// a reference registry over the flat list only to notice when the sequence removes one output of a
		// multi-output registration: what such a registration then means is left open (see C17), and godi's
		// answer depends on map order, so the built providers are not compared in that case
		refB := newRefRegistry()
		for i, lf := range leaves {
			switch lf.N.Leaf {
			case "add":
				errB = wb.Register(cb, &wb.Cfg.Regs[lf.N.Reg])
				if errB == nil {
					refB.add(wb.Cfg.Regs[lf.N.Reg])
				}
			case "addnil":
				switch lf.N.T {
				case 0:
					errB = cb.AddSingleton(nil)
				case 1:
					errB = cb.AddScoped(nil)
				default:
					errB = cb.AddTransient(nil)
				}
			case "custom":
				if lf.N.Reg >= 0 {
					if errB = wb.Register(cb, &wb.Cfg.Regs[lf.N.Reg]); errB == nil {
						refB.add(wb.Cfg.Regs[lf.N.Reg])
					} else {
						customRegFailed = true
						if lf.N.Twice {
							leaves[i].Path = append(append([]string(nil), lf.Path...), "sub")
						}
					}
				}
				if errB == nil {
					errB = customEntryError(lf.N.KeyKind)
				}
			case "remove":
				cb.Remove(kit.RType(lf.N.T))
				refB.remove(kit.Ident{T: lf.N.T})
			case "removeKeyed":
				cb.RemoveKeyed(kit.RType(lf.N.T), rmKeys[lf.N.KeyKind])
				refB.remove(kit.Ident{T: lf.N.T, Key: "a"})
			}
			if errB != nil {
				failIdx = i
				break
			}
		}
		desc := make([]string, len(tops))
		for i, n := range tops {
			desc[i] = n.String()
		}
		canon := strings.Join(desc, " | ") + " || regs: " + (&kit.Config{Regs: regs}).String()
		depthOfFail, nt := 0, false
		if failIdx >= 0 {
			depthOfFail = len(leaves[failIdx].Path)
			if depthOfFail >= 2 && failIdx > 0 {
				nt = true
			}
		}
		for i, lf := range leaves {
			if (lf.N.Leaf == "remove" || lf.N.Leaf == "removeKeyed") && len(lf.Path) >= 2 && i > 0 && (failIdx < 0 || i < failIdx) {
				nt = true
			}
		}
		labels := []string{fmt.Sprintf("fail-depth=%d", depthOfFail)}
		col.Case(nt, canon, canon, labels...)
		var f *Failure
		switch {
		case panA != nil:
			f = fail("C20", "no-panic", "addmodules", "AddModules panicked: %v", panA)
		case (errA == nil) != (errB == nil):
			f = fail("C20", "same-verdict", fmt.Sprintf("A=%v/B=%v", errA != nil, errB != nil), "module tree returned %v, flat calls returned %v", firstLine(errA), firstLine(errB))
		case errA != nil:
			// unwrap ModuleErrors
			var names []string
			cur := errA
			for {
				var me godi.ModuleError
				if m, ok := cur.(godi.ModuleError); ok {
					me = m
				} else if mp, ok := cur.(*godi.ModuleError); ok && mp != nil {
					me = *mp
				} else {
					break
				}
				names = append(names, me.Module)
				cur = me.Cause
			}
			want := leaves[failIdx].Path
			if fmt.Sprint(names) != fmt.Sprint(want) {
				f = fail("C20", "wrapping", fmt.Sprintf("depth%d", len(want)), "error is wrapped by modules %q, the failing entry is enclosed by %q", names, want)
				break
			}
			if cur == nil {
				f = fail("C20", "wrapping", "nil-cause", "innermost cause is nil")
				break
			}
			if kit.Classify(cur) != kit.Classify(errB) || kit.IsAlreadyRegistered(cur) != kit.IsAlreadyRegistered(errB) || kit.IsAlreadyRegistered(errA) != kit.IsAlreadyRegistered(errB) {
				f = fail("C20", "cause-reachable", "class", "cause %v is classified differently from the direct call's error %v", firstLine(cur), firstLine(errB))
				break
			}
			if !errors.Is(errA, cur) {
				f = fail("C20", "cause-reachable", "errors.Is", "errors.Is(wrapped, cause) is false")
				break
			}
			if a, b := voidKeyRe.ReplaceAllString(cur.Error(), "v#"), voidKeyRe.ReplaceAllString(errB.Error(), "v#"); a != b {
				f = fail("C20", "cause-reachable", "message", "innermost cause %q differs from the direct call's error %q", a, b)
				break
			}
			if lf := leaves[failIdx]; lf.N.Leaf == "custom" && !customRegFailed {
				col.Label("custom-entry-error")
				if !customCauseReachable(errA, lf.N.KeyKind) {
					f = fail("C20", "cause-reachable", "custom-entry", "the error a hand-written entry returned (%v) is not reachable through errors.Is/As from %v", errB, firstLine(errA))
				}
			}
		}
		if f == nil {
			if ca.Count() != cb.Count() || sliceShape(ca) != sliceShape(cb) {
				f = fail("C20", "same-collection", "toslice", "collections differ: tree gives %d [%s], flat gives %d [%s]", ca.Count(), sliceShape(ca), cb.Count(), sliceShape(cb))
			}
			for _, ty := range c17Types {
				if ca.Contains(kit.RType(ty)) != cb.Contains(kit.RType(ty)) || ca.ContainsKeyed(kit.RType(ty), "a") != cb.ContainsKeyed(kit.RType(ty), "a") {
					f = fail("C20", "same-collection", "contains", "Contains/ContainsKeyed(%s) differ between tree and flat registration", kit.TypeName(ty))
				}
			}
		}
		if refB.tainted != "" {
			col.Label("tainted(providers not compared)")
		}
		if f == nil && refB.tainted == "" {
			ra, rb := kit.NewRunner(wa), kit.NewRunner(wb)
			ra.Coll, rb.Coll = ca, cb
			oa, ob := ra.BuildExisting(), rb.BuildExisting()
			switch {
			case oa.Panic != nil || ob.Panic != nil:
				f = fail("C20", "no-panic", "build", "Build panicked: %v / %v", oa.Panic, ob.Panic)
			case kit.Classify(oa.Err) != kit.Classify(ob.Err):
				f = fail("C20", "same-provider", "verdict", "Build verdicts differ: tree %v, flat %v", firstLine(oa.Err), firstLine(ob.Err))
			case oa.Err == nil:
				var ga, gb []string
				for _, id := range allPoolIdents() {
					a, b := ra.Resolve(0, id), rb.Resolve(0, id)
					ga = append(ga, renderObs(a))
					gb = append(gb, renderObs(b))
				}
				if strings.Join(ga, ";") != strings.Join(gb, ";") {
					f = fail("C20", "same-provider", "resolution", "providers differ:\n tree: %s\n flat: %s", strings.Join(ga, ";"), strings.Join(gb, ";"))
				}
				for id, n := range wa.Count {
					if wb.Count[id] != n {
						f = fail("C20", "same-provider", "ctor-count", "constructor of r%d ran %d times (tree) vs %d (flat)", id, n, wb.Count[id])
					}
				}
				ra.CloseProvider()
				rb.CloseProvider()
			}
		}
		if f != nil {
			if isKnown(f) {
				col.Excluded()
				return
			}
			rt.Fatalf("VIOLATION %s\n%s", f, canon)
		}
	}
}

func renderObs(o *kit.Obs) string {
	if o.Panic != nil {
		return "PANIC"
	}
	if o.Err != nil {
		return "ERR:" + kit.Classify(o.Err)
	}
	parts := make([]string, len(o.Entries))
	for i, e := range o.Entries {
		if e == nil {
			parts[i] = "nil"
		} else {
			parts[i] = fmt.Sprintf("r%d.%d", e.Reg, e.Out)
		}
	}
	return strings.Join(parts, ",")
}

func (n *mnode) modules(out *[]*mnode) {
	if n.Leaf != "" {
		return
	}
	*out = append(*out, n)
	for _, c := range n.Children {
		c.modules(out)
	}
}

// TestC20Shared: a module is a value that can be applied to any number of
// collections (package-level module variables are the documented style).
// Applying one module value to a second collection while its application to a
// first one is still in progress must give both exactly what a lone
// application gives.
func TestC20Shared(t *testing.T) {
	col := evid.New("C20", "shared-module-value", "one generated module tree (same generator as the tree-vs-flat part) is turned into module values once; goroutine 1 applies them to collection A and is parked inside an entry of a generated position of the tree (an entry that registers nothing); the main goroutine then applies the same values to collection A2 to completion, releases goroutine 1, and finally applies them to a third collection A3 with nothing else going on; oracle: no panic, no hang, and A, A2 and A3 end up with the same error (text and class) and the same Count/ToSlice/Contains*; non-trivial = goroutine 1 was parked inside a nested module")
	defer col.Flush()
	rapid.Check(t, func(rt *rapid.T) {
		var regs []kit.Reg
		ntop := rapid.IntRange(1, 3).Draw(rt, "ntop")
		var tops []*mnode
		for i := 0; i < ntop; i++ {
			tops = append(tops, genTree(rt, 1, &regs))
		}
		var mods []*mnode
		for _, n := range tops {
			n.modules(&mods)
		}
		host := rapid.SampledFrom(mods).Draw(rt, "gatehost")
		pos := rapid.IntRange(0, len(host.Children)).Draw(rt, "gatepos")
		ca, ca2, ca3 := godi.NewCollection(), godi.NewCollection(), godi.NewCollection()
		parked, release := make(chan struct{}), make(chan struct{})
		gate := &mnode{Leaf: "gate", Gate: func(c godi.Collection) error {
			if c == ca {
				close(parked)
				<-release
			}
			return nil
		}}
		host.Children = append(host.Children[:pos:pos], append([]*mnode{gate}, host.Children[pos:]...)...)
		w, _ := kit.NewWorld(&kit.Config{})
		w.Cfg = &kit.Config{Regs: append([]kit.Reg(nil), regs...)}
		opts := make([]godi.ModuleOption, len(tops))
		for i, n := range tops {
			opts[i] = n.option(w)
		}
		desc := make([]string, len(tops))
		for i, n := range tops {
			desc[i] = n.String()
		}
		canon := strings.Join(desc, " | ") + " || regs: " + w.Cfg.String()
		type res struct {
			err error
			pan any
		}
		apply := func(c godi.Collection) (r res) {
			defer func() { r.pan = recover() }()
			r.err = c.AddModules(opts...)
			return
		}
		doneA := make(chan res, 1)
		go func() { doneA <- apply(ca) }()
		didPark := false
		var rA res
		gotA := false
		select {
		case <-parked:
			didPark = true
		case rA = <-doneA:
			gotA = true
		case <-time.After(20 * time.Second):
			rt.Fatalf("VIOLATION C20/no-hang [first]: applying the modules to the first collection did not return\n%s", canon)
		}
		done2 := make(chan res, 1)
		go func() { done2 <- apply(ca2) }()
		var r2 res
		select {
		case r2 = <-done2:
		case <-time.After(20 * time.Second):
			close(release)
			rt.Fatalf("VIOLATION C20/no-hang [second]: applying the module values to a second collection blocks while their application to the first one is in progress\n%s", canon)
		}
		if didPark {
			close(release)
		}
		if !gotA {
			select {
			case rA = <-doneA:
			case <-time.After(20 * time.Second):
				rt.Fatalf("VIOLATION C20/no-hang [first-after-release]\n%s", canon)
			}
		}
		r3 := apply(ca3)
		depth := 0
		var leaves []flatLeaf
		for _, n := range tops {
			n.flatten(nil, &leaves)
		}
		for _, lf := range leaves {
			if lf.N == gate {
				depth = len(lf.Path)
			}
		}
		col.Case(didPark && depth >= 2, canon, canon, fmt.Sprintf("parked=%v", didPark), fmt.Sprintf("gate-depth=%d", min(depth, 4)))
		render := func(r res, c godi.Collection) string {
			e := "<nil>"
			if r.err != nil {
				e = voidKeyRe.ReplaceAllString(r.err.Error(), "v#") + "/" + kit.Classify(r.err)
			}
			cont := ""
			for _, ty := range c17Types {
				cont += fmt.Sprintf("%v%v", c.Contains(kit.RType(ty)), c.ContainsKeyed(kit.RType(ty), "a"))
			}
			return fmt.Sprintf("err=%s count=%d shape=[%s] contains=%s", e, c.Count(), sliceShape(c), cont)
		}
		var f *Failure
		switch {
		case rA.pan != nil || r2.pan != nil || r3.pan != nil:
			f = fail("C20", "no-panic", "shared", "AddModules panicked: %v / %v / %v", rA.pan, r2.pan, r3.pan)
		case render(r2, ca2) != render(r3, ca3):
			f = fail("C20", "shared-module", "overlapping-second", "the collection that received the module values while their first application was in progress differs from a lone application:\n  overlapped: %s\n  alone:      %s", render(r2, ca2), render(r3, ca3))
		case render(rA, ca) != render(r3, ca3):
			f = fail("C20", "shared-module", "overlapped-first", "the collection whose application was overlapped differs from a lone application:\n  overlapped: %s\n  alone:      %s", render(rA, ca), render(r3, ca3))
		}
		if f != nil {
			if isKnown(f) {
				col.Excluded()
				return
			}
			rt.Fatalf("VIOLATION %s\ntree: %s", f, canon)
		}
	})
}

package props

import (
	"context"
	"fmt"
	"reflect"
	"strings"
	"testing"

	"verif/evid"

	"github.com/junioryono/godi/v4"
	"pgregory.net/rapid"
)

// One constructor function registered by several separate calls - each call
// with its own lifetime and its own interfaces (godi.As) - is several
// registrations that happen to run the same code. What a transient one of
// them makes is handed out once, whatever the other registrations of that
// function do with theirs.

type scBuf struct {
	id  int
	tag string
}

func (*scBuf) IsReader()  {}
func (*scBuf) IsWriter()  {}
func (*scBuf) IsFlusher() {}
func (*scBuf) IsSeeker()  {}

type (
	scReader  interface{ IsReader() }
	scWriter  interface{ IsWriter() }
	scFlusher interface{ IsFlusher() }
	scSeeker  interface{ IsSeeker() }
)

var scIfaces = []struct {
	name string
	typ  reflect.Type
	as   func() godi.AddOption
}{
	{"Reader", reflect.TypeOf((*scReader)(nil)).Elem(), func() godi.AddOption { return godi.As[scReader]() }},
	{"Writer", reflect.TypeOf((*scWriter)(nil)).Elem(), func() godi.AddOption { return godi.As[scWriter]() }},
	{"Flusher", reflect.TypeOf((*scFlusher)(nil)).Elem(), func() godi.AddOption { return godi.As[scFlusher]() }},
	{"Seeker", reflect.TypeOf((*scSeeker)(nil)).Elem(), func() godi.AddOption { return godi.As[scSeeker]() }},
}

// scFactory returns closures that share their code: only the captured tag differs.
func scFactory(tag string, next *int) func() *scBuf {
	return func() *scBuf { *next++; return &scBuf{id: *next, tag: tag} }
}

func TestC03SharedConstructor(t *testing.T) {
	col := evid.New("C03", "one-function-several-registrations", "2-4 separate registration calls, each passing one of two closures of one factory (the same code pointer; calls may pass the very same function value) with its own lifetime and a disjoint non-empty set of interfaces (godi.As); the interfaces are resolved in a generated order from the provider and from 1-3 scopes; oracle per answer: the instance was made by the closure that call registered; for a transient call it has never been handed out before, under any interface of any call, and is never handed out again; for a scoped call it is the one instance of (call, scope) - never one seen under another call or in another scope; for a singleton call the one instance of the call; non-trivial = one function value registered by a transient call and by a scoped or singleton call, both resolved in one scope")
	defer col.Flush()
	rapid.Check(t, func(rt *rapid.T) {
		next := 0
		fns := map[string]func() *scBuf{"f": scFactory("f", &next), "g": scFactory("g", &next)}
		type call struct {
			fn     string
			life   int
			ifaces []int
		}
		free := rapid.Permutation([]int{0, 1, 2, 3}).Draw(rt, "ifaceOrder")
		ncalls := rapid.IntRange(2, 4).Draw(rt, "ncalls")
		var calls []call
		ownerOf := map[int]int{} // interface -> call
		coll := godi.NewCollection()
		var desc []string
		for i := 0; i < ncalls; i++ {
			c := call{fn: rapid.SampledFrom([]string{"f", "f", "g"}).Draw(rt, "fn"), life: rapid.IntRange(0, 2).Draw(rt, "life")}
			n := 1
			if len(free)-(ncalls-i-1) > 1 && rapid.Bool().Draw(rt, "two") {
				n = 2
			}
			c.ifaces, free = free[:n], free[n:]
			var opts []godi.AddOption
			var names []string
			for _, k := range c.ifaces {
				opts = append(opts, scIfaces[k].as())
				names = append(names, scIfaces[k].name)
				ownerOf[k] = i
			}
			var err error
			switch c.life {
			case 0:
				err = coll.AddSingleton(fns[c.fn], opts...)
			case 1:
				err = coll.AddScoped(fns[c.fn], opts...)
			default:
				err = coll.AddTransient(fns[c.fn], opts...)
			}
			if err != nil {
				rt.Fatalf("VIOLATION C03/shared-constructor [register]: call %d (%s, %s, As %v) was refused: %v\nearlier calls: %s", i, c.fn, lifeName(c.life), names, err, strings.Join(desc, " ; "))
			}
			calls = append(calls, c)
			desc = append(desc, fmt.Sprintf("call%d:%s(%s) As%v", i, lifeName(c.life), c.fn, names))
		}
		p, err := coll.Build()
		if err != nil {
			rt.Fatalf("VIOLATION C03/shared-constructor [build]: Build failed: %v\n%s", err, strings.Join(desc, " ; "))
		}
		defer p.Close()
		targets := []godi.Provider{p}
		for i, n := 0, rapid.IntRange(1, 3).Draw(rt, "nscopes"); i < n; i++ {
			s, err := p.CreateScope(context.Background())
			if err != nil {
				rt.Fatalf("CreateScope: %v", err)
			}
			defer s.Close()
			targets = append(targets, s)
		}
		type place struct{ call, target int }
		seenAt := map[int]string{}  // instance id -> where it was first handed out
		transient := map[int]bool{} // instance ids handed out for a transient call
		held := map[place]int{}     // (scoped call, target) / (singleton call, -1) -> instance id
		resolvedIn := map[place]bool{}
		var steps []string
		canon := func() string { return strings.Join(desc, " ; ") + " | " + strings.Join(steps, " ") }
		nt := false
		for i := rapid.IntRange(2, 12).Draw(rt, "ngets"); i > 0; i-- {
			ti := rapid.IntRange(0, len(targets)-1).Draw(rt, "target")
			k := rapid.SampledFrom(keysOfIntMap(ownerOf)).Draw(rt, "iface")
			ci := ownerOf[k]
			c := calls[ci]
			v, err := targets[ti].Get(scIfaces[k].typ)
			where := fmt.Sprintf("get(t%d,%s)", ti, scIfaces[k].name)
			steps = append(steps, where)
			if err != nil {
				rt.Fatalf("VIOLATION C03/shared-constructor [resolve]: %s: %v\n%s", where, err, canon())
			}
			b, ok := v.(*scBuf)
			if !ok || b == nil {
				rt.Fatalf("VIOLATION C03/shared-constructor [resolve]: %s yielded %T\n%s", where, v, canon())
			}
			if b.tag != c.fn {
				rt.Fatalf("VIOLATION C04/right-constructor [shared-code]: %s yielded an instance made by closure %q, call %d registered closure %q\n%s", where, b.tag, ci, c.fn, canon())
			}
			resolvedIn[place{ci, ti}] = true
			for cj, d := range calls {
				if cj != ci && d.fn == c.fn && resolvedIn[place{cj, ti}] && (c.life == 2) != (d.life == 2) {
					nt = true
				}
			}
			first, seen := seenAt[b.id]
			switch c.life {
			case 2:
				if seen {
					rt.Fatalf("VIOLATION C03/fresh [shared-constructor]: %s (a transient registration) yielded instance #%d, which had already been handed out by %s\n%s", where, b.id, first, canon())
				}
				transient[b.id] = true
			default:
				pl := place{ci, ti}
				if c.life == 0 {
					pl = place{ci, -1}
				}
				if id, ok := held[pl]; ok {
					if id != b.id {
						rt.Fatalf("VIOLATION C03/shared-constructor [%s-instance]: %s yielded instance #%d, earlier resolutions of that registration there yielded #%d\n%s", lifeName(c.life), where, b.id, id, canon())
					}
				} else {
					if transient[b.id] {
						rt.Fatalf("VIOLATION C03/fresh [shared-constructor]: %s (a %s registration) yielded instance #%d, which had been handed out before as a transient by %s\n%s", where, lifeName(c.life), b.id, first, canon())
					}
					if seen {
						rt.Fatalf("VIOLATION C03/shared-constructor [%s-instance]: %s yielded instance #%d, which belongs to another registration or scope (first handed out by %s)\n%s", lifeName(c.life), where, b.id, first, canon())
					}
					held[pl] = b.id
				}
			}
			if !seen {
				seenAt[b.id] = where
			}
		}
		col.Case(nt, canon(), canon())
	})
}

func keysOfIntMap(m map[int]int) []int {
	var out []int
	for k := range m {
		out = append(out, k)
	}
	for i := range out {
		for j := i + 1; j < len(out); j++ {
			if out[j] < out[i] {
				out[i], out[j] = out[j], out[i]
			}
		}
	}
	return out
}

package props

import (
	"context"
	"fmt"
	"reflect"
	"strings"
	"testing"

	"verif/evid"

	"github.com/junioryono/godi/v4"
	"pgregory.net/rapid"
)

// One constructor function registered by several separate calls - each call
// with its own lifetime and its own interfaces (godi.As) - is several
// registrations that happen to run the same code. What a transient one of
// them makes is handed out once, whatever the other registrations of that
// function do with theirs.

type scBuf struct {
	id  int
	tag string
}

func (*scBuf) IsReader()  {}
func (*scBuf) IsWriter()  {}
func (*scBuf) IsFlusher() {}
func (*scBuf) IsSeeker()  {}

type (
	scReader  interface{ IsReader() }
	scWriter  interface{ IsWriter() }
	scFlusher interface{ IsFlusher() }
	scSeeker  interface{ IsSeeker() }
)

var scIfaces = []struct {
	name string
	typ  reflect.Type
	as   func() godi.AddOption
}{
	{"Reader", reflect.TypeOf((*scReader)(nil)).Elem(), func() godi.AddOption { return godi.As[scReader]() }},
	{"Writer", reflect.TypeOf((*scWriter)(nil)).Elem(), func() godi.AddOption { return godi.As[scWriter]() }},
	{"Flusher", reflect.TypeOf((*scFlusher)(nil)).Elem(), func() godi.AddOption { return godi.As[scFlusher]() }},
	{"Seeker", reflect.TypeOf((*scSeeker)(nil)).Elem(), func() godi.AddOption { return godi.As[scSeeker]() }},
}

// scFactory returns closures that share their code: only the captured tag differs.
func scFactory(tag string, next *int) func() *scBuf {
	return func() *scBuf { *next++; return &scBuf{id: *next, tag: tag} }
}

func TestC03SharedConstructor(t *testing.T) { runSharedConstructor(t, "C03") }

// TestC01SharedConstructor: the same programs seen from the singleton registrations: each of
// them is one registration of its own, constructed once at Build, whatever else was registered
// with the same function.
func TestC01SharedConstructor(t *testing.T) { runSharedConstructor(t, "C01") }

func runSharedConstructor(t *testing.T, prop string) {
	col := evid.New(prop, "one-function-several-registrations", "2-4 separate registration calls, each passing one of two closures of one factory (the same code pointer; calls may pass the very same function value) with its own lifetime and its own identity: a disjoint non-empty set of interfaces (godi.As), a name of its own, or membership in one group; the identities are resolved in a generated order from the provider and from 1-3 scopes; oracle: Build ran the function once per singleton call; per answer: the instance was made by the closure that call registered; for a transient call it has never been handed out before, under any identity of any call, and is never handed out again; for a scoped call it is the one instance of (call, scope) - never one seen under another call or in another scope; for a singleton call the one instance of the call; a group yields one member per call, in call order; non-trivial = one function value registered by two calls of which at least one is a singleton or scoped call, both resolved in one scope")
	defer col.Flush()
	bufType := reflect.TypeOf(&scBuf{})
	rapid.Check(t, func(rt *rapid.T) {
		next := 0
		fns := map[string]func() *scBuf{"f": scFactory("f", &next), "g": scFactory("g", &next)}
		type call struct {
			fn     string
			life   int
			ifaces []int  // identity: interfaces ...
			name   string // ... or a name ...
			member int    // ... or the n-th member of group "grp" (-1: not a member)
		}
		free := rapid.Permutation([]int{0, 1, 2, 3}).Draw(rt, "ifaceOrder")
		ncalls := rapid.IntRange(2, 4).Draw(rt, "ncalls")
		var calls []call
		coll := godi.NewCollection()
		var desc []string
		members, singletons := 0, 0
		for i := 0; i < ncalls; i++ {
			c := call{fn: rapid.SampledFrom([]string{"f", "f", "g"}).Draw(rt, "fn"), life: rapid.IntRange(0, 2).Draw(rt, "life"), member: -1}
			var opts []godi.AddOption
			var ident string
			switch form := rapid.IntRange(0, 2).Draw(rt, "identity"); {
			case form == 0 && len(free) > 0:
				n := 1
				if len(free) > 1 && rapid.Bool().Draw(rt, "two") {
					n = 2
				}
				c.ifaces, free = free[:n], free[n:]
				var names []string
				for _, k := range c.ifaces {
					opts = append(opts, scIfaces[k].as())
					names = append(names, scIfaces[k].name)
				}
				ident = fmt.Sprintf("As%v", names)
			case form == 1:
				c.name = fmt.Sprintf("n%d", i)
				opts = append(opts, godi.Name(c.name))
				ident = "Name(" + c.name + ")"
			default:
				c.member = members
				members++
				opts = append(opts, godi.Group("grp"))
				ident = fmt.Sprintf("Group(grp)#%d", c.member)
			}
			var err error
			switch c.life {
			case 0:
				err = coll.AddSingleton(fns[c.fn], opts...)
				singletons++
			case 1:
				err = coll.AddScoped(fns[c.fn], opts...)
			default:
				err = coll.AddTransient(fns[c.fn], opts...)
			}
			if err != nil {
				rt.Fatalf("VIOLATION %s/shared-constructor [register]: call %d (%s, %s, %s) was refused: %v\nearlier calls: %s", prop, i, c.fn, lifeName(c.life), ident, err, strings.Join(desc, " ; "))
			}
			calls = append(calls, c)
			desc = append(desc, fmt.Sprintf("call%d:%s(%s) %s", i, lifeName(c.life), c.fn, ident))
		}
		p, err := coll.Build()
		if err != nil {
			rt.Fatalf("VIOLATION %s/shared-constructor [build]: Build failed: %v\n%s", prop, err, strings.Join(desc, " ; "))
		}
		defer p.Close()
		if next != singletons {
			rt.Fatalf("VIOLATION C01/once-at-build [shared-constructor]: %d singleton registrations, the constructors ran %d times during Build\n%s", singletons, next, strings.Join(desc, " ; "))
		}
		targets := []godi.Provider{p}
		for i, n := 0, rapid.IntRange(1, 3).Draw(rt, "nscopes"); i < n; i++ {
			s, err := p.CreateScope(context.Background())
			if err != nil {
				rt.Fatalf("CreateScope: %v", err)
			}
			defer s.Close()
			targets = append(targets, s)
		}
		type place struct{ call, target int }
		seenAt := map[int]string{}  // instance id -> where it was first handed out
		transient := map[int]bool{} // instance ids handed out for a transient call
		held := map[place]int{}     // (scoped call, target) / (singleton call, -1) -> instance id
		resolvedIn := map[place]bool{}
		var steps []string
		canon := func() string { return strings.Join(desc, " ; ") + " | " + strings.Join(steps, " ") }
		nt := false
		observe := func(ci, ti int, v any, where string) {
			c := calls[ci]
			b, ok := v.(*scBuf)
			if !ok || b == nil {
				rt.Fatalf("VIOLATION %s/shared-constructor [resolve]: %s yielded %T\n%s", prop, where, v, canon())
			}
			if b.tag != c.fn {
				rt.Fatalf("VIOLATION C04/right-constructor [shared-code]: %s yielded an instance made by closure %q, call %d registered closure %q\n%s", where, b.tag, ci, c.fn, canon())
			}
			resolvedIn[place{ci, ti}] = true
			for cj, d := range calls {
				if cj != ci && d.fn == c.fn && resolvedIn[place{cj, ti}] && (c.life != 2 || d.life != 2) {
					nt = true
				}
			}
			first, seen := seenAt[b.id]
			switch c.life {
			case 2:
				if seen {
					rt.Fatalf("VIOLATION C03/fresh [shared-constructor]: %s (a transient registration) yielded instance #%d, which had already been handed out by %s\n%s", where, b.id, first, canon())
				}
				transient[b.id] = true
			default:
				pl := place{ci, ti}
				if c.life == 0 {
					pl = place{ci, -1}
				}
				owner := map[int]string{0: "C01", 1: "C02"}[c.life]
				if id, ok := held[pl]; ok {
					if id != b.id {
						rt.Fatalf("VIOLATION %s/same-instance [shared-constructor/%s]: %s yielded instance #%d, earlier resolutions of that registration there yielded #%d\n%s", owner, lifeName(c.life), where, b.id, id, canon())
					}
				} else {
					if transient[b.id] {
						rt.Fatalf("VIOLATION C03/fresh [shared-constructor]: %s (a %s registration) yielded instance #%d, which had been handed out before as a transient by %s\n%s", where, lifeName(c.life), b.id, first, canon())
					}
					if seen {
						rt.Fatalf("VIOLATION %s/same-instance [shared-constructor/%s-foreign]: %s yielded instance #%d, which belongs to another registration or scope (first handed out by %s)\n%s", owner, lifeName(c.life), where, b.id, first, canon())
					}
					held[pl] = b.id
				}
			}
			if !seen {
				seenAt[b.id] = where
			}
		}
		for i := rapid.IntRange(2, 12).Draw(rt, "ngets"); i > 0; i-- {
			ti := rapid.IntRange(0, len(targets)-1).Draw(rt, "target")
			ci := rapid.IntRange(0, len(calls)-1).Draw(rt, "call")
			c := calls[ci]
			switch {
			case len(c.ifaces) > 0:
				k := rapid.SampledFrom(c.ifaces).Draw(rt, "iface")
				where := fmt.Sprintf("get(t%d,%s)", ti, scIfaces[k].name)
				steps = append(steps, where)
				v, err := targets[ti].Get(scIfaces[k].typ)
				if err != nil {
					rt.Fatalf("VIOLATION %s/shared-constructor [resolve]: %s: %v\n%s", prop, where, err, canon())
				}
				observe(ci, ti, v, where)
			case c.name != "":
				where := fmt.Sprintf("get(t%d,*scBuf:%s)", ti, c.name)
				steps = append(steps, where)
				v, err := targets[ti].GetKeyed(bufType, c.name)
				if err != nil {
					rt.Fatalf("VIOLATION %s/shared-constructor [resolve]: %s: %v\n%s", prop, where, err, canon())
				}
				observe(ci, ti, v, where)
			default:
				where := fmt.Sprintf("get(t%d,*scBuf[grp])", ti)
				steps = append(steps, where)
				vs, err := targets[ti].GetGroup(bufType, "grp")
				if err != nil {
					rt.Fatalf("VIOLATION %s/shared-constructor [resolve]: %s: %v\n%s", prop, where, err, canon())
				}
				if len(vs) != members {
					rt.Fatalf("VIOLATION C04/group-members [shared-constructor]: %s yielded %d members, %d calls registered one\n%s", where, len(vs), members, canon())
				}
				for cj, d := range calls {
					if d.member >= 0 {
						observe(cj, ti, vs[d.member], fmt.Sprintf("%s[%d]", where, d.member))
					}
				}
			}
		}
		col.Case(nt, canon(), canon())
	})
}

func keysOfIntMap(m map[int]int) []int {
	var out []int
	for k := range m {
		out = append(out, k)
	}
	for i := range out {
		for j := i + 1; j < len(out); j++ {
			if out[j] < out[i] {
				out[i], out[j] = out[j], out[i]
			}
		}
	}
	return out
}

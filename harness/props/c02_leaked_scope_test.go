package props

import (
	"context"
	"fmt"
	"reflect"
	"sync/atomic"
	"testing"
	"time"

	"verif/evid"

	"github.com/junioryono/godi/v4"
	"pgregory.net/rapid"
)

// TestC02LeakedScope: an initializer function that is handed the Scope may hand
// it on; another goroutine then resolves in a scope whose creation is still
// under way. "Initializer functions that return nothing run exactly once, when
// the scope is created" - also when somebody else asks for a (named) initializer,
// or for a scoped service, at that moment.

type lsSvc struct{ n int64 }
type lsUser struct {
	godi.In
	Ready struct{} `name:"prepare"`
}
type lsDependent struct{}

func TestC02LeakedScope(t *testing.T) {
	col := evid.New("C02", "scope-handed-on-during-creation", "a scope creation (on the provider or a scope of depth 1-2) with 2-4 initializer functions: an early one is handed the Scope and starts a goroutine that resolves, through that Scope, a later named initializer function (by its key, or through a service that depends on it by name) or a scoped service a later initializer depends on; that resolution is held inside the function / constructor while the creation goes on to the same registration, then released; oracle: in the scope under construction the named initializer and the scoped service's constructor have run exactly once, everybody got the same scoped instance, nothing hangs; non-trivial = the foreign resolution was inside the function when the creation reached it")
	defer col.Flush()
	voidT := reflect.TypeOf(struct{}{})
	rapid.Check(t, func(rt *rapid.T) {
		target := rapid.SampledFrom([]string{"named-by-key", "named-through-dependent", "scoped-service"}).Draw(rt, "target")
		extra := rapid.IntRange(0, 2).Draw(rt, "extraInitializers")
		depth := rapid.IntRange(0, 2).Draw(rt, "depth")
		canon := fmt.Sprintf("target=%s extra=%d depth=%d", target, extra, depth)
		var armed atomic.Bool
		var namedRuns, svcRuns atomic.Int64
		inside, release := make(chan struct{}, 4), make(chan struct{})
		var foreignErr error
		foreignDone := make(chan struct{})
		coll := godi.NewCollection()
		must := func(err error) {
			if err != nil {
				rt.Fatalf("registration failed: %v", err)
			}
		}
		hold := func(runs *atomic.Int64) {
			if !armed.Load() {
				return
			}
			if runs.Add(1) == 1 {
				inside <- struct{}{}
				<-release
			}
		}
		// the early initializer: hands the scope on
		must(coll.AddScoped(func(s godi.Scope) {
			if !armed.Load() {
				return
			}
			go func() {
				defer close(foreignDone)
				switch target {
				case "named-by-key":
					_, foreignErr = s.GetKeyed(voidT, "prepare")
				case "named-through-dependent":
					_, foreignErr = godi.Resolve[*lsDependent](s)
				default:
					_, foreignErr = godi.Resolve[*lsSvc](s)
				}
			}()
			select {
			case <-inside:
			case <-time.After(5 * time.Second):
			}
		}))
		for i := 0; i < extra; i++ {
			must(coll.AddScoped(func() {}))
		}
		must(coll.AddScoped(func() { hold(&namedRuns) }, godi.Name("prepare")))
		must(coll.AddScoped(func(lsUser) *lsDependent { return &lsDependent{} }))
		must(coll.AddScoped(func() *lsSvc { hold(&svcRuns); return &lsSvc{svcRuns.Load()} }))
		must(coll.AddScoped(func(*lsSvc) {})) // a later initializer that needs the scoped service
		p, err := coll.Build()
		if err != nil {
			rt.Fatalf("VIOLATION C02/harness: Build failed: %v", err)
		}
		defer p.Close()
		var parent godi.Provider = p
		for d := 0; d < depth; d++ {
			s, err := parent.CreateScope(context.Background())
			if err != nil {
				rt.Fatalf("CreateScope: %v", err)
			}
			parent = s
		}
		armed.Store(true)
		type res struct {
			s   godi.Scope
			err error
		}
		done := make(chan res, 1)
		go func() {
			s, err := parent.CreateScope(context.Background())
			done <- res{s, err}
		}()
		// give the creation time to reach the registration the foreign resolution is inside of
		overlapped := false
		var r res
		select {
		case r = <-done:
		case <-time.After(30 * time.Millisecond):
			overlapped = true
		}
		close(release)
		if overlapped {
			select {
			case r = <-done:
			case <-time.After(10 * time.Second):
				rt.Fatalf("VIOLATION C02/no-hang [leaked-scope]: CreateScope has not returned 10 s after the foreign resolution was released\n%s", canon)
			}
		}
		select {
		case <-foreignDone:
		case <-time.After(10 * time.Second):
			rt.Fatalf("VIOLATION C02/no-hang [leaked-scope/foreign]: the resolution through the handed-on scope has not returned\n%s", canon)
		}
		armed.Store(false)
		col.Case(overlapped, canon, canon, "target="+target, fmt.Sprintf("overlapped=%v", overlapped))
		if r.err != nil {
			rt.Fatalf("VIOLATION C02/initializer-once [leaked-scope/create]: CreateScope failed: %v (foreign resolution: %v)\n%s", r.err, foreignErr, canon)
		}
		if foreignErr != nil {
			rt.Fatalf("VIOLATION C02/initializer-once [leaked-scope/foreign]: the resolution through the handed-on scope failed: %v\n%s", foreignErr, canon)
		}
		if n := namedRuns.Load(); n != 1 {
			rt.Fatalf("VIOLATION C02/initializer-once [leaked-scope/named/%s]: the named initializer function ran %d times in the scope under construction\n%s", target, n, canon)
		}
		if n := svcRuns.Load(); n != 1 {
			rt.Fatalf("VIOLATION C02/one-per-scope [leaked-scope/scoped-service]: the scoped service's constructor ran %d times in the scope under construction\n%s", n, canon)
		}
		_ = r.s.Close()
	})
}

package props

import (
	"context"
	"fmt"
	"sync/atomic"
	"testing"

	"verif/evid"

	"github.com/junioryono/godi/v4"
	"pgregory.net/rapid"
)

// Parameter objects and result objects whose fields are *embedded*: a field
// without a name of its own is a field like any other (only the embedded
// godi.In / godi.Out marker is not). reflect.StructOf cannot make such types,
// so these parts use static ones.

// ---------- C18: built-ins through embedded parameter-object fields ----------

type ebInAll struct {
	godi.In
	context.Context
	godi.Scope
	godi.Provider
}

type ebInCtx struct {
	godi.In
	context.Context
	Sc godi.Scope
}

type ebGot struct {
	ctx context.Context
	sc  godi.Scope
	pr  godi.Provider
}
type ebScoped struct{ ebGot }
type ebTransient struct{ ebGot }
type ebSingleton struct{ ebGot }
type ebScopedCtx struct{ ebGot }

type ebKey struct{}

func TestC18EmbeddedBuiltins(t *testing.T) {
	col := evid.New("C18", "embedded-builtin-fields", "a scoped, a transient and a singleton service whose parameter objects embed context.Context, godi.Scope and godi.Provider (struct{ godi.In; context.Context; godi.Scope; godi.Provider }), and a scoped one that embeds the context next to a named Scope field; generated scope trees (depth 1-3, value-carrying contexts or nil) with resolutions in generated scopes; oracle: the service constructed for a resolution issued on scope s holds s, s.Context() and the built provider (singleton: the root scope, its context, the provider), and the context carries the value of the context s was created with; non-trivial = a resolution in a scope of depth >= 2")
	defer col.Flush()
	rapid.Check(t, func(rt *rapid.T) {
		coll := godi.NewCollection()
		must := func(err error) {
			if err != nil {
				rt.Fatalf("registration failed: %v", err)
			}
		}
		must(coll.AddScoped(func(in ebInAll) *ebScoped { return &ebScoped{ebGot{in.Context, in.Scope, in.Provider}} }))
		must(coll.AddTransient(func(in ebInAll) *ebTransient { return &ebTransient{ebGot{in.Context, in.Scope, in.Provider}} }))
		must(coll.AddSingleton(func(in ebInAll) *ebSingleton { return &ebSingleton{ebGot{in.Context, in.Scope, in.Provider}} }))
		must(coll.AddScoped(func(in ebInCtx) *ebScopedCtx { return &ebScopedCtx{ebGot{in.Context, in.Sc, nil}} }))
		p, err := coll.Build()
		if err != nil {
			rt.Fatalf("VIOLATION C18/injected [embedded/build]: Build failed: %v", err)
		}
		defer p.Close()
		root, err := godi.Resolve[godi.Scope](p)
		if err != nil {
			rt.Fatalf("Resolve[Scope](provider): %v", err)
		}
		type node struct {
			s     godi.Scope
			depth int
			val   any
		}
		nodes := []node{{root, 0, nil}}
		var steps []string
		maxDepth := 0
		for i, n := 0, rapid.IntRange(1, 5).Draw(rt, "nscopes"); i < n; i++ {
			pi := rapid.IntRange(0, len(nodes)-1).Draw(rt, "parent")
			parent := nodes[pi]
			if parent.depth >= 3 {
				continue
			}
			var ctx context.Context
			val := parent.val
			if rapid.Bool().Draw(rt, "ownCtx") {
				val = fmt.Sprintf("v%d", i)
				ctx = context.WithValue(context.Background(), ebKey{}, val)
			} else if parent.depth == 0 {
				ctx = context.Background()
				val = nil
			}
			var s godi.Scope
			if parent.depth == 0 {
				s, err = p.CreateScope(ctx)
			} else {
				s, err = parent.s.CreateScope(ctx)
			}
			if err != nil {
				rt.Fatalf("CreateScope: %v", err)
			}
			nodes = append(nodes, node{s, parent.depth + 1, val})
			steps = append(steps, fmt.Sprintf("s%d=create(s%d,ownCtx=%v)", len(nodes)-1, pi, ctx != nil && val != parent.val))
		}
		check := func(what string, ni int, got ebGot, wantProvider bool) {
			n := nodes[ni]
			if got.sc != n.s {
				rt.Fatalf("VIOLATION C18/injected [embedded/scope/%s]: %s constructed for scope s%d holds Scope %v, not that scope\n%v", what, what, ni, got.sc, steps)
			}
			if got.ctx == nil || got.ctx != n.s.Context() {
				rt.Fatalf("VIOLATION C18/injected [embedded/context/%s]: %s constructed for scope s%d holds context %v, not that scope's context\n%v", what, what, ni, got.ctx, steps)
			}
			if wantProvider && got.pr != p {
				rt.Fatalf("VIOLATION C18/injected [embedded/provider/%s]: %s constructed for scope s%d holds Provider %v, not the built provider\n%v", what, what, ni, got.pr, steps)
			}
			if v := got.ctx.Value(ebKey{}); v != n.val {
				rt.Fatalf("VIOLATION C18/context-values [embedded/%s]: the context %s was given in scope s%d carries %v, the scope was created with %v\n%v", what, what, ni, v, n.val, steps)
			}
		}
		for i, n := 0, rapid.IntRange(1, 8).Draw(rt, "nresolves"); i < n; i++ {
			ni := rapid.IntRange(0, len(nodes)-1).Draw(rt, "scope")
			var tgt godi.Provider = nodes[ni].s
			if ni == 0 && rapid.Bool().Draw(rt, "viaProvider") {
				tgt = p
			}
			if nodes[ni].depth > maxDepth {
				maxDepth = nodes[ni].depth
			}
			switch k := rapid.IntRange(0, 3).Draw(rt, "what"); k {
			case 0:
				v, err := godi.Resolve[*ebScoped](tgt)
				if err != nil {
					rt.Fatalf("VIOLATION C18/injected [embedded/resolve]: %v", err)
				}
				check("scoped", ni, v.ebGot, true)
			case 1:
				v, err := godi.Resolve[*ebTransient](tgt)
				if err != nil {
					rt.Fatalf("VIOLATION C18/injected [embedded/resolve]: %v", err)
				}
				check("transient", ni, v.ebGot, true)
			case 2:
				v, err := godi.Resolve[*ebScopedCtx](tgt)
				if err != nil {
					rt.Fatalf("VIOLATION C18/injected [embedded/resolve]: %v", err)
				}
				check("scoped(embedded context, named scope)", ni, v.ebGot, false)
			default:
				v, err := godi.Resolve[*ebSingleton](tgt)
				if err != nil {
					rt.Fatalf("VIOLATION C18/injected [embedded/resolve]: %v", err)
				}
				check("singleton", 0, v.ebGot, true)
			}
			steps = append(steps, fmt.Sprintf("resolve(s%d)", ni))
		}
		canon := fmt.Sprint(steps)
		col.Case(maxDepth >= 2, canon, canon, fmt.Sprintf("depth=%d", maxDepth))
		for i := len(nodes) - 1; i >= 1; i-- {
			_ = nodes[i].s.Close()
		}
	})
}

// ---------- C10: a disposable service embedded in a result object ----------

type EoConn struct{ closed atomic.Int64 }

func (c *EoConn) Close() error { c.closed.Add(1); return nil }

type eoRepo struct{ c *EoConn }
type EoCache struct{ closed atomic.Int64 }

func (c *EoCache) Close() error { c.closed.Add(1); return nil }

type eoOut struct {
	godi.Out
	*EoConn
	Repo *eoRepo
}

type eoOutNamed struct {
	godi.Out
	*EoCache `name:"cache"`
	Repo     *eoRepo `name:"cached"`
}

func TestC10EmbeddedOut(t *testing.T) {
	col := evid.New("C10", "embedded-result-field", "result-object constructors (any lifetime) that hand back a disposable service through an embedded field (struct{ godi.Out; *Conn; Repo *Repo }, and one whose embedded field carries a name tag); the services are resolved a generated number of times from the provider and from scopes - the embedded one or only its sibling -, a later constructor may fail the Build; then scopes and provider are closed; oracle: every disposable any constructor made has received exactly one Close call in the end; non-trivial = an embedded disposable was made in a scope")
	defer col.Flush()
	rapid.Check(t, func(rt *rapid.T) {
		var conns []*EoConn
		var caches []*EoCache
		coll := godi.NewCollection()
		life := rapid.IntRange(0, 2).Draw(rt, "life")
		life2 := rapid.IntRange(0, 2).Draw(rt, "life2")
		failBuild := rapid.IntRange(0, 5).Draw(rt, "failBuild") == 0
		add := func(l int, ctor any) {
			var err error
			switch l {
			case 0:
				err = coll.AddSingleton(ctor)
			case 1:
				err = coll.AddScoped(ctor)
			default:
				err = coll.AddTransient(ctor)
			}
			if err != nil {
				rt.Fatalf("registration failed: %v", err)
			}
		}
		add(life, func() eoOut {
			c := &EoConn{}
			conns = append(conns, c)
			return eoOut{EoConn: c, Repo: &eoRepo{c}}
		})
		add(life2, func() eoOutNamed {
			c := &EoCache{}
			caches = append(caches, c)
			return eoOutNamed{EoCache: c, Repo: &eoRepo{}}
		})
		if failBuild {
			// depends on everything above, so that it is constructed last
			type failing struct{ n int }
			add(0, func(*EoConn, *eoRepo) (*failing, error) { return nil, fmt.Errorf("no") })
		}
		canon := fmt.Sprintf("life=%s life2=%s failBuild=%v", lifeName(life), lifeName(life2), failBuild)
		p, err := coll.Build()
		if failBuild && (life == 1) {
			// (a singleton cannot depend on scoped services: that Build is refused before anything is made)
			col.Case(false, canon, nil, "lifetime-conflict")
			return
		}
		inScope := false
		if err == nil {
			if failBuild {
				rt.Fatalf("VIOLATION C10/harness: Build succeeded although a singleton constructor fails\n%s", canon)
			}
			targets := []godi.Provider{p}
			var scopes []godi.Scope
			for i, n := 0, rapid.IntRange(0, 2).Draw(rt, "nscopes"); i < n; i++ {
				s, err := p.CreateScope(context.Background())
				if err != nil {
					rt.Fatalf("CreateScope: %v", err)
				}
				scopes = append(scopes, s)
				targets = append(targets, s)
			}
			for i := rapid.IntRange(1, 6).Draw(rt, "ngets"); i > 0; i-- {
				ti := rapid.IntRange(0, len(targets)-1).Draw(rt, "target")
				var err error
				switch rapid.IntRange(0, 3).Draw(rt, "what") {
				case 0:
					_, err = godi.Resolve[*EoConn](targets[ti])
				case 1:
					_, err = godi.Resolve[*eoRepo](targets[ti])
				case 2:
					_, err = godi.ResolveKeyed[*EoCache](targets[ti], "cache")
				default:
					_, err = godi.ResolveKeyed[*eoRepo](targets[ti], "cached")
				}
				if err != nil {
					rt.Fatalf("VIOLATION C10/embedded-result-field [resolve]: %v\n%s", err, canon)
				}
				if ti > 0 && (life != 0 || life2 != 0) {
					inScope = true
				}
				canon += fmt.Sprintf(" get(t%d)", ti)
			}
			for _, s := range scopes {
				if rapid.Bool().Draw(rt, "closeExplicitly") {
					_ = s.Close()
				}
			}
			if err := p.Close(); err != nil {
				rt.Fatalf("VIOLATION C10/embedded-result-field [close]: %v\n%s", err, canon)
			}
		}
		col.Case(inScope, canon, canon)
		for i, c := range conns {
			if n := c.closed.Load(); n != 1 {
				rt.Fatalf("VIOLATION C10/exactly-once [embedded-result-field]: connection #%d (handed back through an embedded result field) received %d Close calls after everything was closed (Build error: %v), want 1\n%s", i, n, err, canon)
			}
		}
		for i, c := range caches {
			if n := c.closed.Load(); n != 1 {
				rt.Fatalf("VIOLATION C10/exactly-once [embedded-result-field/named]: cache #%d received %d Close calls after everything was closed (Build error: %v), want 1\n%s", i, n, err, canon)
			}
		}
	})
}

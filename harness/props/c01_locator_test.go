package props

import (
	"fmt"
	"testing"

	"verif/evid"
	"verif/kit"

	"pgregory.net/rapid"
)

// TestC01Locator: a singleton whose constructor declares only the Scope (or
// Provider) it is injected with and looks another singleton up through it - a
// dependency the container does not know. Whether that singleton exists yet
// when the constructor runs is not the statement's business (Build may well
// report the look-up's error); but a Build that *succeeds* has run every
// singleton constructor exactly once, this one included, and what it found is
// the one instance everybody else gets.
func TestC01Locator(t *testing.T) {
	col := evid.New("C01", "locating-constructor", "generated buildable configurations plus 1-2 singletons whose constructors look another singleton (plain or keyed, reached through a chain of declared dependencies or not) up through the Scope or Provider they are injected with and return the look-up's error; Build, then every identity resolved from the provider and a scope; oracle: if Build succeeds every constructor-registered singleton has run exactly once and still has after the resolutions, and what a locating constructor found is the instance the identity resolves to; a Build that reports the look-up's error is not judged; non-trivial = Build succeeded with a locating constructor whose target has dependencies of its own")
	defer col.Flush()
	rapid.Check(t, func(rt *rapid.T) {
		o := kit.FullOpts()
		o.PreBuild = false
		cfg := kit.GenConfig(rt, o)
		m, err := kit.NewModel(cfg)
		if err != nil {
			rt.Fatal(err)
		}
		type target struct {
			id  kit.Ident
			reg int
		}
		var targets []target
		for _, id := range m.AllIdents() {
			if id.Group != "" || id.T == kit.TVoid || m.NilOutput(id) {
				continue
			}
			if ow, ok := m.Owner(id); ok {
				if r := m.Regs[ow.Reg]; r.Life == kit.Singleton && r.Form != kit.FormInstance {
					targets = append(targets, target{id, ow.Reg})
				}
			}
		}
		if len(targets) == 0 {
			col.Case(false, cfg.String(), nil, "no-singleton-to-locate")
			return
		}
		nid := 0
		for _, r := range cfg.Regs {
			if r.ID >= nid {
				nid = r.ID + 1
			}
		}
		var locators []int
		deep := false
		for i, n := 0, rapid.IntRange(1, 2).Draw(rt, "nlocators"); i < n; i++ {
			tg := rapid.SampledFrom(targets).Draw(rt, "located")
			id := tg.id
			if len(m.Regs[tg.reg].Deps) > 0 {
				deep = true
			}
			outT := []int{kit.NumD + 5, kit.NumD + 4}[i]
			cfg.Regs = append(cfg.Regs, kit.Reg{ID: nid, Life: kit.Singleton, Form: kit.FormPlain, HasErr: true, Name: fmt.Sprintf("locator%d", i),
				Outs: []kit.OutSpec{{T: outT, Impl: outT}}, Deps: []kit.DepSpec{{Builtin: rapid.IntRange(2, 3).Draw(rt, "through")}}, Locate: &id,
				UseIn: rapid.Bool().Draw(rt, "locatorIn")})
			locators = append(locators, nid)
			nid++
		}
		canon := cfg.String()
		x, err := startRun(cfg, nil)
		if err != nil {
			rt.Fatal(err)
		}
		if x.Build.Panic != nil {
			rt.Fatalf("VIOLATION C01/no-panic [locator]: Build panicked: %v\n%s", x.Build.Panic, canon)
		}
		if x.Build.Kind == "register" {
			rt.Fatalf("registration failed: %v\n%s", x.Build.Err, canon)
		}
		if x.Build.Err != nil {
			col.Case(false, canon, nil, "build-reports-the-look-up")
			return
		}
		col.Case(deep, canon, canon, "build-succeeded")
		count := func(when string) {
			for _, id := range x.M.Order {
				r := x.M.Regs[id]
				if r.Life != kit.Singleton || r.Form == kit.FormInstance {
					continue
				}
				if n := x.W.Count[id]; n != 1 {
					feat := formFeature(r)
					if r.Locate != nil {
						feat = "locating"
					}
					rt.Fatalf("VIOLATION C01/once [%s/%s]: Build succeeded and the constructor of singleton r%d (%s) has run %d times %s\n%s", feat, when, id, r, n, when, canon)
				}
			}
		}
		count("after-build")
		x.resolveEverything()
		count("after-resolutions")
		for _, inv := range x.W.AllInvs() {
			r := x.M.Regs[inv.Reg]
			if r == nil || r.Locate == nil || inv.Outcome != 1 {
				continue
			}
			o := x.R.Resolve(0, *r.Locate)
			if o.Err != nil || len(o.Entries) != 1 || o.Entries[0] != inv.Located {
				rt.Fatalf("VIOLATION C01/same-instance [located]: the constructor of r%d found %v for %s, the provider resolves it to %v (%v)\n%s", inv.Reg, inv.Located, *r.Locate, o.Entries, firstLine(o.Err), canon)
			}
		}
		x.R.CloseProvider()
		_ = locators
	})
}

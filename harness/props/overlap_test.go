package props

import (
	"fmt"
	"strings"
	"sync/atomic"
	"testing"
	"time"

	"verif/evid"
	"verif/kit"

	"github.com/junioryono/godi/v4"
	"pgregory.net/rapid"
)

// overlapCase is one controlled concurrent program: thread A issues one
// operation and is parked at the n-th gate point it reaches inside user code
// (constructor entry/exit, an instance's Close, ctx.Done() of the context given
// to CreateScope); thread B then runs one operation to completion (or until it
// blocks); A is released; finally the provider is closed.
type overlapCase struct {
	X          *run
	A, B       Op
	GateKind   int
	GateN      int
	AnyGoid    bool   // A only triggers the work (a context cancellation): whichever goroutine of godi's does it is the one to park
	Point      string // internal schedule point A was parked at (GateInternal)
	WantPoint  string // GateInternal: only this point counts (empty = any)
	Parked     bool
	BBlocked   bool
	AObs       *kit.Obs
	BObs       *kit.Obs
	Hang       string
	Desc       string
	Probes     []probeRes // uses attempted after B's Close returned and before A was released
	PostProbes []probeRes // uses attempted on scopes below a closed scope once both threads are done
	Root       godi.Scope // the provider's root scope, fetched right after Build
}

type probeRes struct {
	Tag int
	Err error
}

type overlapOpts struct {
	Gen         kit.GenOpts
	BKinds      []string // kinds of operation B may be: close, close-ancestor, pclose, cancel, same-get, get, create
	AKinds      []string // get, create, create-gatectx
	GateKind    []int
	ExtraScopes int                         // larger scope trees
	ExtraWarm   int                         // more warm-up resolutions (so that scopes own instances)
	Prep        func(*kit.World, *rapid.T)  // prepare the world before Build (fault plans)
	Points      []string                    // GateInternal: park at the n-th passage of a point whose name starts with one of these (nil = any point)
	MutateCfg   func(*rapid.T, *kit.Config) // additions to the generated configuration
}

func obsOfKind(r *kit.Runner, from int, kind string) *kit.Obs {
	for i := from; i < len(r.Obs); i++ {
		if r.Obs[i].Kind == kind {
			return r.Obs[i]
		}
	}
	return nil
}

func genOverlap(rt *rapid.T, oo overlapOpts) *overlapCase {
	cfg := kit.GenConfig(rt, oo.Gen)
	if oo.MutateCfg != nil {
		oo.MutateCfg(rt, cfg)
	}
	for _, k := range oo.AKinds {
		if k == "create" && rapid.Bool().Draw(rt, "moreInitializers") {
			// several initializer functions: a scope creation that overlaps something runs a list of them
			nid := 0
			for _, r := range cfg.Regs {
				if r.ID >= nid {
					nid = r.ID + 1
				}
			}
			for j := rapid.IntRange(1, 3).Draw(rt, "nInitializers"); j > 0; j-- {
				cfg.Regs = append(cfg.Regs, kit.Reg{ID: nid, Life: kit.Scoped, Form: kit.FormVoid, HasErr: rapid.Bool().Draw(rt, "initErr")})
				nid++
			}
			break
		}
	}
	x, err := startRunWith(cfg, nil, func(w *kit.World) {
		if oo.Prep != nil {
			oo.Prep(w, rt)
		}
	})
	if err != nil {
		rt.Fatal(err)
	}
	c := &overlapCase{X: x}
	if x.Build.Err != nil || x.Build.Panic != nil {
		return c
	}
	if rootAny, err := x.R.P.Get(kit.ScopeType); err == nil {
		c.Root, _ = rootAny.(godi.Scope)
	}
	// family mode (for A = Close): P -> C -> {G0..Gk}, instances in the grandchildren; A closes C, B closes P
	if len(oo.AKinds) > 0 && oo.ExtraScopes > 0 && rapid.IntRange(0, 2).Draw(rt, "family") == 0 {
		ids := noVoid(identPool(x.M, false))
		if len(ids) > 0 {
			kinds := []int{0, 1, 2, 4}
			x.exec(Op{Kind: "create", Scope: 0, Ctx: rapid.SampledFrom([]int{1, 2}).Draw(rt, "pctx")}) // s1 = P
			x.exec(Op{Kind: "create", Scope: 1, Ctx: rapid.SampledFrom(kinds).Draw(rt, "cctx")})       // s2 = C
			ng := rapid.IntRange(2, 4).Draw(rt, "grandchildren")
			for g := 0; g < ng; g++ {
				x.exec(Op{Kind: "create", Scope: 2, Ctx: rapid.SampledFrom(kinds).Draw(rt, "gctx")})
				for k := rapid.IntRange(1, 3).Draw(rt, "gwarm"); k > 0; k-- {
					x.exec(Op{Kind: "get", Scope: 3 + g, Ident: rapid.SampledFrom(ids).Draw(rt, "gid")})
				}
			}
			if rec := x.R.Scopes[1]; rec != nil && rec.Created && rec.Cancel != nil && rapid.IntRange(0, 2).Draw(rt, "fcancel") == 0 {
				for _, k := range oo.AKinds {
					if k == "cancel-watched" {
						// the context P was created with is cancelled: P's watcher closes the family and is
						// held inside an instance's Close(); then somebody calls Close on P (or on C) as well
						c.A = Op{Kind: "cancel", Scope: 1}
						c.AnyGoid = true
						c.GateKind = kit.GateCloseEnter
						c.GateN = rapid.SampledFrom([]int{1, 1, 2}).Draw(rt, "fcgaten")
						c.B = Op{Kind: "close", Scope: rapid.SampledFrom([]int{1, 1, 2}).Draw(rt, "fcb")}
						c.run()
						return c
					}
				}
			}
			if rec := x.R.Scopes[2]; rec != nil && rec.Created {
				hasClose := false
				for _, k := range oo.AKinds {
					if k == "close" {
						hasClose = true
					}
				}
				if hasClose {
					c.A = Op{Kind: "close", Scope: 2}
					c.GateKind = kit.GateCloseEnter
					c.GateN = rapid.SampledFrom([]int{1, 1, 2, 3}).Draw(rt, "fgaten")
					if rapid.IntRange(0, 2).Draw(rt, "ftop") == 0 {
						// A closes the top of the family and is held right after it has taken over the
						// close of C, before C looks at its children: whatever P's Close has set in
						// motion by then (a cancelled context wakes the watchers of the whole subtree)
						// gets time to run
						c.A = Op{Kind: "close", Scope: 1}
						c.GateKind = kit.GateInternal
						c.WantPoint = "scope.closeFromOwner.won"
						c.GateN = 1
						// B does nothing (the provider's Close would pick up and report what a watcher's
						// Close stored, and the question is what P's own Close reports)
						c.B = Op{Kind: "idle"}
						c.run()
						return c
					}
					switch rapid.IntRange(0, 3).Draw(rt, "fb") {
					case 0:
						c.B = Op{Kind: "pclose"}
					case 1:
						if x.R.Scopes[1].Cancel != nil {
							c.B = Op{Kind: "cancel", Scope: 1}
						} else {
							c.B = Op{Kind: "close", Scope: 1}
						}
					default:
						c.B = Op{Kind: "close", Scope: 1}
					}
					c.run()
					return c
				}
			}
		}
	}
	// a small scope tree
	nsc := rapid.IntRange(1, 3+oo.ExtraScopes).Draw(rt, "nscopes")
	for i := 0; i < nsc; i++ {
		live := x.R.LiveScopes()
		parent := rapid.SampledFrom(live).Draw(rt, "parent")
		if x.R.Scopes[parent].Depth >= 3 {
			parent = 0
		}
		x.exec(Op{Kind: "create", Scope: parent, Ctx: rapid.SampledFrom([]int{0, 1, 2}).Draw(rt, "ctx")})
	}
	// a few warm-up resolutions so that caches are partly filled
	ids := noVoid(identPool(x.M, false))
	if len(ids) == 0 {
		return c
	}
	for i := rapid.IntRange(0, 2+oo.ExtraWarm).Draw(rt, "warm"); i > 0; i-- {
		x.exec(Op{Kind: "get", Scope: rapid.SampledFrom(x.R.LiveScopes()).Draw(rt, "wtag"), Ident: rapid.SampledFrom(ids).Draw(rt, "wid")})
	}
	live := x.R.LiveScopes()
	atag := rapid.SampledFrom(live).Draw(rt, "atag")
	if atag == 0 && len(live) > 1 && rapid.IntRange(0, 3).Draw(rt, "nonroot") != 0 {
		atag = rapid.SampledFrom(live[1:]).Draw(rt, "atag2")
	}
	// identities whose resolution runs a constructor (scoped / transient, constructor-registered)
	var ctorIDs []kit.Ident
	hasVoid := false
	for _, id := range ids {
		if id.Group != "" {
			for _, ow := range x.M.Members(id.T, id.Group) {
				if r := x.M.Regs[ow.Reg]; r.Life != kit.Singleton && r.Form != kit.FormInstance {
					ctorIDs = append(ctorIDs, id)
					break
				}
			}
		} else if ow, ok := x.M.Owner(id); ok {
			if r := x.M.Regs[ow.Reg]; r.Life != kit.Singleton && r.Form != kit.FormInstance {
				ctorIDs = append(ctorIDs, id)
			}
		}
	}
	for _, r := range x.Cfg.Regs {
		if r.Form == kit.FormVoid {
			hasVoid = true
		}
	}
	akind := rapid.SampledFrom(oo.AKinds).Draw(rt, "akind")
	if (akind == "create" && !hasVoid) || akind == "cancel-watched" { // (the latter exists in the family mode above only)
		akind = oo.AKinds[0]
	}
	switch akind {
	case "get":
		pool := ids
		if len(ctorIDs) > 0 && rapid.IntRange(0, 4).Draw(rt, "ctorbias") != 0 {
			pool = ctorIDs
		}
		// services with an optional dependency on something registered: what they are
		// built with when a Close lands between two of their dependencies is the question
		var optIDs []kit.Ident
		for _, id := range ctorIDs {
			if ow, ok := x.M.Owner(id); ok && id.Group == "" {
				r := x.M.Regs[ow.Reg]
				for di, d := range r.Deps {
					if di > 0 && d.Optional && len(x.M.DepTargets(d)) > 0 && r.Life == kit.Transient {
						optIDs = append(optIDs, id)
						break
					}
				}
			}
		}
		if len(optIDs) > 0 && rapid.IntRange(0, 2).Draw(rt, "optbias") == 0 {
			pool = optIDs
		}
		// services with several dependencies of their own: their argument lists are assembled
		// step by step, with other people's code running in between
		var manyIDs []kit.Ident
		for _, id := range ctorIDs {
			if ow, ok := x.M.Owner(id); ok && id.Group == "" {
				n := 0
				for _, d := range x.M.Regs[ow.Reg].Deps {
					if len(x.M.DepTargets(d)) > 0 {
						n++
					}
				}
				if n >= 2 {
					manyIDs = append(manyIDs, id)
				}
			}
		}
		if len(manyIDs) > 0 && rapid.IntRange(0, 2).Draw(rt, "manybias") == 0 {
			pool = manyIDs
		}
		c.A = Op{Kind: "get", Scope: atag, Ident: rapid.SampledFrom(pool).Draw(rt, "aid")}
	case "create":
		c.A = Op{Kind: "create", Scope: atag, Ctx: rapid.SampledFrom([]int{0, 1, 2}).Draw(rt, "actx")}
	case "create-gatectx":
		c.A = Op{Kind: "create", Scope: atag, Ctx: 10}
	case "close":
		if atag == 0 {
			return c
		}
		c.A = Op{Kind: "close", Scope: atag}
	case "pclose":
		c.A = Op{Kind: "pclose"}
	}
	c.GateKind = rapid.SampledFrom(oo.GateKind).Draw(rt, "gatekind")
	if c.A.Ctx == 10 {
		c.GateKind = kit.GateCtxDone
	}
	if (c.A.Kind == "close" || c.A.Kind == "pclose") && c.GateKind != kit.GateInternal {
		c.GateKind = kit.GateCloseEnter
	}
	c.GateN = rapid.SampledFrom([]int{1, 1, 1, 2, 3, 4}).Draw(rt, "gaten")
	if c.GateKind == kit.GateInternal {
		// an operation passes a dozen internal schedule points (more with nested constructions)
		c.GateN = rapid.IntRange(1, 14).Draw(rt, "gatenInternal")
		if len(oo.Points) > 0 {
			c.WantPoint = rapid.SampledFrom(oo.Points).Draw(rt, "gatepoint")
			c.GateN = rapid.SampledFrom([]int{1, 1, 1, 2, 3}).Draw(rt, "gatenPoint")
		}
	}
	// B
	anc := x.R.Ancestors(atag)
	switch bk := rapid.SampledFrom(oo.BKinds).Draw(rt, "bkind"); bk {
	case "close":
		if atag == 0 {
			c.B = Op{Kind: "pclose"}
		} else {
			c.B = Op{Kind: "close", Scope: atag}
		}
	case "close-ancestor":
		if len(anc) == 0 {
			c.B = Op{Kind: "pclose"}
		} else {
			c.B = Op{Kind: "close", Scope: rapid.SampledFrom(anc).Draw(rt, "banc")}
		}
	case "pclose":
		c.B = Op{Kind: "pclose"}
	case "cancel":
		var cands []int
		for _, a := range anc {
			if x.R.Scopes[a].Cancel != nil {
				cands = append(cands, a)
			}
		}
		if len(cands) == 0 {
			c.B = Op{Kind: "pclose"}
		} else {
			c.B = Op{Kind: "cancel", Scope: rapid.SampledFrom(cands).Draw(rt, "bcancel")}
		}
	case "same-get":
		if c.A.Kind == "get" {
			c.B = c.A
		} else {
			c.B = Op{Kind: "get", Scope: atag, Ident: rapid.SampledFrom(ids).Draw(rt, "bid")}
		}
	case "get":
		c.B = Op{Kind: "get", Scope: rapid.SampledFrom(live).Draw(rt, "btag"), Ident: rapid.SampledFrom(ids).Draw(rt, "bid2")}
	case "get-wired":
		// somewhere (any live scope), a service that is constructed now and has dependencies on
		// registered services - optional ones preferred: what it is built with is the question
		pool := ctorIDs
		var opt []kit.Ident
		for _, id := range ctorIDs {
			if ow, ok := x.M.Owner(id); ok && id.Group == "" {
				for _, d := range x.M.Regs[ow.Reg].Deps {
					if d.Optional && d.Builtin == 0 && len(x.M.DepTargets(d)) > 0 {
						opt = append(opt, id)
						break
					}
				}
			}
		}
		if len(opt) > 0 && rapid.IntRange(0, 3).Draw(rt, "bOptBias") != 0 {
			pool = opt
		}
		if len(pool) == 0 {
			pool = ids
		}
		c.B = Op{Kind: "get", Scope: rapid.SampledFrom(live).Draw(rt, "btagW"), Ident: rapid.SampledFrom(pool).Draw(rt, "bidW")}
	case "same-get-elsewhere":
		// the same service (same registration, same cached analysis) constructed in another scope meanwhile
		c.B = Op{Kind: "get", Scope: rapid.SampledFrom(live).Draw(rt, "btag2"), Ident: rapid.SampledFrom(ids).Draw(rt, "bid4")}
		if c.A.Kind == "get" {
			c.B.Ident = c.A.Ident
			var others []int
			for _, t := range live {
				if t != atag {
					others = append(others, t)
				}
			}
			if len(others) > 0 {
				c.B.Scope = rapid.SampledFrom(others).Draw(rt, "bother")
			}
		}
	case "dependent-get":
		// B resolves, in A's scope, something that depends on what A is resolving
		c.B = Op{Kind: "get", Scope: atag, Ident: rapid.SampledFrom(ids).Draw(rt, "bid3")}
		if aow, ok := x.M.Owner(c.A.Ident); ok && c.A.Kind == "get" {
			var deps []kit.Ident
			for _, id := range ids {
				if id.Group != "" {
					for _, mem := range x.M.Members(id.T, id.Group) {
						if x.M.Reaches(mem.Reg, aow.Reg) {
							deps = append(deps, id)
							break
						}
					}
				} else if ow, ok := x.M.Owner(id); ok && x.M.Reaches(ow.Reg, aow.Reg) {
					deps = append(deps, id)
				}
			}
			if len(deps) > 0 {
				c.B.Ident = rapid.SampledFrom(deps).Draw(rt, "bdep")
			}
		}
	case "create":
		c.B = Op{Kind: "create", Scope: rapid.SampledFrom(live).Draw(rt, "bctag"), Ctx: rapid.SampledFrom([]int{0, 1}).Draw(rt, "bctx")}
	}
	c.run()
	return c
}

func opObsKind(o Op) string {
	switch o.Kind {
	case "get":
		return "resolve"
	}
	return o.Kind
}

func (c *overlapCase) run() {
	x := c.X
	var aGoid, bGoid atomic.Int64
	count := 0
	pk := kit.NewParker(func(gp kit.GatePoint) bool {
		if c.AnyGoid {
			if gp.Goid == bGoid.Load() || gp.Kind != c.GateKind {
				return false
			}
		} else if gp.Goid != aGoid.Load() || gp.Kind != c.GateKind || (c.WantPoint != "" && !strings.HasPrefix(gp.Point, c.WantPoint)) {
			return false
		}
		count++ // only thread A gets here, no lock needed
		return count == c.GateN
	})
	x.W.SetGate(pk.Gate)
	before := len(x.R.Obs)
	aDone, bDone := make(chan struct{}), make(chan struct{})
	go func() {
		defer close(aDone)
		aGoid.Store(kit.Goid())
		x.exec(c.A)
	}()
	select {
	case <-pk.Parked():
		c.Parked = true
	case <-aDone:
		if c.AnyGoid {
			// A has only pulled the trigger; give the goroutine that reacts to it time to reach the gate
			select {
			case <-pk.Parked():
				c.Parked = true
			case <-time.After(30 * time.Millisecond):
			}
		}
	}
	go func() {
		defer close(bDone)
		bGoid.Store(kit.Goid())
		x.exec(c.B)
	}()
	if !kit.WaitOrTimeout(bDone, 30*time.Millisecond) {
		c.BBlocked = true
	}
	// B's Close has returned while A is still parked: everything B covers must refuse use already
	if c.Parked && !c.BBlocked && (c.B.Kind == "close" || c.B.Kind == "pclose") {
		for _, tag := range x.R.Tags() {
			rec := x.R.ScopeRecOf(tag)
			if rec == nil || !rec.Created {
				continue
			}
			covered := c.B.Kind == "pclose"
			if !covered {
				for _, a := range x.R.Ancestors(tag) {
					if a == c.B.Scope {
						covered = true
					}
				}
			}
			if !covered {
				continue
			}
			var err error
			if tag == 0 {
				_, err = x.R.P.Get(kit.RType(kit.NeverType))
			} else {
				_, err = rec.S.Get(kit.RType(kit.NeverType))
			}
			c.Probes = append(c.Probes, probeRes{tag, err})
		}
	}
	pk.Release()
	if !kit.WaitOrTimeout(aDone, 20*time.Second) {
		c.Hang = "operation A did not return within 20 s after being released"
		return
	}
	if !kit.WaitOrTimeout(bDone, 20*time.Second) {
		c.Hang = "operation B did not return within 20 s"
		return
	}
	x.W.SetGate(nil)
	// identify the observations of A and B (A's may come after B's in the log)
	for i := before; i < len(x.R.Obs); i++ {
		o := x.R.Obs[i]
		if c.AObs == nil && o.Kind == opObsKind(c.A) && (c.A.Kind != "get" || (o.Scope == c.A.Scope && o.Ident == c.A.Ident)) &&
			(c.A.Kind != "close" || o.Scope == c.A.Scope) {
			if c.A.Kind == c.B.Kind && c.A.Scope == c.B.Scope && c.A.Ident == c.B.Ident {
				// identical ops: cannot and need not tell them apart
				c.AObs = o
				continue
			}
			c.AObs = o
			continue
		}
		if c.BObs == nil && o.Kind == opObsKind(c.B) && (c.B.Kind != "close" || o.Scope == c.B.Scope) {
			c.BObs = o
		}
	}
	// closing a scope closes all its descendants - also those whose creation overlapped the Close:
	// once both threads are done, every scope below a scope whose Close has returned must refuse use
	for _, tag := range x.R.Tags() {
		rec := x.R.ScopeRecOf(tag)
		if tag == 0 || rec == nil || !rec.Created {
			continue
		}
		covered := x.R.PCloseEnd != 0
		for _, a := range x.R.Ancestors(tag) {
			if ar := x.R.ScopeRecOf(a); ar != nil && ar.CloseEnd != 0 {
				covered = true
			}
		}
		if covered {
			_, err := rec.S.Get(kit.RType(kit.NeverType))
			c.PostProbes = append(c.PostProbes, probeRes{tag, err})
		}
	}
	if !x.R.PClosed {
		x.exec(Op{Kind: "pclose"})
	}
	where := ""
	if c.Parked && pk.Hit.Point != "" {
		where = " = " + pk.Hit.Point
		c.Point = pk.Hit.Point
	}
	c.Desc = fmt.Sprintf("config: %s\nsetup: %s\nA: %s parked at gate kind %d #%d%s (parked=%v)\nB: %s (blocked-until-release=%v)", x.Cfg, scriptString(x.Script[:max(0, len(x.Script)-3)]), c.A, c.GateKind, c.GateN, where, c.Parked, c.B, c.BBlocked)
}

// checkOverlapResults: no panic, no hang, and each of A/B either completed
// normally with fully constructed values or reported a disposed error.
func (c *overlapCase) checkOverlapResults(prop string) *Failure {
	if c.Hang != "" {
		return fail(prop, "no-hang", c.A.Kind+"/"+c.B.Kind, "%s", c.Hang)
	}
	x := c.X
	isClose := func(k string) bool { return k == "close" || k == "pclose" || k == "cancel" }
	bIsClose := isClose(c.B.Kind) || isClose(c.A.Kind)
	for _, o := range x.R.Obs {
		if o.Panic != nil {
			return fail(prop, "no-panic", fmt.Sprintf("%s-vs-%s/gate%d", c.A.Kind, c.B.Kind, c.GateKind), "%s(s%d,%s) panicked: %v", o.Kind, o.Scope, o.Ident, o.Panic)
		}
	}
	for _, pr := range c.Probes {
		if !kit.IsDisposed(pr.Err) {
			rel := "self"
			if c.B.Kind == "pclose" {
				rel = "via-provider"
			} else if pr.Tag != c.B.Scope {
				rel = "descendant"
			}
			return fail(prop, "closed-after-return", rel, "%s returned while %s was still in flight, yet scope s%d still accepts resolutions (got %v, want the disposed error)", c.B, c.A, pr.Tag, firstLine(pr.Err))
		}
	}
	for _, pr := range c.PostProbes {
		if !kit.IsDisposed(pr.Err) {
			return fail(prop, "cascade-complete", c.A.Kind+"-vs-"+c.B.Kind, "after %s and %s both returned, scope s%d - a descendant of a closed scope - still accepts resolutions (got %v)", c.A, c.B, pr.Tag, firstLine(pr.Err))
		}
	}
	for _, o := range []*kit.Obs{c.AObs, c.BObs} {
		if o == nil {
			continue
		}
		switch o.Kind {
		case "resolve":
			if o.Err == nil {
				for _, e := range o.Entries {
					if e == nil && x.M.NilOutput(o.Ident) {
						continue
					}
					if e == nil {
						return fail(prop, "complete-result", "nil", "%s(s%d,%s) returned a nil/foreign value", o.Kind, o.Scope, o.Ident)
					}
					if e.Inv != nil && (e.Inv.Outcome != 1 || e.BornSeq == 0 || e.BornSeq > o.EndSeq) {
						return fail(prop, "complete-result", "half-built", "%s(s%d,%s) returned %v whose constructor had not completed", o.Kind, o.Scope, o.Ident, e)
					}
				}
			} else if _, registered := x.M.Owner(o.Ident); (registered || o.Ident.Group != "") && !kit.IsDisposed(o.Err) && !x.M.NilOutput(o.Ident) {
				if !bIsClose {
					return fail(prop, "documented-error", kit.Classify(o.Err), "%s(s%d,%s) failed with %v although nothing was being closed", o.Kind, o.Scope, o.Ident, firstLine(o.Err))
				}
				return fail(prop, "documented-error", "overlap/"+kit.Classify(o.Err), "%s(s%d,%s) overlapping a Close failed with %v, want the disposed error", o.Kind, o.Scope, o.Ident, firstLine(o.Err))
			}
		case "create":
			if o.Err != nil && !kit.IsDisposed(o.Err) {
				return fail(prop, "documented-error", "create/"+kit.Classify(o.Err), "CreateScope(<-s%d) failed with %v, want success or the disposed error", x.R.Scopes[o.Scope].Parent, firstLine(o.Err))
			}
		}
	}
	// nothing half-initialised reaches anybody: an instance constructed while its scope was being
	// closed may have lost a registered optional dependency to the disposed error - then the
	// resolution that constructed it (and everyone else) must get the disposed error, not the instance
	if len(x.W.CloseFailRegs) == 0 {
		_, problems := x.observations()
		vis := x.visibleInvs()
		for _, pr := range problems {
			if pr.Oracle == "arg-present" && pr.Inv != nil && vis[pr.Inv] {
				if reg := x.M.Regs[pr.Inv.Reg]; reg != nil && reg.Form == kit.FormVoid {
					if rec := x.R.ScopeRecOf(pr.Inv.ScopeTag); pr.Inv.ScopeTag != 0 && (rec == nil || !rec.Created) {
						continue // an initializer of a scope whose creation reported the disposed error
					}
				}
				return fail(prop, "complete-result", "half-wired", "handed out although constructed without a registered dependency: %s", pr.Msg)
			}
		}
	}
	return nil
}

func (c *overlapCase) labels() []string {
	l := []string{"A:" + c.A.Kind, "B:" + c.B.Kind, fmt.Sprintf("gate:%d", c.GateKind)}
	if c.Point != "" {
		l = append(l, "at:"+c.Point)
	}
	if c.Parked {
		l = append(l, "parked")
	}
	if c.BBlocked {
		l = append(l, "B-blocked-until-release")
	}
	if c.AObs != nil && c.AObs.Err != nil && kit.IsDisposed(c.AObs.Err) {
		l = append(l, "A-got-disposed-error")
	}
	return l
}

var allGates = []int{kit.GateCtorEnter, kit.GateCtorExit, kit.GateInternal, kit.GateInternal}

func runOverlapTest(t *testing.T, prop, part, rule string, oo overlapOpts, oracle func(c *overlapCase) *Failure, nt func(c *overlapCase) bool) {
	col := evid.New(prop, part, rule)
	defer col.Flush()
	rapid.Check(t, func(rt *rapid.T) {
		c := genOverlap(rt, oo)
		if c.X.Build.Err != nil || c.X.Build.Panic != nil || c.A.Kind == "" {
			col.Case(false, c.X.Cfg.String(), nil, "not-run")
			return
		}
		f := oracle(c)
		if f != nil && isKnown(f) {
			col.Excluded()
			col.Case(false, c.Desc, nil, "excluded-known")
			return
		}
		col.Case(c.Parked && nt(c), c.Desc, c.Desc, c.labels()...)
		if f != nil {
			rt.Fatalf("VIOLATION %s\n%s", f, c.Desc)
		}
	})
}

// ---- C02: two resolvers of the same scoped service, one parked in the constructor ----

// c02ScheduleOpts: scoped-rich configurations whose services depend on each other a lot.
func c02ScheduleOpts() kit.GenOpts {
	o := kit.FullOpts()
	o.MinRegs = 3
	o.ChainBias = true
	o.Lifetimes = []int{kit.Singleton, kit.Scoped, kit.Scoped, kit.Scoped, kit.Transient}
	return o
}

func TestC02Schedules(t *testing.T) {
	runOverlapTest(t, "C02", "controlled-schedules",
		"controlled two-thread programs: thread A resolves an identity in a scope and is parked at the n-th constructor entry or exit it reaches (n<=4, i.e. also inside dependencies); thread B then resolves the same identity (or another one) in the same scope and runs until it returns or blocks; A is released; oracle = C02 ledger oracle (one successful construction per scoped registration and scope, both callers hold the same instance); non-trivial = A was actually parked inside a constructor",
		overlapOpts{Gen: c02ScheduleOpts(), AKinds: []string{"get"}, BKinds: []string{"same-get", "same-get", "get", "same-get-elsewhere", "same-get-elsewhere"}, GateKind: allGates},
		func(c *overlapCase) *Failure {
			if f := c.checkOverlapResults("C02"); f != nil && (f.Oracle == "no-hang" || f.Oracle == "no-panic") {
				return f
			}
			obs, _ := c.X.observations()
			return c.X.checkC02(obs)
		},
		func(c *overlapCase) bool { return true })
}

// ---- C10: a Close overlapping an in-flight construction ----

func TestC10Schedules(t *testing.T) {
	oo := overlapOpts{Gen: dispOpts(), AKinds: []string{"get", "get", "create"}, BKinds: []string{"close", "close-ancestor", "pclose", "cancel"}, GateKind: allGates}
	runOverlapTest(t, "C10", "controlled-schedules",
		"controlled two-thread programs over disposable-rich configurations: thread A resolves (or creates a scope with initializers) and is parked at the n-th constructor entry/exit; thread B closes A's scope, an ancestor, the provider or cancels the context, to completion; A is released; the provider is closed; oracle = C10 ledger oracle (every disposable returned to the container closed exactly once, not before its owner started closing); non-trivial = A was parked",
		oo,
		func(c *overlapCase) *Failure {
			if f := c.checkOverlapResults("C10"); f != nil && (f.Oracle == "no-hang" || f.Oracle == "no-panic") {
				return f
			}
			return c.X.checkC10(true)
		},
		func(c *overlapCase) bool { return true })
}

// ---- C13: an operation overlapping a Close completes or reports disposed ----

func TestC13Schedules(t *testing.T) {
	g13 := kit.FullOpts() // both disposable and plain services: a plain transient is the one result nothing else vets when its scope closes under it
	g13.OptionalBias = true
	oo := overlapOpts{Gen: g13, AKinds: []string{"get", "get", "create", "create-gatectx", "close", "close", "cancel-watched"}, BKinds: []string{"close", "close-ancestor", "pclose", "cancel"},
		GateKind: allGates, ExtraWarm: 6, ExtraScopes: 4}
	runOverlapTest(t, "C13", "controlled-schedules",
		"controlled two-thread programs: thread A issues Get*/CreateScope and is parked at the n-th constructor entry/exit it reaches (initializers included) or inside ctx.Done() of the context handed to CreateScope; or A closes a scope and is parked inside an instance's Close(); thread B runs one Close (A's scope, an ancestor, the provider) or a context cancellation to completion or until it blocks; if B's Close returned while A is still parked, every scope it covers is probed and must already refuse use; A is released; oracle: no panic, no hang (20 s), A returns fully constructed values or an error satisfying errors.Is(ErrScopeDisposed/ErrProviderDisposed), probes report the disposed error; non-trivial = A was parked",
		oo,
		func(c *overlapCase) *Failure { return c.checkOverlapResults("C13") },
		func(c *overlapCase) bool { return true })
}

// TestC15Overlap: "no container operation panics on any input" - an operation that overlaps the
// Close of its scope is an input too. The C13 programs judged for panics and for the class of
// every error they return (the disposed error, classifiable as such).
func TestC15Overlap(t *testing.T) {
	g := kit.FullOpts()
	g.DisposableBias = true
	oo := overlapOpts{Gen: g, AKinds: []string{"get", "get", "get", "create"}, BKinds: []string{"close", "close", "close-ancestor", "pclose", "cancel"},
		GateKind: allGates, ExtraWarm: 3, ExtraScopes: 2,
		// in half of the programs the Close methods of some registrations fail (error or panic): what an
		// operation that lost its scope reports is still the disposed error, not somebody's Close error
		Prep: func(w *kit.World, rt *rapid.T) {
			if !rapid.Bool().Draw(rt, "closeFailures") {
				return
			}
			w.CloseFailRegs, w.ClosePanicRegs = map[int]bool{}, map[int]bool{}
			for _, r := range w.Cfg.Regs {
				if r.Form == kit.FormInstance {
					continue
				}
				switch rapid.IntRange(0, 5).Draw(rt, "closeFails") {
				case 0, 1:
					w.CloseFailRegs[r.ID] = true
				case 2:
					w.ClosePanicRegs[r.ID] = true
				}
			}
		}}
	runOverlapTest(t, "C15", "operations-overlapping-close",
		"controlled two-thread programs: thread A resolves (multi-output constructors, constructors that hand back one instance under two types, aliases, groups: the full generator) or creates a scope and is parked at the n-th constructor entry/exit or schedule point inside godi; thread B closes A's scope, an ancestor or the provider (or cancels the context) to completion; A is released; in half of the programs Close methods of some registrations fail or panic; oracle: no call panics, no call hangs, and whatever A returns is a value or an error that classifies as the disposed error (never the Close error of what was disposed on arrival); non-trivial = A was parked",
		oo,
		func(c *overlapCase) *Failure {
			f := c.checkOverlapResults("C15")
			if f != nil && (f.Oracle == "no-panic" || f.Oracle == "no-hang" || f.Oracle == "documented-error") {
				return f
			}
			return nil
		},
		func(c *overlapCase) bool { return true })
}

// TestC13UseDuringClose: the other way round - the Close is the operation that is
// held (inside the Close() method of one of the instances it disposes, or at a
// schedule point of the disposal) and a resolution or scope creation is issued
// meanwhile on any scope: one the Close has not reached yet, one it has already
// dealt with, one it does not cover at all.
func TestC13UseDuringClose(t *testing.T) {
	g13 := kit.FullOpts()
	g13.OptionalBias = true
	g13.DisposableBias = true
	oo := overlapOpts{Gen: g13, AKinds: []string{"pclose", "pclose", "close"}, BKinds: []string{"get-wired", "get-wired", "get", "create"},
		GateKind: []int{kit.GateCloseEnter, kit.GateCloseEnter, kit.GateInternal}, ExtraWarm: 8, ExtraScopes: 3}
	runOverlapTest(t, "C13", "use-during-close",
		"controlled two-thread programs: thread A closes the provider (or a scope) and is parked inside the Close() method of the n-th instance it disposes or at a schedule point of the disposal; thread B then resolves a service that is constructed now (optional dependencies on registered services preferred) or creates a scope, on any live scope - covered by the Close or not, reached by it or not - and runs until it returns or blocks; A is released; oracle: no panic, no hang, B returns a fully constructed and fully wired value (every registered dependency present) or an error satisfying errors.Is(ErrScopeDisposed/ErrProviderDisposed); non-trivial = A was parked",
		oo,
		func(c *overlapCase) *Failure { return c.checkOverlapResults("C13") },
		func(c *overlapCase) bool { return true })
}

// TestC09UseDuringClose: the same programs judged as C09 does - every individual call returns a
// result that respects the lifetime rules (fully wired, constructed once per scope) or a documented error.
func TestC09UseDuringClose(t *testing.T) {
	g := kit.FullOpts()
	g.OptionalBias = true
	g.DisposableBias = true
	oo := overlapOpts{Gen: g, AKinds: []string{"pclose", "close", "close"}, BKinds: []string{"get-wired", "get-wired", "get", "create"},
		GateKind: []int{kit.GateCloseEnter, kit.GateCloseEnter, kit.GateInternal}, ExtraWarm: 8, ExtraScopes: 3}
	runOverlapTest(t, "C09", "use-during-close",
		"controlled two-thread programs: thread A closes a scope (or the provider) and is parked inside the Close() method of the n-th instance it disposes or at a schedule point of the disposal; thread B then resolves a service that is constructed now (optional dependencies on registered services preferred) or creates a scope on any live scope and runs until it returns or blocks; A is released; oracle: no panic, no hang, B's call returns a fully constructed, fully wired value or a documented (disposed) error, and the run satisfies the C02 ledger oracle; non-trivial = A was parked",
		oo,
		func(c *overlapCase) *Failure {
			if f := c.checkOverlapResults("C09"); f != nil {
				return f
			}
			obs, _ := c.X.observations()
			if f := c.X.checkC02(obs); f != nil {
				return fail("C09", "lifetime-rules", f.Oracle+"/"+f.Sig, "%s", f.Msg)
			}
			return nil
		},
		func(c *overlapCase) bool { return true })
}

// ---- C11 / C12: a Close parked inside an instance's Close() while an ancestor is closed ----

func closeOverlapOpts() overlapOpts {
	return overlapOpts{Gen: dispOpts(), AKinds: []string{"close"}, BKinds: []string{"close-ancestor", "close-ancestor", "pclose", "cancel"},
		GateKind: []int{kit.GateCloseEnter, kit.GateCloseEnter, kit.GateInternal}, ExtraWarm: 6, ExtraScopes: 4,
		Prep: func(w *kit.World, rt *rapid.T) {
			regs := map[int]bool{}
			for _, r := range w.Cfg.Regs {
				if r.Form != kit.FormInstance && rapid.IntRange(0, 3).Draw(rt, "closefails") == 0 { // instance values are outside the statement
					regs[r.ID] = true
				}
			}
			w.CloseFailRegs = regs
		}}
}

func TestC11Schedules(t *testing.T) {
	runOverlapTest(t, "C11", "controlled-schedules",
		"controlled two-thread programs: thread A closes a scope and is parked inside the Close() method of the n-th instance it disposes; thread B then closes an ancestor scope or the provider (or cancels an ancestor's context) and runs until it returns or blocks; A is released; oracle = C11 stamp oracle over the whole run (reverse creation order per owner, every close in a descendant before the ancestor's own instances, scopes before singletons) and no hang; non-trivial = A was parked inside a Close()",
		closeOverlapOpts(),
		func(c *overlapCase) *Failure {
			if f := c.checkOverlapResults("C11"); f != nil && (f.Oracle == "no-hang" || f.Oracle == "no-panic") {
				return f
			}
			return c.X.checkC11()
		},
		func(c *overlapCase) bool { return true })
}

// TestC11GetSchedules: two resolutions in one scope overlap. Whatever order
// their instances end up in the scope's disposal list, a dependency must
// outlive its dependents.
func TestC11GetSchedules(t *testing.T) {
	g := dispOpts()
	g.ChainBias = true
	oo := overlapOpts{Gen: g, AKinds: []string{"get"}, BKinds: []string{"same-get", "get", "dependent-get", "dependent-get", "dependent-get"},
		GateKind: []int{kit.GateInternal, kit.GateInternal, kit.GateCtorExit}, ExtraWarm: 1,
		Points: []string{"scope.setInstance.", "scope.setInstance.", "scope.resolve.miss", "scope.resolve.locked", "scope.Get.checked"}}
	runOverlapTest(t, "C11", "get-schedules",
		"controlled two-thread programs: thread A resolves a service and is parked at the n-th schedule point inside godi (after a cache miss, after taking the construction lock, between tracking an instance for disposal and publishing it in the scope's cache) or at a constructor exit; thread B resolves the same or another service of the same scope (often one that depends on what A is constructing) to completion or until it blocks; A is released, everything is closed; oracle: no instance is closed while an instance of the same owner that received it as a dependency is still open (the unambiguous core of the order rule when constructions overlap), no hang, no panic; non-trivial = A was parked",
		oo,
		func(c *overlapCase) *Failure {
			if f := c.checkOverlapResults("C11"); f != nil && (f.Oracle == "no-hang" || f.Oracle == "no-panic") {
				return f
			}
			return c.X.checkC11Deps()
		},
		func(c *overlapCase) bool { return true })
}

// TestC11CreateSchedules: a child scope whose creation overlaps the Close of
// its parent. If the creation succeeds the child is a descendant like any
// other and must be completely disposed before the parent disposes its own
// instances.
func TestC11CreateSchedules(t *testing.T) {
	oo := overlapOpts{Gen: dispOpts(), AKinds: []string{"create", "create", "create-gatectx"}, BKinds: []string{"close", "close", "close-ancestor", "pclose", "cancel"},
		GateKind: allGates, ExtraWarm: 6, ExtraScopes: 4}
	runOverlapTest(t, "C11", "create-schedules",
		"controlled two-thread programs: thread A creates a child scope and is parked at the n-th constructor entry/exit reached by its initializer functions (or inside ctx.Done() of the context handed to CreateScope); thread B closes the parent, an ancestor or the provider (or cancels an ancestor's context) and runs until it returns or blocks; A is released, then everything is closed; oracle = C11 stamp oracle over the whole run: a child whose creation succeeded is disposed completely before any ancestor disposes its own instances (scopes whose creation reported an error are exempt), reverse creation order per owner, scopes before singletons; non-trivial = A was parked",
		oo,
		func(c *overlapCase) *Failure {
			if f := c.checkOverlapResults("C11"); f != nil && (f.Oracle == "no-hang" || f.Oracle == "no-panic") {
				return f
			}
			return c.X.checkC11()
		},
		func(c *overlapCase) bool { return true })
}

func TestC12Schedules(t *testing.T) {
	runOverlapTest(t, "C12", "controlled-schedules",
		"same programs as the C11 schedules, with every instance of a generated subset of registrations failing in Close(): the Close of a scope is parked inside an instance's Close() while an ancestor or the provider is closed; oracle = C12 per-call oracle (everything in the subtree closed exactly once when a call returns, a call returns a DisposalError iff a failing Close of its subtree ran during it, nothing closed twice) and no hang; non-trivial = A was parked inside a Close()",
		closeOverlapOpts(),
		func(c *overlapCase) *Failure {
			if f := c.checkOverlapResults("C12"); f != nil && (f.Oracle == "no-hang" || f.Oracle == "no-panic") {
				return f
			}
			failing := map[int]bool{}
			for _, e := range c.X.W.AllEntries() {
				if c.X.W.CloseFailRegs[e.Reg] {
					failing[e.Serial] = true
				}
			}
			c.X.Concurrent = true
			if f := c.X.checkC12(failing); f != nil {
				return f
			}
			// B closes an ancestor (or the provider) and had to wait for A's Close of a descendant, which was
			// parked mid-disposal: B's result covers that subtree, so it must report what A's Close reports
			if c.Parked && c.BBlocked && c.A.Kind == "close" && c.AObs != nil && c.BObs != nil && c.AObs.Err != nil &&
				(c.B.Kind == "pclose" || (c.B.Kind == "close" && c.B.Scope != c.A.Scope)) && c.BObs.Err == nil {
				return fail("C12", "reports", "owner-loses-waited-close/"+c.B.Kind, "%s had to wait for %s (parked inside an instance's Close), which then returned %v - yet %s returned nil", c.B, c.A, firstLine(c.AObs.Err), c.B)
			}
			return c.X.checkC10(true)
		},
		func(c *overlapCase) bool { return true })
}

// ---- multi-thread controlled programs with a fault plan (C02, C09) ----

type mthread struct {
	Op       Op
	GateKind int // 0 = never parks
	GateN    int
	pk       *kit.Parker
	goid     atomic.Int64
	count    int
	done     chan struct{}
}

type mcase struct {
	X       *run
	Threads []*mthread
	Actions []string // "start i" / "release i"
	Fault   string
	Hang    string
	Parked  int
	Desc    string
}

// genMulti builds and runs a program of 2-3 threads whose starts and releases
// are interleaved in a generated order; one constructor invocation may fail.
func genMulti(rt *rapid.T, gen kit.GenOpts) *mcase { return genMultiWith(rt, gen, false) }

// genMultiWith: with withClose one more thread closes the scope the others resolve in (parked
// inside an instance's Close() or at a schedule point of the disposal), and nothing is made to fail.
func genMultiWith(rt *rapid.T, gen kit.GenOpts, withClose bool) *mcase {
	cfg := kit.GenConfig(rt, gen)
	var faultKey [2]int
	var flt kit.Fault
	var prep func(*kit.World)
	if withClose && rapid.Bool().Draw(rt, "closeFailures") {
		// the Close methods of some registrations fail: what an operation that overlaps the
		// Close of its scope reports is still the disposed error, not somebody's Close error
		prep = func(w *kit.World) {
			w.CloseFailRegs = map[int]bool{}
			for _, r := range w.Cfg.Regs {
				if r.Form != kit.FormInstance && rapid.IntRange(0, 2).Draw(rt, "closeFails") == 0 {
					w.CloseFailRegs[r.ID] = true
				}
			}
		}
	}
	x, err := startRunWith(cfg, nil, prep)
	if err != nil {
		rt.Fatal(err)
	}
	c := &mcase{X: x}
	if x.Build.Err != nil || x.Build.Panic != nil {
		return c
	}
	if withClose && rapid.IntRange(0, 2).Draw(rt, "selfClosing") == 0 {
		// the Close methods of some registrations close the scope their instance lives in (a unit of
		// work that ends its own scope): whenever such an instance is closed - by the disposal loop, or
		// on arrival because it was constructed while the scope was closing - that call returns
		selfClosing := map[int]bool{}
		for _, r := range x.W.Cfg.Regs {
			if r.Form != kit.FormInstance && r.Life != kit.Singleton && rapid.IntRange(0, 1).Draw(rt, "closesItsScope") == 0 {
				selfClosing[r.ID] = true
			}
		}
		x.W.InClose = func(e *kit.Entry) {
			if !selfClosing[e.Reg] || e.Inv == nil || e.ScopeTag <= 0 {
				return
			}
			if rec := x.R.ScopeRecOf(e.ScopeTag); rec != nil && rec.S != nil {
				_ = rec.S.Close()
			}
		}
	}
	for i := rapid.IntRange(1, 3).Draw(rt, "nscopes"); i > 0; i-- {
		x.exec(Op{Kind: "create", Scope: rapid.SampledFrom(x.R.LiveScopes()).Draw(rt, "parent"), Ctx: rapid.SampledFrom([]int{0, 1}).Draw(rt, "ctx")})
	}
	ids := noVoid(identPool(x.M, false))
	var ctorIDs []kit.Ident
	for _, id := range ids {
		if ow, ok := x.M.Owner(id); ok {
			if r := x.M.Regs[ow.Reg]; r.Life == kit.Scoped && r.Form != kit.FormInstance {
				ctorIDs = append(ctorIDs, id)
			}
		}
	}
	if len(ctorIDs) == 0 {
		return c
	}
	live := x.R.LiveScopes()
	tag := rapid.SampledFrom(live).Draw(rt, "tag")
	if withClose {
		if len(live) > 1 {
			tag = rapid.SampledFrom(live[1:]).Draw(rt, "tagNonRoot")
		}
		// services with optional dependencies on registered services are what a Close in progress can leave half-wired
		var opt []kit.Ident
		for _, id := range ctorIDs {
			if ow, ok := x.M.Owner(id); ok {
				for di, d := range x.M.Regs[ow.Reg].Deps {
					if di > 0 && d.Optional && len(x.M.DepTargets(d)) > 0 {
						opt = append(opt, id)
						break
					}
				}
			}
		}
		if len(opt) > 0 && rapid.IntRange(0, 3).Draw(rt, "optFirst") != 0 {
			ctorIDs = opt
		}
		for i := rapid.IntRange(0, 3).Draw(rt, "warm"); i > 0; i-- {
			x.exec(Op{Kind: "get", Scope: tag, Ident: rapid.SampledFrom(ids).Draw(rt, "warmId")})
		}
		// half of the time the scope has a child with instances of its own: the Close is then busy below
		// (and can be held there, inside an instance's Close()) while constructions in the scope finish
		if tag != 0 && rapid.Bool().Draw(rt, "busyChild") {
			before := len(x.R.LiveScopes())
			x.exec(Op{Kind: "create", Scope: tag, Ctx: rapid.SampledFrom([]int{0, 1}).Draw(rt, "childCtx")})
			if ls := x.R.LiveScopes(); len(ls) > before {
				child := ls[len(ls)-1]
				for i := rapid.IntRange(1, 3).Draw(rt, "childWarm"); i > 0; i-- {
					x.exec(Op{Kind: "get", Scope: child, Ident: rapid.SampledFrom(ids).Draw(rt, "childWarmId")})
				}
			}
		}
	}
	first := Op{Kind: "get", Scope: tag, Ident: rapid.SampledFrom(ctorIDs).Draw(rt, "id0")}
	nth := rapid.IntRange(2, 3).Draw(rt, "threads")
	for i := 0; i < nth; i++ {
		th := &mthread{Op: first, done: make(chan struct{})}
		if i > 0 && rapid.IntRange(0, 9).Draw(rt, "same") >= 6 {
			th.Op = Op{Kind: "get", Scope: rapid.SampledFrom(live).Draw(rt, "tagN"), Ident: rapid.SampledFrom(ids).Draw(rt, "idN")}
		}
		if rapid.IntRange(0, 9).Draw(rt, "gated") < 7 {
			th.GateKind = rapid.SampledFrom(allGates).Draw(rt, "gk")
			th.GateN = rapid.SampledFrom([]int{1, 1, 1, 2}).Draw(rt, "gn")
			if th.GateKind == kit.GateInternal {
				th.GateN = rapid.IntRange(1, 8).Draw(rt, "gnInternal")
			}
		}
		c.Threads = append(c.Threads, th)
	}
	if withClose {
		th := &mthread{Op: Op{Kind: "close", Scope: tag}, done: make(chan struct{})}
		if tag == 0 {
			th.Op = Op{Kind: "pclose"}
		}
		th.GateKind = rapid.SampledFrom([]int{kit.GateCloseEnter, kit.GateCloseEnter, kit.GateInternal}).Draw(rt, "closeGate")
		th.GateN = rapid.IntRange(1, 4).Draw(rt, "closeGateN")
		c.Threads = append(c.Threads, th)
	}
	// fault plan: one invocation of the registration behind the first op (or another one) fails
	if !withClose && rapid.IntRange(0, 9).Draw(rt, "faulty") < 6 {
		ow, _ := x.M.Owner(first.Ident)
		reg := x.M.Regs[ow.Reg]
		if rapid.IntRange(0, 9).Draw(rt, "faultOther") >= 7 {
			reg = x.M.Regs[rapid.SampledFrom(x.M.Order).Draw(rt, "faultReg")]
		}
		if reg.Form != kit.FormInstance {
			faultKey = [2]int{reg.ID, x.W.Count[reg.ID] + rapid.IntRange(1, 2).Draw(rt, "faultNth")}
			flt = faultFor(reg, rapid.IntRange(0, 2).Draw(rt, "faultVariant"))
			x.W.Faults[faultKey] = flt
			c.Fault = fmt.Sprintf("r%d#%d kind %d", faultKey[0], faultKey[1], flt.Kind)
		}
	}
	// interleaving of starts and releases: a permutation with start(i) before release(i)
	var acts []string
	for i := range c.Threads {
		acts = append(acts, fmt.Sprintf("start %d", i), fmt.Sprintf("release %d", i))
	}
	acts = rapid.Permutation(acts).Draw(rt, "actions")
	pos := map[string]int{}
	for i, a := range acts {
		pos[a] = i
	}
	for i := range c.Threads {
		s, r := fmt.Sprintf("start %d", i), fmt.Sprintf("release %d", i)
		if pos[s] > pos[r] {
			acts[pos[s]], acts[pos[r]] = r, s
			pos[s], pos[r] = pos[r], pos[s]
		}
	}
	c.Actions = acts
	// run
	for _, th := range c.Threads {
		th := th
		th.pk = kit.NewParker(func(gp kit.GatePoint) bool {
			if th.GateKind == 0 || gp.Kind != th.GateKind {
				return false
			}
			th.count++
			return th.count == th.GateN
		})
	}
	x.W.SetGate(func(gp kit.GatePoint) {
		for _, th := range c.Threads {
			if gp.Goid == th.goid.Load() {
				th.pk.Gate(gp)
				return
			}
		}
	})
	settle := func(th *mthread) {
		select {
		case <-th.pk.Parked():
		case <-th.done:
		case <-time.After(25 * time.Millisecond):
		}
	}
	for _, a := range acts {
		var kind string
		var i int
		fmt.Sscanf(a, "%s %d", &kind, &i)
		th := c.Threads[i]
		if kind == "start" {
			go func() {
				defer close(th.done)
				th.goid.Store(kit.Goid())
				x.exec(th.Op)
			}()
			settle(th)
		} else {
			th.pk.Release()
			kit.WaitOrTimeout(th.done, 25*time.Millisecond)
		}
	}
	for _, th := range c.Threads {
		th.pk.Release()
	}
	for i, th := range c.Threads {
		if th.pk.WasHit() {
			c.Parked++
		}
		if !kit.WaitOrTimeout(th.done, 20*time.Second) {
			c.Hang = fmt.Sprintf("thread %d (%s) did not return within 20 s", i, th.Op)
			return c
		}
	}
	x.W.SetGate(nil)
	x.W.ClearFaults()
	if !x.R.PClosed {
		x.exec(Op{Kind: "pclose"})
	}
	var td []string
	for i, th := range c.Threads {
		td = append(td, fmt.Sprintf("T%d: %s gate(kind %d #%d)", i, th.Op, th.GateKind, th.GateN))
	}
	c.Desc = fmt.Sprintf("config: %s\nthreads: %s\nactions: %v\nfault: %s", cfg, strings.Join(td, " | "), acts, c.Fault)
	return c
}

// TestC13MultiSchedules: resolutions of one scoped service that overlap each other AND the Close
// of their scope. Whoever gets a value gets a complete one.
func runCloseMulti(t *testing.T, prop string) {
	col := evid.New(prop, "multi-thread-close-schedules", "controlled programs of 3-4 threads: 2-3 resolutions (mostly of one scoped service with optional dependencies on registered services) in one scope and a Close of that scope, each thread optionally parked at the n-th constructor entry/exit, instance Close() or schedule point inside godi it reaches; starts and releases interleaved in a generated order; nothing is made to fail; oracle: no panic, no hang, every resolution returns the disposed error or a value whose construction completed and which was built with every registered dependency it declares (also the optional ones: the disposed error that an optional field swallows must not produce a half-initialised result that somebody receives), C10 exactly-once disposal; non-trivial = the closing thread and a resolving thread were both parked")
	defer col.Flush()
	rapid.Check(t, func(rt *rapid.T) {
		g := kit.FullOpts()
		g.OptionalBias = true
		g.ChainBias = true
		g.Lifetimes = []int{kit.Singleton, kit.Scoped, kit.Scoped, kit.Scoped, kit.Transient}
		c := genMultiWith(rt, g, true)
		if c.Desc == "" && c.Hang == "" {
			col.Case(false, c.X.Cfg.String(), nil, "not-run")
			return
		}
		x := c.X
		var f *Failure
		if c.Hang != "" {
			f = fail(prop, "no-hang", "multi", "%s", c.Hang)
		}
		for _, o := range x.R.Obs {
			if f != nil {
				break
			}
			switch {
			case o.Panic != nil:
				f = fail(prop, "no-panic", "multi/"+o.Kind, "%s(s%d,%s) panicked: %v", o.Kind, o.Scope, o.Ident, o.Panic)
			case o.Kind == "resolve" && o.Err != nil:
				if _, registered := x.M.Owner(o.Ident); (registered || o.Ident.Group != "") && !kit.IsDisposed(o.Err) && !x.M.NilOutput(o.Ident) {
					f = fail(prop, "documented-error", "multi/"+kit.Classify(o.Err), "get(s%d,%s) overlapping a Close failed with %v, want a value or the disposed error", o.Scope, o.Ident, firstLine(o.Err))
				}
			case o.Kind == "resolve":
				for _, e := range o.Entries {
					if e == nil && x.M.NilOutput(o.Ident) {
						continue
					}
					if e == nil || (e.Inv != nil && (e.Inv.Outcome != 1 || e.BornSeq == 0 || e.BornSeq > o.EndSeq)) {
						f = fail(prop, "complete-result", "multi/half-built", "get(s%d,%s) returned %v whose constructor had not completed", o.Scope, o.Ident, e)
					}
				}
			}
		}
		if f == nil {
			_, problems := x.observations()
			vis := x.visibleInvs()
			for _, pr := range problems {
				if pr.Oracle == "arg-present" && pr.Inv != nil && vis[pr.Inv] {
					f = fail(prop, "complete-result", "multi/half-wired", "handed out although constructed without a registered dependency: %s", pr.Msg)
					break
				}
			}
		}
		if f == nil {
			if g := x.checkC10(true); g != nil {
				orc := "lifetime-rules"
				if prop == "C12" {
					orc = "closes-everything-it-owns"
				}
				f = fail(prop, orc, g.Oracle+"/"+g.Sig, "%s", g.Msg)
			}
		}
		closerParked := len(c.Threads) > 0 && c.Threads[len(c.Threads)-1].pk != nil && c.Threads[len(c.Threads)-1].pk.WasHit()
		labels := []string{fmt.Sprintf("threads=%d", len(c.Threads)), fmt.Sprintf("parked=%d", c.Parked), fmt.Sprintf("closer-parked=%v", closerParked)}
		if f != nil && isKnown(f) {
			col.Excluded()
			return
		}
		col.Case(closerParked && c.Parked >= 2, c.Desc, c.Desc, labels...)
		if f != nil {
			rt.Fatalf("VIOLATION %s\n%s", f, c.Desc)
		}
	})
}

func TestC13MultiSchedules(t *testing.T) { runCloseMulti(t, "C13") }

// TestC09CloseSchedules: the same programs as C09 sees them - every individual call returns a
// result that respects the lifetime rules or one of the documented errors.
func TestC09CloseSchedules(t *testing.T) { runCloseMulti(t, "C09") }

// TestC12CloseSchedules: the same programs seen from the Close: what the scope owns when all
// is over - also what was constructed while its disposal was under way - has been closed, once.
func TestC12CloseSchedules(t *testing.T) { runCloseMulti(t, "C12") }

// TestC11MultiSchedules: resolutions that overlap the Close of their scope, seen from the
// order rule: whatever arrives late, no dependency is closed while something that holds it
// and has been handed over is still open.
func TestC11MultiSchedules(t *testing.T) {
	col := evid.New("C11", "multi-thread-schedules", "the programs of the C13 multi-thread part (2-3 resolutions in one scope and a Close of that scope, each parkable at constructor entry/exit, inside an instance's Close() or at a schedule point inside godi) over disposable-rich dependency chains; oracle: no instance is closed while an instance of the same owner that received it as a dependency - and whose creating operation had returned - is still open; what the closed scope itself owns (also an instance whose construction finished while the Close was under way) is closed only after every instance that a descendant scope had before the Close began; no hang, no panic; non-trivial = the closing thread and a resolving thread were both parked")
	defer col.Flush()
	rapid.Check(t, func(rt *rapid.T) {
		g := dispOpts()
		g.ChainBias = true
		g.Lifetimes = []int{kit.Singleton, kit.Scoped, kit.Scoped, kit.Transient, kit.Transient}
		c := genMultiWith(rt, g, true)
		if c.Desc == "" && c.Hang == "" {
			col.Case(false, c.X.Cfg.String(), nil, "not-run")
			return
		}
		var f *Failure
		if c.Hang != "" {
			f = fail("C11", "no-hang", "multi", "%s", c.Hang)
		}
		for _, o := range c.X.R.Obs {
			if f == nil && o.Panic != nil {
				f = fail("C11", "no-panic", "multi/"+o.Kind, "%s(s%d,%s) panicked: %v", o.Kind, o.Scope, o.Ident, o.Panic)
			}
		}
		if f == nil {
			f = c.X.checkC11Deps()
		}
		if f == nil {
			f = c.X.checkC11ChildrenFirst()
		}
		closerParked := len(c.Threads) > 0 && c.Threads[len(c.Threads)-1].pk != nil && c.Threads[len(c.Threads)-1].pk.WasHit()
		if f != nil && isKnown(f) {
			col.Excluded()
			return
		}
		col.Case(closerParked && c.Parked >= 2, c.Desc, c.Desc, fmt.Sprintf("threads=%d", len(c.Threads)), fmt.Sprintf("parked=%d", c.Parked), fmt.Sprintf("closer-parked=%v", closerParked))
		if f != nil {
			rt.Fatalf("VIOLATION %s\n%s", f, c.Desc)
		}
	})
}

func runMultiTest(t *testing.T, prop string) {
	col := evid.New(prop, "multi-thread-schedules", "controlled programs of 2-3 threads, mostly resolving the same scoped identity in the same scope, each optionally parked at the n-th constructor entry/exit it reaches; the starts and releases of the threads are interleaved in a generated order (a thread may arrive while another is parked, blocked on it, or already released), and one constructor invocation of the contested registration (or another) fails with an error, panic or nil; oracle: no panic, no hang, C02 ledger oracle (at most one instance of a scoped registration reaches anybody per scope, everybody holds the same one; a failed construction yields none and the next resolver retries) and C10 exactly-once disposal; non-trivial = >=2 threads were actually parked or a fault fired while another thread was waiting")
	defer col.Flush()
	rapid.Check(t, func(rt *rapid.T) {
		g := dispOpts()
		g.Lifetimes = []int{kit.Singleton, kit.Scoped, kit.Scoped, kit.Scoped, kit.Transient}
		c := genMulti(rt, g)
		if c.Desc == "" && c.Hang == "" {
			col.Case(false, c.X.Cfg.String(), nil, "not-run")
			return
		}
		var f *Failure
		if c.Hang != "" {
			f = fail(prop, "no-hang", "multi", "%s", c.Hang)
		}
		if f == nil {
			for _, o := range c.X.R.Obs {
				if o.Panic != nil {
					f = fail(prop, "no-panic", "multi/"+o.Kind, "%s(s%d,%s) panicked: %v", o.Kind, o.Scope, o.Ident, o.Panic)
				}
			}
		}
		if f == nil && prop == "C15" {
			// "a failed resolution is not cached ... a retry behaves like a first attempt": an operation
			// fails only when a constructor failed during it, on its own goroutine - never with the
			// failure of somebody else's attempt that happened to be in flight when it arrived
			for _, o := range c.X.R.Obs {
				if o.Kind != "resolve" || o.Err == nil || f != nil || kit.Classify(o.Err) != kit.VCtor {
					continue
				}
				own := false
				for _, inv := range c.X.W.AllInvs() {
					if inv.Outcome >= 2 && inv.Goid == o.Goid && inv.StartSeq >= o.StartSeq && (o.EndSeq == 0 || inv.StartSeq <= o.EndSeq) {
						own = true
					}
				}
				if !own {
					f = fail("C15", "retry", "stale-failure/concurrent", "get(s%d,%s) failed with %v although no constructor failed during it: it reports the failure of another resolution's attempt", o.Scope, o.Ident, firstLine(o.Err))
				}
			}
		}
		if f == nil {
			obs, _ := c.X.observations()
			if g := c.X.checkC02(obs); g != nil {
				f = g
				if prop != "C02" {
					f = fail(prop, "lifetime-rules", g.Oracle+"/"+g.Sig, "%s", g.Msg)
				}
			}
		}
		if f == nil {
			if g := c.X.checkC10(true); g != nil {
				f = fail(prop, "lifetime-rules", g.Oracle+"/"+g.Sig, "%s", g.Msg)
			}
		}
		labels := []string{fmt.Sprintf("threads=%d", len(c.Threads)), fmt.Sprintf("parked=%d", c.Parked)}
		if c.Fault != "" {
			labels = append(labels, "fault")
		}
		if f != nil && isKnown(f) {
			col.Excluded()
			return
		}
		col.Case(c.Parked >= 2 || (c.Parked >= 1 && c.Fault != ""), c.Desc, c.Desc, labels...)
		if f != nil {
			rt.Fatalf("VIOLATION %s\n%s", f, c.Desc)
		}
	})
}

func TestC02MultiSchedules(t *testing.T) { runMultiTest(t, "C02") }
func TestC09MultiSchedules(t *testing.T) { runMultiTest(t, "C09") }

// TestC15MultiSchedules: the same programs judged for "a failed resolution is not cached": only the
// operation during which a constructor failed reports that failure.
func TestC15MultiSchedules(t *testing.T) { runMultiTest(t, "C15") }

// ---- C03: overlapping requests for a transient ----

func TestC03Schedules(t *testing.T) {
	g := kit.FullOpts()
	g.Lifetimes = []int{kit.Singleton, kit.Scoped, kit.Transient, kit.Transient, kit.Transient}
	runOverlapTest(t, "C03", "controlled-schedules",
		"controlled two-thread programs over transient-rich configurations: thread A resolves an identity and is parked at the n-th constructor entry/exit it reaches; thread B resolves the same identity (or another) in the same or another scope and runs until it returns or blocks; A is released; oracle = C03 ledger oracle (constructor invocations equal request sites, no transient instance handed out twice); non-trivial = A was parked inside a constructor",
		overlapOpts{Gen: g, AKinds: []string{"get"}, BKinds: []string{"same-get", "same-get", "get"}, GateKind: allGates},
		func(c *overlapCase) *Failure {
			if f := c.checkOverlapResults("C03"); f != nil && (f.Oracle == "no-hang" || f.Oracle == "no-panic") {
				return f
			}
			obs, _ := c.X.observations()
			return c.X.checkC03(obs)
		},
		func(c *overlapCase) bool { return true })
}

// ---- C04: two constructions of one constructor at once: each is called with its own arguments ----

// argsOfOwnResolution: what a constructor was called with was resolved for this very call: a scoped
// argument is an instance of the scope the call was made for, a transient argument was made by the
// goroutine that makes the call, during it.
func (x *run) argsOfOwnResolution(obs []seen) *Failure {
	for _, s := range obs {
		if s.ByInv == nil || s.E == nil || s.E.Inv == nil {
			continue
		}
		reg := x.M.Regs[s.Owner.Reg]
		switch {
		case reg.Form == kit.FormInstance:
		case reg.Life == kit.Scoped && s.E.ScopeTag != s.ByInv.ScopeTag && s.ByInv.ScopeTag >= 0:
			return fail("C04", "right-argument", "other-scope/"+s.ViaKind, "%s: r%d, called for scope s%d, received %v, the instance of scope s%d", s.Where, s.ByInv.Reg, s.ByInv.ScopeTag, s.E, s.E.ScopeTag)
		case reg.Life == kit.Transient && (s.E.Inv.Goid != s.ByInv.Goid || s.E.Inv.StartSeq > s.ByInv.StartSeq):
			return fail("C04", "right-argument", "other-call/"+s.ViaKind, "%s: invocation #%d of r%d received transient %v, which was made for another call (goroutine %d, this call runs on %d)", s.Where, s.ByInv.N, s.ByInv.Reg, s.E, s.E.Inv.Goid, s.ByInv.Goid)
		}
	}
	return nil
}

func TestC04Schedules(t *testing.T) {
	g := c02ScheduleOpts()
	g.Lifetimes = []int{kit.Singleton, kit.Scoped, kit.Scoped, kit.Transient, kit.Transient}
	runOverlapTest(t, "C04", "controlled-schedules",
		"controlled two-thread programs over configurations whose services depend on each other a lot: thread A resolves an identity in a scope and is parked at the n-th constructor entry/exit it reaches or at a schedule point inside godi, i.e. between two of the arguments of some constructor; thread B then resolves the same identity (or another one) in another scope or the same one and runs to completion; A is released; oracle = the C04 ledger oracle on everything both threads saw (instances and every argument of every constructor call are made by the registration that owns the identity) and every argument was resolved for that very call: scoped arguments are instances of the scope the call was made for, transient arguments were made during that call by its goroutine; non-trivial = A was parked",
		overlapOpts{Gen: g, AKinds: []string{"get"}, BKinds: []string{"same-get-elsewhere", "same-get-elsewhere", "same-get", "get"}, GateKind: allGates, ExtraScopes: 1},
		func(c *overlapCase) *Failure {
			if f := c.checkOverlapResults("C04"); f != nil && (f.Oracle == "no-hang" || f.Oracle == "no-panic") {
				return f
			}
			obs, problems := c.X.observations()
			if f := c.X.checkC04(obs, problems); f != nil {
				return f
			}
			return c.X.argsOfOwnResolution(obs)
		},
		func(c *overlapCase) bool { return true })
}

// ---- C18: constructions in two scopes at once: each gets its own scope's built-ins ----

// sprinkleBuiltins appends context / Scope / Provider dependencies to constructors
// (behind their other dependencies, so that other people's constructors run
// between the start of the construction and the moment the built-in is fetched).
func sprinkleBuiltins(rt *rapid.T, cfg *kit.Config) {
	for i := range cfg.Regs {
		r := &cfg.Regs[i]
		if r.Form == kit.FormInstance {
			continue
		}
		for k := rapid.IntRange(0, 2).Draw(rt, "extraBuiltins"); k > 0; k-- {
			d := kit.DepSpec{Builtin: rapid.IntRange(1, 3).Draw(rt, "builtinKind")}
			if rapid.IntRange(0, 5).Draw(rt, "builtinOptional") == 0 {
				d.Optional = true
				r.UseIn = true
			}
			r.Deps = append(r.Deps, d)
		}
	}
}

func TestC18Schedules(t *testing.T) {
	o := c02ScheduleOpts()
	runOverlapTest(t, "C18", "controlled-schedules",
		"controlled two-thread programs over configurations whose constructors take context.Context / Scope / Provider behind their other dependencies (plain parameters and parameter-object fields): thread A resolves in one scope and is parked at the n-th constructor entry/exit or at a schedule point inside godi, i.e. between two of the arguments of some constructor; thread B resolves (the same service or another one) or creates a scope elsewhere and runs to completion; A is released; oracle = the C18 identity oracle on every constructor invocation of the run (injected context, Scope and Provider are those of the scope the resolution was issued on; root scope for singletons) plus no panic / no hang; non-trivial = A was parked",
		overlapOpts{Gen: o, MutateCfg: sprinkleBuiltins, AKinds: []string{"get"}, BKinds: []string{"get", "same-get-elsewhere", "same-get-elsewhere", "create"}, GateKind: allGates, ExtraScopes: 1},
		func(c *overlapCase) *Failure {
			if f := c.checkOverlapResults("C18"); f != nil && (f.Oracle == "no-hang" || f.Oracle == "no-panic") {
				return f
			}
			if c.Root == nil {
				return fail("C18", "direct", "root-scope", "provider.Get(Scope) did not yield the root scope")
			}
			return c.X.checkC18(c.Root)
		},
		func(c *overlapCase) bool { return true })
}

// ---- constructors that can only be aborted through their scope's context ----

// runCtxWaiters: a scoped or transient constructor takes the scope's context and does not
// return until that context is done (a dial with no other way out). Closing the scope - or an
// ancestor, or the provider - cancels that context: the Close returns, and so does the
// resolution. A Close that first waits for constructions in flight would wait for ever.
func runCtxWaiters(t *testing.T, prop string) {
	col := evid.New(prop, "constructors-waiting-for-their-context", "generated configurations in which one scoped or transient constructor takes context.Context and returns only once that context is done; a scope tree of depth 1-3; thread A resolves that service in the deepest scope and is left waiting inside the constructor; thread B closes that scope, an ancestor or the provider; oracle: B's Close returns within 10 s (no deadlock between the Close and the construction it overlaps), A's resolution returns within 10 s after that (a value, the disposed error or the constructor's own context error), nobody panics; non-trivial = the constructor was actually waiting when the Close was issued")
	defer col.Flush()
	rapid.Check(t, func(rt *rapid.T) {
		cfg := kit.GenConfig(rt, kit.FullOpts())
		cfg.PreBuild = 0
		var cands []int
		for i := range cfg.Regs {
			r := &cfg.Regs[i]
			if r.Life != kit.Singleton && (r.Form == kit.FormPlain || r.Form == kit.FormMulti || r.Form == kit.FormOut) && r.Kind == kit.KindMakeFunc && !r.Variadic && !r.HasCtorOf && len(r.Provides()) > 0 {
				cands = append(cands, i)
			}
		}
		if len(cands) == 0 {
			col.Case(false, cfg.String(), nil, "no-candidate")
			return
		}
		wr := &cfg.Regs[rapid.SampledFrom(cands).Draw(rt, "waiter")]
		wr.Deps = append(wr.Deps, kit.DepSpec{Builtin: 1})
		waiting := make(chan int, 8)
		x, err := startRunWith(cfg, nil, func(w *kit.World) {
			w.CtxWaitRegs = map[int]bool{wr.ID: true}
			w.CtxWaiting = waiting
		})
		if err != nil {
			rt.Fatal(err)
		}
		if x.Build.Err != nil || x.Build.Panic != nil {
			col.Case(false, cfg.String(), nil, "build-failed(not judged here)")
			return
		}
		depth := rapid.IntRange(1, 3).Draw(rt, "depth")
		parent := 0
		for d := 0; d < depth; d++ {
			x.exec(Op{Kind: "create", Scope: parent, Ctx: rapid.SampledFrom([]int{0, 1, 2}).Draw(rt, "ctx")})
			tags := x.R.Tags()
			parent = tags[len(tags)-1]
		}
		leaf := parent
		if rec := x.R.ScopeRecOf(leaf); rec == nil || !rec.Created {
			col.Case(false, cfg.String(), nil, "scope-creation-failed")
			return
		}
		id := wr.Provides()[rapid.IntRange(0, len(wr.Provides())-1).Draw(rt, "which")].Ident
		x.W.CtxWaitOn.Store(true)
		aDone := make(chan struct{})
		go func() { defer close(aDone); x.exec(Op{Kind: "get", Scope: leaf, Ident: id}) }()
		isWaiting := false
		select {
		case <-waiting:
			isWaiting = true
		case <-aDone:
		case <-time.After(3 * time.Second):
		}
		anc := x.R.Ancestors(leaf)
		target := rapid.IntRange(0, len(anc)).Draw(rt, "closeWhich") // len(anc) = the provider
		closeOp := Op{Kind: "pclose"}
		if target < len(anc) {
			closeOp = Op{Kind: "close", Scope: anc[target]}
		}
		bDone := make(chan struct{})
		go func() { defer close(bDone); x.exec(closeOp) }()
		canon := fmt.Sprintf("%s\nscopes: depth %d; A: get(s%d,%s) inside the waiting constructor of r%d (waiting=%v); B: %s", cfg, depth, leaf, id, wr.ID, isWaiting, closeOp)
		col.Case(isWaiting, canon, canon, fmt.Sprintf("waiting=%v", isWaiting), "B:"+closeOp.Kind)
		var f *Failure
		if !kit.WaitOrTimeout(bDone, 10*time.Second) {
			f = fail(prop, "no-hang", "close-vs-waiting-constructor", "%s has not returned after 10 s while a constructor of the scope being closed waits for that scope's context to be done", closeOp)
		} else if !kit.WaitOrTimeout(aDone, 10*time.Second) {
			f = fail(prop, "no-hang", "resolution-after-close", "the resolution whose constructor waits for its scope's context has not returned 10 s after %s returned", closeOp)
		}
		if f == nil {
			for _, o := range x.R.Obs {
				if o.Panic != nil {
					f = fail(prop, "no-panic", o.Kind, "%s(s%d,%s) panicked: %v", o.Kind, o.Scope, o.Ident, o.Panic)
				}
			}
		}
		if f != nil {
			if isKnown(f) {
				col.Excluded()
				return
			}
			rt.Fatalf("VIOLATION %s\n%s", f, canon)
		}
		if !x.R.PClosed {
			x.exec(Op{Kind: "pclose"})
		}
	})
}

func TestC13CtxWaiters(t *testing.T) { runCtxWaiters(t, "C13") }
func TestC09CtxWaiters(t *testing.T) { runCtxWaiters(t, "C09") }

package props

import (
	"testing"

	"pgregory.net/rapid"
)

// Native (coverage-guided) fuzz targets for the graph component. The byte
// input is the bit stream of the rapid generators (rapid.MakeFuzz), so the
// targets decode into the same structured cases as the rapid parts and carry
// the same oracles; what changes is the search: all cores, guided by the
// coverage of godi's graph code. Used by the thorough tier only (the native
// fuzzer cannot be seeded; the saved crasher is the reproducible unit).

func propC19Sequence(t *rapid.T) {
	n := 7
	ops := rapid.SliceOfN(genGOp(n), 1, 60).Draw(t, "ops")
	if _, _, _, err := applyGOps(n, ops, false); err != nil {
		t.Fatalf("VIOLATION C19/agrees [fuzz]: %v\nops: %v", err, ops)
	}
}

func FuzzC19Graph(f *testing.F) {
	f.Fuzz(rapid.MakeFuzz(propC19Sequence))
}

func propC05Digraph(t *rapid.T) {
	n := rapid.IntRange(2, 12).Draw(t, "n")
	depsOf := make([][]int, n)
	for v := 0; v < n; v++ {
		for k := rapid.IntRange(0, 4).Draw(t, "outdeg"); k > 0; k-- {
			depsOf[v] = append(depsOf[v], rapid.IntRange(0, n-1).Draw(t, "to"))
		}
	}
	order := rapid.Permutation(seq(n)).Draw(t, "order")
	deferred := rapid.Bool().Draw(t, "deferred")
	if _, err := runDigraph(n, func(v int) []int { return depsOf[v] }, order, deferred); err != nil {
		t.Fatalf("VIOLATION C05/exact [fuzz]: n=%d deps=%v order=%v deferred=%v: %v", n, depsOf, order, deferred, err)
	}
}

func FuzzC05Digraph(f *testing.F) {
	f.Fuzz(rapid.MakeFuzz(propC05Digraph))
}

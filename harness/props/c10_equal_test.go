package props

import (
	"context"
	"fmt"
	"reflect"
	"strings"
	"sync/atomic"
	"testing"

	"verif/evid"

	"github.com/junioryono/godi/v4"
	"pgregory.net/rapid"
)

// Disposables that cannot be told apart by ==: value types with equal contents
// and pointers to a zero-size type (the runtime may give all of them one
// address). The ledger of the other C10 parts identifies instances by pointer;
// here only counts exist: every constructor run must be matched by exactly one
// Close by the time the owner is closed.

type eqPool struct {
	name            string
	created, closed atomic.Int64
}

// eqLease is registered and resolved by value; all leases of one pool are equal.
type eqLease struct{ pool *eqPool }

func (l eqLease) Close() error { l.pool.closed.Add(1); return nil }

// eqHook has no size at all.
type eqHook struct{}

var eqHookCreated, eqHookClosed atomic.Int64

func (*eqHook) Close() error { eqHookClosed.Add(1); return nil }

func TestC10EqualValues(t *testing.T) {
	col := evid.New("C10", "indistinguishable-instances", "1-4 registrations (any lifetime, distinct names) of disposables that compare equal although they are distinct instances - a struct value holding only a pointer to a (possibly shared) pool, and pointers to a zero-size type - resolved a generated number of times in a generated scope tree, then scopes and provider closed; oracle (counts, since the instances cannot be told apart): after a scope / the provider is closed every constructor run on its behalf is matched by exactly one Close; non-trivial = two equal-comparing instances were owned by one scope or by the provider at the same time")
	defer col.Flush()
	rapid.Check(t, func(rt *rapid.T) {
		eqHookCreated.Store(0)
		eqHookClosed.Store(0)
		shared := &eqPool{name: "shared"}
		pools := []*eqPool{shared}
		coll := godi.NewCollection()
		n := rapid.IntRange(1, 4).Draw(rt, "nregs")
		type reg struct {
			key  string
			hook bool
			life int
			pool *eqPool
		}
		var regs []reg
		var desc []string
		for i := 0; i < n; i++ {
			r := reg{key: fmt.Sprintf("k%d", i), hook: rapid.IntRange(0, 2).Draw(rt, "hook") == 0, life: rapid.IntRange(0, 2).Draw(rt, "life")}
			var ctor any
			if r.hook {
				ctor = func() *eqHook { eqHookCreated.Add(1); return &eqHook{} }
			} else {
				r.pool = shared
				if rapid.Bool().Draw(rt, "ownPool") {
					r.pool = &eqPool{name: r.key}
					pools = append(pools, r.pool)
				}
				p := r.pool
				ctor = func() eqLease { p.created.Add(1); return eqLease{pool: p} }
			}
			var err error
			switch r.life {
			case 0:
				err = coll.AddSingleton(ctor, godi.Name(r.key))
			case 1:
				err = coll.AddScoped(ctor, godi.Name(r.key))
			default:
				err = coll.AddTransient(ctor, godi.Name(r.key))
			}
			if err != nil {
				rt.Fatalf("registration failed: %v", err)
			}
			regs = append(regs, r)
			desc = append(desc, fmt.Sprintf("%s:%s/%s", r.key, lifeName(r.life), map[bool]string{true: "zero-size-ptr", false: "value"}[r.hook]))
		}
		p, err := coll.Build()
		if err != nil {
			rt.Fatalf("VIOLATION C10/equal-values [build]: Build failed: %v", err)
		}
		targets := []godi.Provider{p}
		var scopes []godi.Scope
		for i := rapid.IntRange(0, 3).Draw(rt, "nscopes"); i > 0; i-- {
			parent := rapid.SampledFrom(targets).Draw(rt, "parent")
			s, err := parent.CreateScope(context.Background())
			if err != nil {
				rt.Fatalf("CreateScope: %v", err)
			}
			targets = append(targets, s)
			scopes = append(scopes, s)
		}
		var steps []string
		perOwner := map[string]int{} // owner/key -> live equal-comparing instances
		nt := false
		for i := rapid.IntRange(1, 12).Draw(rt, "ngets"); i > 0; i-- {
			ti := rapid.IntRange(0, len(targets)-1).Draw(rt, "target")
			r := rapid.SampledFrom(regs).Draw(rt, "reg")
			ty := reflect.TypeOf(eqLease{})
			if r.hook {
				ty = reflect.TypeOf(&eqHook{})
			}
			if _, err := targets[ti].GetKeyed(ty, r.key); err != nil {
				rt.Fatalf("VIOLATION C10/equal-values [resolve]: GetKeyed(%v,%s): %v", ty, r.key, err)
			}
			steps = append(steps, fmt.Sprintf("get(t%d,%s)", ti, r.key))
			owner := fmt.Sprintf("t%d", ti)
			if r.life == 0 {
				owner = "provider"
			}
			class := "hook"
			if !r.hook {
				class = r.pool.name
			}
			perOwner[owner+"/"+class+"/"+r.key]++
			distinctKeys := 0
			for k := range perOwner {
				if strings.HasPrefix(k, owner+"/"+class+"/") {
					distinctKeys++
				}
			}
			if distinctKeys >= 2 || (r.life == 2 && perOwner[owner+"/"+class+"/"+r.key] >= 2) {
				nt = true
			}
		}
		// close the scopes children-last (the parent's Close covers them anyway), then the provider
		for i := len(scopes) - 1; i >= 0; i-- {
			if rapid.Bool().Draw(rt, "closeExplicitly") {
				_ = scopes[i].Close()
			}
		}
		if err := p.Close(); err != nil {
			rt.Fatalf("VIOLATION C10/equal-values [close]: provider Close failed: %v", err)
		}
		canon := strings.Join(desc, " ") + " | scopes=" + fmt.Sprint(len(scopes)) + " | " + strings.Join(steps, " ")
		col.Case(nt, canon, canon)
		for _, pl := range pools {
			if c, d := pl.created.Load(), pl.closed.Load(); c != d {
				rt.Fatalf("VIOLATION C10/exactly-once [equal-values/value]: %d value-type disposables of pool %s were constructed, %d Close calls arrived after everything was closed\n%s", c, pl.name, d, canon)
			}
		}
		if c, d := eqHookCreated.Load(), eqHookClosed.Load(); c != d {
			rt.Fatalf("VIOLATION C10/exactly-once [equal-values/zero-size]: %d zero-size disposables were constructed, %d Close calls arrived after everything was closed\n%s", c, d, canon)
		}
	})
}

package props

import (
	"context"
	"errors"
	"fmt"
	"reflect"
	"strings"
	"sync/atomic"
	"testing"

	"verif/evid"

	"github.com/junioryono/godi/v4"
	"pgregory.net/rapid"
)

// Disposables that cannot be told apart by ==: value types with equal contents
// and pointers to a zero-size type (the runtime may give all of them one
// address). The ledger of the other C10 parts identifies instances by pointer;
// here only counts exist: every constructor run must be matched by exactly one
// Close by the time the owner is closed.

type eqPool struct {
	name            string
	created, closed atomic.Int64
}

// eqLease is registered and resolved by value; all leases of one pool are equal.
type eqLease struct{ pool *eqPool }

func (l eqLease) Close() error { l.pool.closed.Add(1); return nil }

// eqHook has no size at all.
type eqHook struct{}

var eqHookCreated, eqHookClosed atomic.Int64

func (*eqHook) Close() error { eqHookClosed.Add(1); return nil }

// eqBlank is registered and resolved by value, and its constructors return the
// zero value of the type: an instance like any other (a lazily filled handle,
// descriptor number 0).
type eqBlank struct{ fd int }

var eqBlankCreated, eqBlankClosed atomic.Int64

func (eqBlank) Close() error { eqBlankClosed.Add(1); return nil }

func TestC10EqualValues(t *testing.T) {
	col := evid.New("C10", "indistinguishable-instances", "1-4 registrations (any lifetime, distinct names) of disposables that compare equal although they are distinct instances - a struct value holding only a pointer to a (possibly shared) pool, and pointers to a zero-size type - resolved a generated number of times in a generated scope tree, then scopes and provider closed; oracle (counts, since the instances cannot be told apart): after a scope / the provider is closed every constructor run on its behalf is matched by exactly one Close; non-trivial = two equal-comparing instances were owned by one scope or by the provider at the same time")
	defer col.Flush()
	rapid.Check(t, func(rt *rapid.T) {
		eqHookCreated.Store(0)
		eqHookClosed.Store(0)
		eqBlankCreated.Store(0)
		eqBlankClosed.Store(0)
		shared := &eqPool{name: "shared"}
		pools := []*eqPool{shared}
		coll := godi.NewCollection()
		n := rapid.IntRange(1, 4).Draw(rt, "nregs")
		type reg struct {
			key   string
			hook  bool
			blank bool
			life  int
			pool  *eqPool
		}
		var regs []reg
		var desc []string
		for i := 0; i < n; i++ {
			r := reg{key: fmt.Sprintf("k%d", i), hook: rapid.IntRange(0, 2).Draw(rt, "hook") == 0, life: rapid.IntRange(0, 2).Draw(rt, "life")}
			var ctor any
			if !r.hook && rapid.IntRange(0, 2).Draw(rt, "blank") == 0 {
				r.blank = true
			}
			if r.hook {
				ctor = func() *eqHook { eqHookCreated.Add(1); return &eqHook{} }
			} else if r.blank {
				ctor = func() eqBlank { eqBlankCreated.Add(1); return eqBlank{} }
			} else {
				r.pool = shared
				if rapid.Bool().Draw(rt, "ownPool") {
					r.pool = &eqPool{name: r.key}
					pools = append(pools, r.pool)
				}
				p := r.pool
				ctor = func() eqLease { p.created.Add(1); return eqLease{pool: p} }
			}
			var err error
			switch r.life {
			case 0:
				err = coll.AddSingleton(ctor, godi.Name(r.key))
			case 1:
				err = coll.AddScoped(ctor, godi.Name(r.key))
			default:
				err = coll.AddTransient(ctor, godi.Name(r.key))
			}
			if err != nil {
				rt.Fatalf("registration failed: %v", err)
			}
			regs = append(regs, r)
			kind := map[bool]string{true: "zero-size-ptr", false: "value"}[r.hook]
			if r.blank {
				kind = "zero-value"
			}
			desc = append(desc, fmt.Sprintf("%s:%s/%s", r.key, lifeName(r.life), kind))
		}
		p, err := coll.Build()
		if err != nil {
			rt.Fatalf("VIOLATION C10/equal-values [build]: Build failed: %v", err)
		}
		targets := []godi.Provider{p}
		var scopes []godi.Scope
		for i := rapid.IntRange(0, 3).Draw(rt, "nscopes"); i > 0; i-- {
			parent := rapid.SampledFrom(targets).Draw(rt, "parent")
			s, err := parent.CreateScope(context.Background())
			if err != nil {
				rt.Fatalf("CreateScope: %v", err)
			}
			targets = append(targets, s)
			scopes = append(scopes, s)
		}
		var steps []string
		perOwner := map[string]int{} // owner/key -> live equal-comparing instances
		nt := false
		for i := rapid.IntRange(1, 12).Draw(rt, "ngets"); i > 0; i-- {
			ti := rapid.IntRange(0, len(targets)-1).Draw(rt, "target")
			r := rapid.SampledFrom(regs).Draw(rt, "reg")
			ty := reflect.TypeOf(eqLease{})
			if r.hook {
				ty = reflect.TypeOf(&eqHook{})
			} else if r.blank {
				ty = reflect.TypeOf(eqBlank{})
			}
			if _, err := targets[ti].GetKeyed(ty, r.key); err != nil {
				rt.Fatalf("VIOLATION C10/equal-values [resolve]: GetKeyed(%v,%s): %v", ty, r.key, err)
			}
			steps = append(steps, fmt.Sprintf("get(t%d,%s)", ti, r.key))
			owner := fmt.Sprintf("t%d", ti)
			if r.life == 0 {
				owner = "provider"
			}
			class := "hook"
			if r.blank {
				class = "blank"
			} else if !r.hook {
				class = r.pool.name
			}
			perOwner[owner+"/"+class+"/"+r.key]++
			distinctKeys := 0
			for k := range perOwner {
				if strings.HasPrefix(k, owner+"/"+class+"/") {
					distinctKeys++
				}
			}
			if distinctKeys >= 2 || (r.life == 2 && perOwner[owner+"/"+class+"/"+r.key] >= 2) {
				nt = true
			}
		}
		// close the scopes children-last (the parent's Close covers them anyway), then the provider
		for i := len(scopes) - 1; i >= 0; i-- {
			if rapid.Bool().Draw(rt, "closeExplicitly") {
				_ = scopes[i].Close()
			}
		}
		if err := p.Close(); err != nil {
			rt.Fatalf("VIOLATION C10/equal-values [close]: provider Close failed: %v", err)
		}
		canon := strings.Join(desc, " ") + " | scopes=" + fmt.Sprint(len(scopes)) + " | " + strings.Join(steps, " ")
		col.Case(nt, canon, canon)
		for _, pl := range pools {
			if c, d := pl.created.Load(), pl.closed.Load(); c != d {
				rt.Fatalf("VIOLATION C10/exactly-once [equal-values/value]: %d value-type disposables of pool %s were constructed, %d Close calls arrived after everything was closed\n%s", c, pl.name, d, canon)
			}
		}
		if c, d := eqBlankCreated.Load(), eqBlankClosed.Load(); c != d {
			rt.Fatalf("VIOLATION C10/exactly-once [equal-values/zero-value]: %d value-type disposables holding the zero value of their type were constructed, %d Close calls arrived after everything was closed\n%s", c, d, canon)
		}
		if c, d := eqHookCreated.Load(), eqHookClosed.Load(); c != d {
			rt.Fatalf("VIOLATION C10/exactly-once [equal-values/zero-size]: %d zero-size disposables were constructed, %d Close calls arrived after everything was closed\n%s", c, d, canon)
		}
	})
}

// eqFailing: a value-type disposable whose Close reports an error; its
// constructors return the zero value of the type or a non-zero one.
type eqFailing struct{ code int }

var eqFailingClosed atomic.Int64

func (f eqFailing) Close() error {
	eqFailingClosed.Add(1)
	return fmt.Errorf("eqFailing(%d): close failed", f.code)
}

// TestC12ValueDisposables: Close reports a disposal error exactly when a Close
// method of something it owns failed - also when the instance is a struct held
// by value, and also when that value happens to be the zero value of its type.
func TestC12ValueDisposables(t *testing.T) {
	col := evid.New("C12", "value-type-instances", "1-3 registrations (any lifetime, distinct names) of a disposable struct type registered and resolved by value whose Close returns an error, the constructors returning either the zero value of the type or a non-zero one, next to 0-2 value-type disposables that close fine; resolved a generated number of times from the provider and from flat scopes; each scope is closed, then the provider; oracle per Close call: it returns an error satisfying errors.As(DisposalError) exactly when a failing instance was owned by what it closes, and every failing instance constructed received exactly one Close call in the end; non-trivial = a failing instance holding the zero value was owned by a closed scope or the provider")
	defer col.Flush()
	rapid.Check(t, func(rt *rapid.T) {
		eqFailingClosed.Store(0)
		eqBlankCreated.Store(0)
		eqBlankClosed.Store(0)
		var created atomic.Int64
		coll := godi.NewCollection()
		type reg struct {
			key     string
			life    int
			failing bool
			zero    bool
		}
		var regs []reg
		var desc []string
		n := rapid.IntRange(1, 4).Draw(rt, "nregs")
		for i := 0; i < n; i++ {
			r := reg{key: fmt.Sprintf("k%d", i), life: rapid.IntRange(0, 2).Draw(rt, "life"), failing: i == 0 || rapid.Bool().Draw(rt, "failing"), zero: rapid.Bool().Draw(rt, "zero")}
			var ctor any
			switch {
			case r.failing && r.zero:
				ctor = func() eqFailing { created.Add(1); return eqFailing{} }
			case r.failing:
				ctor = func() eqFailing { created.Add(1); return eqFailing{code: 7} }
			default:
				ctor = func() eqBlank { eqBlankCreated.Add(1); return eqBlank{} }
			}
			var err error
			switch r.life {
			case 0:
				err = coll.AddSingleton(ctor, godi.Name(r.key))
			case 1:
				err = coll.AddScoped(ctor, godi.Name(r.key))
			default:
				err = coll.AddTransient(ctor, godi.Name(r.key))
			}
			if err != nil {
				rt.Fatalf("registration failed: %v", err)
			}
			regs = append(regs, r)
			desc = append(desc, fmt.Sprintf("%s:%s/failing=%v/zero=%v", r.key, lifeName(r.life), r.failing, r.zero))
		}
		p, err := coll.Build()
		if err != nil {
			rt.Fatalf("VIOLATION C12/value-instances [build]: Build failed: %v", err)
		}
		nsc := rapid.IntRange(0, 3).Draw(rt, "nscopes")
		targets := []godi.Provider{p}
		for i := 0; i < nsc; i++ {
			s, err := p.CreateScope(context.Background())
			if err != nil {
				rt.Fatalf("CreateScope: %v", err)
			}
			targets = append(targets, s)
		}
		ownsFailing := make([]bool, len(targets)) // index 0: the provider (singletons + root scope)
		ownsZeroFailing := false
		for _, r := range regs {
			if r.life == 0 && r.failing {
				ownsFailing[0] = true
				ownsZeroFailing = ownsZeroFailing || r.zero
			}
		}
		var steps []string
		for i := rapid.IntRange(1, 10).Draw(rt, "ngets"); i > 0; i-- {
			ti := rapid.IntRange(0, len(targets)-1).Draw(rt, "target")
			r := rapid.SampledFrom(regs).Draw(rt, "reg")
			ty := reflect.TypeOf(eqBlank{})
			if r.failing {
				ty = reflect.TypeOf(eqFailing{})
			}
			if _, err := targets[ti].GetKeyed(ty, r.key); err != nil {
				rt.Fatalf("VIOLATION C12/value-instances [resolve]: GetKeyed(%v,%s): %v", ty, r.key, err)
			}
			steps = append(steps, fmt.Sprintf("get(t%d,%s)", ti, r.key))
			if r.failing && r.life != 0 {
				ownsFailing[ti] = true
				ownsZeroFailing = ownsZeroFailing || r.zero
			}
		}
		canon := strings.Join(desc, " ") + " | scopes=" + fmt.Sprint(nsc) + " | " + strings.Join(steps, " ")
		col.Case(ownsZeroFailing, canon, canon)
		judge := func(what string, err error, want bool) {
			var de *godi.DisposalError
			var dev godi.DisposalError
			isDisposal := errors.As(err, &de) || errors.As(err, &dev)
			if want && !isDisposal {
				rt.Fatalf("VIOLATION C12/reports [value-instance/swallowed]: Close of %s returned %v although a Close method of an instance it owns failed\n%s", what, err, canon)
			}
			if !want && err != nil {
				rt.Fatalf("VIOLATION C12/reports [value-instance/spurious]: Close of %s returned %v although nothing it owns failed to close\n%s", what, err, canon)
			}
		}
		for i := 1; i < len(targets); i++ {
			judge(fmt.Sprintf("scope t%d", i), targets[i].(godi.Scope).Close(), ownsFailing[i])
		}
		judge("the provider", p.Close(), ownsFailing[0])
		if c, d := created.Load(), eqFailingClosed.Load(); c != d {
			rt.Fatalf("VIOLATION C12/complete-under-errors [value-instance]: %d failing value-type disposables were constructed, %d Close calls arrived after everything was closed\n%s", c, d, canon)
		}
	})
}

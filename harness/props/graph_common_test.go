package props

import (
	"errors"
	"fmt"
	"os"
	"sort"
	"strconv"
	"testing"
	"time"

	"verif/evid"
	"verif/kit"

	vh "github.com/junioryono/godi/v4/verifhooks"
)

func scale() int {
	n, _ := strconv.Atoi(os.Getenv("VERIF_SCALE"))
	if n < 1 {
		n = 1
	}
	return n
}

func thorough() bool { return os.Getenv("VERIF_TIER") == "thorough" }

func shardInfo() (idx, n int) {
	idx, _ = strconv.Atoi(os.Getenv("VERIF_SHARD"))
	n, _ = strconv.Atoi(os.Getenv("VERIF_SHARDS"))
	if n < 1 {
		n = 1
	}
	if idx >= 100 { // race shards run the whole enumeration share 0
		idx = 0
	}
	return idx % n, n
}

// gSys couples a real graph with the reference digraph over a node pool.
type gSys struct {
	pool    []vh.NodeKey
	idx     map[vh.NodeKey]int
	g       *vh.Graph
	m       *kit.Digraph
	pending bool // a deferred add has not been completed by DetectCycles/updateDegrees yet
	tag     int
	provs   map[int]*kit.GProv // tag -> provider
}

func newGSys(n int) *gSys {
	pool := kit.GNodePool(n)
	s := &gSys{pool: pool, idx: map[vh.NodeKey]int{}, g: vh.NewGraph(), m: kit.NewDigraph(len(pool)), provs: map[int]*kit.GProv{}}
	for i, k := range pool {
		s.idx[k] = i
	}
	return s
}

func (s *gSys) ids(ks []vh.NodeKey) ([]int, error) {
	out := make([]int, len(ks))
	for i, k := range ks {
		v, ok := s.idx[k]
		if !ok {
			return nil, fmt.Errorf("unknown node key %v", k)
		}
		out[i] = v
	}
	return out, nil
}

func (s *gSys) mkProv(v int, deps []int) *kit.GProv {
	s.tag++
	p := &kit.GProv{K: s.pool[v], Tag: s.tag}
	for _, d := range deps {
		p.Deps = append(p.Deps, s.pool[d])
	}
	s.provs[s.tag] = p
	return p
}

// addImmediate applies AddProvider and checks the accept/reject rule and the
// "rejected add leaves the graph exactly as it was" rule against the model.
func (s *gSys) addImmediate(v int, deps []int) (rejected bool, err error) {
	p := s.mkProv(v, deps)
	would := s.m.Clone()
	would.Add(v, deps, p.Tag)
	e := s.g.AddProvider(p)
	s.pending = false // AddProvider recomputes all degree bookkeeping
	if e != nil {
		var ce *vh.CircularDependencyError
		if !errors.As(e, &ce) {
			return true, fmt.Errorf("AddProvider(%d<-%v) failed with a non-circular error: %v", v, deps, e)
		}
		if !would.CycleReachableFrom(v) {
			return true, fmt.Errorf("AddProvider(%d deps %v) rejected as circular but no cycle is reachable from it; model before: %s", v, deps, s.m)
		}
		path, perr := s.ids(ce.Path)
		if perr != nil {
			return true, perr
		}
		if perr := would.ValidCyclePath(path); perr != nil {
			return true, fmt.Errorf("AddProvider(%d deps %v) reported cycle path %v: %v; model before: %s", v, deps, path, perr, s.m)
		}
		return true, nil // model unchanged
	}
	if would.OnCycle(v) {
		return false, fmt.Errorf("AddProvider(%d deps %v) accepted although it closes a cycle through the node; model before: %s", v, deps, s.m)
	}
	s.m = would
	return false, nil
}

func (s *gSys) addDeferred(v int, deps []int) error {
	p := s.mkProv(v, deps)
	if e := s.g.AddProviderDeferred(p); e != nil {
		return fmt.Errorf("AddProviderDeferred failed: %v", e)
	}
	s.m.Add(v, deps, p.Tag)
	s.pending = true
	return nil
}

func (s *gSys) detect() error {
	e := s.g.DetectCycles()
	s.pending = false
	return s.checkCycleVerdict(e, "DetectCycles")
}

func (s *gSys) checkCycleVerdict(e error, what string) error {
	cyc := s.m.Cyclic()
	if cyc != s.m.CyclicTarjan() {
		return fmt.Errorf("harness bug: reference cycle tests disagree on %s", s.m)
	}
	if (e != nil) != cyc {
		return fmt.Errorf("%s returned %v but reference cyclic=%v; model: %s", what, e, cyc, s.m)
	}
	if e != nil {
		var ce *vh.CircularDependencyError
		if !errors.As(e, &ce) {
			return fmt.Errorf("%s error is not a CircularDependencyError: %T", what, e)
		}
		path, perr := s.ids(ce.Path)
		if perr != nil {
			return perr
		}
		if perr := s.m.ValidCyclePath(path); perr != nil {
			return fmt.Errorf("%s reported path %v: %v; model: %s", what, path, perr, s.m)
		}
		nv, ok := s.idx[ce.Node]
		if !ok {
			return fmt.Errorf("%s reported unknown node %v", what, ce.Node)
		}
		found := false
		for _, x := range path {
			if x == nv {
				found = true
			}
		}
		if !found {
			return fmt.Errorf("%s: reported node %d is not on reported path %v; model: %s", what, nv, path, s.m)
		}
	}
	return nil
}

func (s *gSys) remove(v int) {
	k := s.pool[v]
	s.g.RemoveProvider(k.Type, k.Key, k.Group)
	if s.m.Has[v] {
		s.pending = false // RemoveProvider recomputes all degree bookkeeping when the node existed
	}
	s.m.Remove(v)
}

func (s *gSys) clear() { s.g.Clear(); s.m.Clear(); s.pending = false }

// checkQueries compares every query with the reference. Degree-based queries
// are compared only when no deferred add is pending, as documented.
func (s *gSys) checkQueries() error {
	g, m := s.g, s.m
	if g.Size() != m.Size() {
		return fmt.Errorf("Size()=%d, reference %d; model: %s", g.Size(), m.Size(), m)
	}
	pendingBefore := s.pending
	for v, k := range s.pool {
		has := g.HasNode(k.Type, k.Key, k.Group)
		if has != m.Has[v] {
			return fmt.Errorf("HasNode(%d)=%v, reference %v; model: %s", v, has, m.Has[v], m)
		}
		n := g.GetNode(k.Type, k.Key, k.Group)
		if (n != nil) != m.Has[v] {
			return fmt.Errorf("GetNode(%d)!=nil is %v, reference %v; model: %s", v, n != nil, m.Has[v], m)
		}
		deps := g.GetDependencies(k.Type, k.Key, k.Group)
		if !m.Has[v] {
			if len(deps) != 0 {
				return fmt.Errorf("GetDependencies(%d) of absent node = %v", v, deps)
			}
			continue
		}
		if n.Key != k {
			return fmt.Errorf("GetNode(%d).Key = %v", v, n.Key)
		}
		wantProv := m.Prov[v]
		if wantProv == 0 {
			if n.Provider != nil {
				return fmt.Errorf("node %d should be a placeholder but has a provider; model: %s", v, m)
			}
		} else if gp, ok := n.Provider.(*kit.GProv); !ok || gp.Tag != wantProv {
			return fmt.Errorf("node %d carries provider %v, reference tag %d; model: %s", v, n.Provider, wantProv, m)
		}
		di, err := s.ids(deps)
		if err != nil {
			return err
		}
		scribble(deps)
		if fmt.Sprint(uniqSorted(di)) != fmt.Sprint(uniqSorted(m.Out[v])) {
			return fmt.Errorf("GetDependencies(%d)=%v, reference %v (compared as sets); model: %s", v, di, m.Out[v], m)
		}
		trKeys := g.GetTransitiveDependencies(k.Type, k.Key, k.Group)
		tr, err := s.ids(trKeys)
		if err != nil {
			return err
		}
		scribble(trKeys)
		reach := m.Reach(v)
		var want []int
		for u := 0; u < m.N; u++ {
			if reach[u] && u != v {
				want = append(want, u)
			}
		}
		got := kit.SortedInts(tr)
		if fmt.Sprint(got) != fmt.Sprint(append([]int{}, want...)) {
			return fmt.Errorf("GetTransitiveDependencies(%d)=%v, reference %v; model: %s", v, got, want, m)
		}
		if !pendingBefore {
			dnKeys := g.GetDependents(k.Type, k.Key, k.Group)
			dn, err := s.ids(dnKeys)
			if err != nil {
				return err
			}
			scribble(dnKeys)
			var wantD []int
			for u := 0; u < m.N; u++ {
				for _, w := range m.Out[u] {
					if w == v {
						wantD = append(wantD, u)
					}
				}
			}
			if fmt.Sprint(uniqSorted(dn)) != fmt.Sprint(uniqSorted(wantD)) {
				return fmt.Errorf("GetDependents(%d)=%v, reference %v (compared as sets); model: %s", v, kit.SortedInts(dn), wantD, m)
			}
			// degrees: only zero / non-zero is pinned down (roots and leaves); multiplicities of repeated edges are not
			if (n.InDegree == 0) != (m.InDeg(v) == 0) || (n.OutDegree == 0) != (len(m.Out[v]) == 0) {
				return fmt.Errorf("node %d degrees in=%d out=%d, reference in=%d out=%d; model: %s", v, n.InDegree, n.OutDegree, m.InDeg(v), len(m.Out[v]), m)
			}
		}
	}
	if !pendingBefore {
		var wr, wl []int
		for v := 0; v < m.N; v++ {
			if m.Has[v] {
				if m.InDeg(v) == 0 {
					wr = append(wr, v)
				}
				if len(m.Out[v]) == 0 {
					wl = append(wl, v)
				}
			}
		}
		roots, leaves := g.GetRoots(), g.GetLeaves()
		gr, err := s.nodeIDs(roots)
		if err != nil {
			return err
		}
		gl, err := s.nodeIDs(leaves)
		if err != nil {
			return err
		}
		scribble(roots)
		scribble(leaves)
		if fmt.Sprint(gr) != fmt.Sprint(append([]int{}, wr...)) {
			return fmt.Errorf("GetRoots()=%v, reference %v; model: %s", gr, wr, m)
		}
		if fmt.Sprint(gl) != fmt.Sprint(append([]int{}, wl...)) {
			return fmt.Errorf("GetLeaves()=%v, reference %v; model: %s", gl, wl, m)
		}
		// topological order / error iff cyclic (three times: later answers may come from the cache, and
		// every answer is scribbled on once it has been judged)
		for rep := 0; rep < 3; rep++ {
			order, terr := g.TopologicalSort()
			if (terr != nil) != m.Cyclic() {
				return fmt.Errorf("TopologicalSort (call %d) error=%v but reference cyclic=%v; model: %s", rep+1, terr, m.Cyclic(), m)
			}
			if terr == nil {
				oi, err := s.nodeIDsUnsorted(order)
				if err != nil {
					return err
				}
				if verr := m.ValidTopo(oi); verr != nil {
					return fmt.Errorf("TopologicalSort (call %d) = %v: %v; model: %s", rep+1, oi, verr, m)
				}
				scribble(order)
			}
		}
	}
	if pendingBefore {
		// a deferred add is pending: what the degree-based queries answer now is not judged (the
		// documented protocol has not been completed) - but they are queries, asking them must
		// not influence what is answered once the protocol has been completed
		_ = g.GetRoots()
		_ = g.GetLeaves()
		_, _ = g.TopologicalSort()
	}
	// acyclicity (this also completes any pending deferred adds)
	acy := g.IsAcyclic()
	s.pending = false
	if acy == m.Cyclic() {
		return fmt.Errorf("IsAcyclic()=%v but reference cyclic=%v; model: %s", acy, m.Cyclic(), m)
	}
	if !acy {
		// depths are not defined on a cyclic graph and are not judged - but the query has to
		// return: it holds the graph's write lock while it runs
		done := make(chan struct{})
		go func() { defer close(done); g.CalculateDepths() }()
		select {
		case <-done:
		case <-time.After(10 * time.Second):
			return fmt.Errorf("CalculateDepths() has not returned after 10 s on a cyclic graph (it holds the write lock: every other call blocks); model: %s", m)
		}
	}
	if acy {
		g.CalculateDepths()
		for v, k := range s.pool {
			if m.Has[v] {
				n := g.GetNode(k.Type, k.Key, k.Group)
				if n == nil || n.Depth != m.Depth(v) {
					return fmt.Errorf("depth(%d)=%v, reference %d; model: %s", v, n, m.Depth(v), m)
				}
			}
		}
	}
	if pendingBefore {
		// the pending adds have been completed by the cycle check above: now everything is compared
		if err := s.checkQueries(); err != nil {
			return fmt.Errorf("[after queries were asked while a deferred add was pending, then completed] %w", err)
		}
	}
	return nil
}

// scribble does to a result what callers do to slices they were given - reorder them, filter them
// in place: every query hands out its own copy (the code takes care to), so this never shows in a
// later answer.
func scribble[T any](xs []T) {
	for i, j := 0, len(xs)-1; i < j; i, j = i+1, j-1 {
		xs[i], xs[j] = xs[j], xs[i]
	}
	if len(xs) > 1 {
		var zero T
		xs[len(xs)-1] = zero
	}
}

func (s *gSys) nodeIDsUnsorted(ns []*vh.Node) ([]int, error) {
	out := make([]int, 0, len(ns))
	for _, n := range ns {
		if n == nil {
			return nil, fmt.Errorf("nil node in result")
		}
		v, ok := s.idx[n.Key]
		if !ok {
			return nil, fmt.Errorf("unknown node %v", n.Key)
		}
		out = append(out, v)
	}
	return out, nil
}

func (s *gSys) nodeIDs(ns []*vh.Node) ([]int, error) {
	o, err := s.nodeIDsUnsorted(ns)
	sort.Ints(o)
	return o, err
}

func uniqSorted(xs []int) []int {
	o := kit.SortedInts(xs)
	out := o[:0:0]
	for i, x := range o {
		if i == 0 || x != o[i-1] {
			out = append(out, x)
		}
	}
	return out
}

var _ = testing.Short
var _ = evid.New

package props

import (
	"context"
	"errors"
	"fmt"
	"sort"
	"strings"
	"sync"
	"sync/atomic"
	"testing"
	"time"

	"verif/evid"
	"verif/kit"

	"github.com/junioryono/godi/v4"

	"pgregory.net/rapid"
)

// replay re-executes a recorded script on a fresh world prepared by prep.
func replay(cfg *kit.Config, script []Op, prep func(*kit.World)) (*run, error) {
	x, err := startRunWith(kit.CloneConfig(cfg), nil, prep)
	if err != nil {
		return nil, err
	}
	if x.Build.Err != nil || x.Build.Panic != nil {
		return x, nil
	}
	for _, o := range script {
		x.exec(o)
	}
	return x, nil
}

func scriptString(s []Op) string {
	parts := make([]string, len(s))
	for i, o := range s {
		parts[i] = o.String()
	}
	return strings.Join(parts, " ")
}

// containerMade lists instances a constructor successfully returned to the container.
func (x *run) containerMade() []*kit.Entry {
	var out []*kit.Entry
	for _, e := range x.W.AllEntries() {
		if e.Inv != nil && e.Inv.Outcome == 1 {
			out = append(out, e)
		}
	}
	return out
}

// deathStart returns the sequence stamp at which the harness started closing
// (or cancelling) the owner of e: its scope, an ancestor, or the provider; for
// instances of a failed Build / failed CreateScope the start of that call.
// 0 means the owner is still alive.
func (x *run) deathStart(e *kit.Entry) (int64, string) {
	if x.Build.Err != nil || x.Build.Panic != nil {
		return x.Build.StartSeq, "failed-build"
	}
	reg := x.M.Regs[e.Reg]
	if reg.Life == kit.Singleton {
		return x.R.PCloseBeg, "singleton"
	}
	best := x.R.PCloseBeg
	ctx := "scope"
	for _, a := range x.R.Ancestors(e.ScopeTag) {
		rec := x.R.Scopes[a]
		if rec == nil {
			continue
		}
		if !rec.Created && a == e.ScopeTag {
			if best == 0 || rec.CreateBeg < best {
				best = rec.CreateBeg
			}
			ctx = "failed-create"
		}
		if rec.CloseBeg != 0 && (best == 0 || rec.CloseBeg < best) {
			best = rec.CloseBeg
		}
	}
	return best, ctx
}

// checkC10: every container-made disposable is closed exactly once and never
// before its owner started closing; non-disposables are never touched.
// final = the history has ended with the provider closed (or Build failed).
func (x *run) checkC10(final bool) *Failure {
	if n := x.W.NilCloses(); n > 0 {
		return fail("C10", "untouched", "nil-pointer", "Close() was called %d time(s) on a nil pointer: an output a constructor left nil is not an instance (user code would have dereferenced nil)", n)
	}
	for _, e := range x.containerMade() {
		reg := x.M.Regs[e.Reg]
		feat := lifeName(reg.Life)
		if e.Out > 0 {
			feat += "/secondary-output"
		}
		if !kit.IsDisposable(e.Impl) {
			if e.Shutdowns > 0 {
				return fail("C10", "untouched", feat, "%v has no Close method but its Shutdown was called", e)
			}
			continue
		}
		closes := e.CloseSeqs()
		death, ctx := x.deathStart(e)
		feat += "/" + ctx
		if e.ScopeTag < 0 {
			return fail("C10", "harness", "unattributed", "%v was constructed outside any harness operation", e)
		}
		if len(closes) > 1 {
			return fail("C10", "exactly-once", "double/"+feat, "%v was closed %d times (stamps %v)", e, len(closes), closes)
		}
		if len(closes) == 1 && (death == 0 || closes[0] < death) {
			return fail("C10", "not-early", feat, "%v was closed at %d, before its owner started closing (%d)", e, closes[0], death)
		}
		if final && len(closes) == 0 {
			return fail("C10", "exactly-once", "leaked/"+feat, "%v was never closed although everything has been closed", e)
		}
		if !final && death != 0 && len(closes) == 0 {
			// owner closed explicitly and the Close has returned?
			if x.ownerCloseReturned(e) {
				return fail("C10", "exactly-once", "leaked-at-owner-close/"+feat, "%v was not closed although the Close of its owner has returned", e)
			}
		}
	}
	return nil
}

// ownerCloseReturned: an explicit Close (not a cancel) of the owner scope, an
// ancestor or the provider has returned.
func (x *run) ownerCloseReturned(e *kit.Entry) bool {
	if x.R.PCloseEnd != 0 {
		return true
	}
	if x.M.Regs[e.Reg].Life == kit.Singleton {
		return false
	}
	for _, a := range x.R.Ancestors(e.ScopeTag) {
		if rec := x.R.Scopes[a]; rec != nil && rec.CloseEnd != 0 {
			return true
		}
		if rec := x.R.Scopes[a]; rec != nil && !rec.Created && a == e.ScopeTag && rec.CreateEnd != 0 {
			return true
		}
	}
	return false
}

func dispLabels(x *run) (labels []string, nt bool) {
	set := map[string]bool{}
	for _, e := range x.containerMade() {
		if !kit.IsDisposable(e.Impl) {
			continue
		}
		_, ctx := x.deathStart(e)
		if ctx == "failed-build" || ctx == "failed-create" {
			set["disposable-on-"+ctx] = true
			nt = true
		}
		if e.Out > 0 {
			set["disposable-secondary-output"] = true
			nt = true
		}
		if rec := x.R.Scopes[e.ScopeTag]; rec != nil && rec.Depth >= 2 {
			set["disposable-in-nested-scope"] = true
			nt = true
		}
		set["disposable:"+lifeName(x.M.Regs[e.Reg].Life)] = true
	}
	return sortedKeys(set), nt
}

func dispOpts() kit.GenOpts {
	o := kit.FullOpts()
	o.DisposableBias = true
	return o
}

var dispHist = histOpts{MaxSteps: 20, MaxDepth: 3, CloseScopes: true, Cancels: false, CtxKinds: []int{0, 1, 2, 3, 4}}

// faultFor picks a fault kind applicable to the registration.
func faultFor(reg *kit.Reg, variant int) kit.Fault {
	switch {
	case reg.HasErr && variant%3 != 2:
		return kit.Fault{Kind: kit.FaultError, Err: fmt.Errorf("injected-error-r%d", reg.ID)}
	case reg.Form == kit.FormPlain && kit.IsIface(reg.Outs[0].T) && variant%3 == 1:
		return kit.Fault{Kind: kit.FaultNil}
	default:
		return kit.Fault{Kind: kit.FaultPanic, Panic: fmt.Sprintf("injected-panic-r%d", reg.ID)}
	}
}

func TestC10Disposal(t *testing.T) {
	col := evid.New("C10", "histories+fault-at-every-position", "configurations biased to disposable services (all lifetimes, secondary outputs of multi-output constructors) x histories with nested scopes, explicit closes and a final provider close; for cases with <=24 constructor invocations the history is replayed once per invocation with a single constructor fault (error / panic / nil) injected at that position - during Build, scope creation (initializers) or resolution; oracle: every disposable a constructor returned to the container is closed exactly once, never before its owner (scope, ancestor, provider, or the failing Build/CreateScope call) started closing; non-disposables never touched; non-trivial = a disposable created on a failure path, as a secondary output or in a nested scope; distinct by (config, script, fault position)")
	defer col.Flush()
	rapid.Check(t, func(rt *rapid.T) {
		cfg := kit.GenConfig(rt, dispOpts())
		x, err := startRun(cfg, nil)
		if err != nil {
			rt.Fatal(err)
		}
		if x.Build.Err != nil || x.Build.Panic != nil {
			col.Case(false, cfg.String(), nil, "build-failed(not judged here)")
			return
		}
		x.genHistory(rt, dispHist)
		script := x.Script
		canon := cfg.String() + " || " + scriptString(script)
		labels, nt := dispLabels(x)
		col.Case(nt, canon, canon, append(labels, "fault-free")...)
		if f := x.checkC10(true); f != nil {
			if isKnown(f) {
				col.Excluded()
				return
			}
			rt.Fatalf("VIOLATION %s\nconfig: %s\nscript: %s", f, cfg, scriptString(script))
		}
		invs := x.W.AllInvs()
		if len(invs) == 0 || len(invs) > 24 || rapid.IntRange(0, 3).Draw(rt, "enumerate") != 0 {
			return
		}
		variant := rapid.IntRange(0, 2).Draw(rt, "faultvariant")
		for k, inv := range invs {
			reg := x.M.Regs[inv.Reg]
			key := [2]int{inv.Reg, inv.N}
			flt := faultFor(reg, variant+k)
			y, err := replay(cfg, script, func(w *kit.World) { w.Faults[key] = flt })
			if err != nil {
				rt.Fatal(err)
			}
			fl, fnt := dispLabels(y)
			where := "resolve"
			if inv.EndSeq <= x.Build.EndSeq {
				where = "build"
			} else if reg.Form == kit.FormVoid {
				where = "scope-creation"
			}
			col.Case(fnt, fmt.Sprintf("%s || fault@%d", canon, k), nil, append(fl, "fault-during:"+where, fmt.Sprintf("fault-kind:%d", flt.Kind))...)
			final := y.R.PClosed || y.Build.Err != nil
			if f := y.checkC10(final); f != nil {
				if isKnown(f) {
					col.Excluded()
					continue
				}
				rt.Fatalf("VIOLATION %s\nconfig: %s\nscript: %s\nfault: invocation #%d of r%d (%s) kind %d (position %d of %d)", f, cfg, scriptString(script), inv.N, inv.Reg, where, flt.Kind, k+1, len(invs))
			}
			for _, o := range y.R.Obs {
				if o.Panic != nil {
					rt.Fatalf("VIOLATION C10/no-panic: %s panicked under fault: %v\nconfig: %s\nscript: %s", o.Kind, o.Panic, cfg, scriptString(script))
				}
			}
		}
	})
}

// ---------- C11 ----------

func (x *run) checkC11() *Failure {
	type item struct {
		e     *kit.Entry
		close int64
	}
	owners := map[int][]item{} // -1 = provider singletons
	var neverClosed []*kit.Entry
	for _, e := range x.containerMade() {
		if !kit.IsDisposable(e.Impl) {
			continue
		}
		cs := e.CloseSeqs()
		if len(cs) == 0 && x.M.Regs[e.Reg].Life != kit.Singleton {
			neverClosed = append(neverClosed, e)
		}
		if len(cs) != 1 {
			continue // C10's business
		}
		o := e.ScopeTag
		if x.M.Regs[e.Reg].Life == kit.Singleton {
			o = -1
		}
		owners[o] = append(owners[o], item{e, cs[0]})
	}
	// (1) reverse creation order inside each owner
	for o, items := range owners {
		for i := range items {
			for j := range items {
				a, b := items[i], items[j]
				if a.e.BornSeq < b.e.BornSeq && a.close < b.close {
					what := "scope"
					if o == -1 {
						what = "singletons"
					}
					return fail("C11", "reverse-order", what, "owner %d: %v (born %d) was closed at %d before %v (born %d, closed %d) although it was created earlier", o, a.e, a.e.BornSeq, a.close, b.e, b.e.BornSeq, b.close)
				}
			}
		}
	}
	// (2) descendants completely disposed before the ancestor's own instances
	for d, ditems := range owners {
		if d <= 0 {
			continue
		}
		if rec := x.R.ScopeRecOf(d); rec == nil || !rec.Created {
			// a scope whose creation failed (an initializer failed, or the creation
			// overlapped the parent's Close and reported the disposed error) was never a
			// descendant anybody could use: its leftovers are disposed by the failing
			// CreateScope itself, whenever that returns
			continue
		}
		for _, a := range x.R.Ancestors(d) {
			if a == d {
				continue
			}
			for _, di := range ditems {
				for _, ai := range owners[a] {
					if di.close > ai.close {
						return fail("C11", "children-first", "scope", "%v of descendant scope s%d was closed at %d, after %v of ancestor s%d (closed %d)", di.e, d, di.close, ai.e, a, ai.close)
					}
				}
			}
		}
	}
	// (3) every scope before any singleton - in particular every scope is disposed at all by
	// the time the provider's Close disposes the singletons
	if x.R.PClosed && x.R.PCloseEnd != 0 && len(owners[-1]) > 0 {
		for _, e := range neverClosed {
			if rec := x.R.ScopeRecOf(e.ScopeTag); e.ScopeTag == 0 || (rec != nil && rec.Created) {
				return fail("C11", "scopes-before-singletons", "scope-never-disposed", "the provider's Close disposed singleton %v, but %v of scope s%d was never closed: that scope was not disposed before the singletons (or at all)", owners[-1][0].e, e, e.ScopeTag)
			}
		}
	}
	for o, items := range owners {
		if o == -1 {
			continue
		}
		if rec := x.R.ScopeRecOf(o); o > 0 && (rec == nil || !rec.Created) {
			continue // leftovers of a failed creation, see above
		}
		for _, it := range items {
			for _, s := range owners[-1] {
				if it.close > s.close {
					return fail("C11", "scopes-before-singletons", "provider", "scope-owned %v (s%d) was closed at %d, after singleton %v (closed %d)", it.e, o, it.close, s.e, s.close)
				}
			}
		}
	}
	return nil
}

// checkC11Deps is the part of the order rule that stays unambiguous when
// constructions overlap: no instance is closed while an instance of the same
// owner that received it as a dependency is still open.
// checkC11ChildrenFirst: for every explicit Close of a scope, what the scope itself owns - also an
// instance whose construction finished while that Close was under way - is closed only after every
// instance a descendant scope had when the Close began ("all descendant scopes are completely
// disposed before their parent disposes its own instances"). Instances that arrive in a descendant
// after the Close began are disposed on arrival, whenever that is, and are not part of the rule.
func (x *run) checkC11ChildrenFirst() *Failure {
	for _, o := range x.R.Obs {
		if o.Kind != "close" || o.Scope <= 0 {
			continue
		}
		sub := x.subtreeOf(o.Scope)
		var lastBelow int64
		var lastBelowE *kit.Entry
		for _, e := range x.containerMade() {
			if !kit.IsDisposable(e.Impl) || x.M.Regs[e.Reg].Life == kit.Singleton || e.ScopeTag == o.Scope || !sub[e.ScopeTag] {
				continue
			}
			if e.BornSeq == 0 || e.BornSeq > o.StartSeq || e.Inv == nil {
				continue
			}
			// (had when the Close began: the operation that constructed it - same goroutine - had returned)
			handed := false
			for _, op := range x.R.Obs {
				if (op.Goid == 0 || op.Goid == e.Inv.Goid) && op.StartSeq <= e.Inv.StartSeq && op.EndSeq >= e.Inv.EndSeq && op.EndSeq != 0 && op.EndSeq < o.StartSeq {
					handed = true
					break
				}
			}
			if !handed {
				continue
			}
			for _, c := range e.CloseSeqs() {
				if c > o.StartSeq && c > lastBelow {
					lastBelow, lastBelowE = c, e
				}
			}
		}
		if lastBelowE == nil {
			continue
		}
		for _, e := range x.containerMade() {
			if !kit.IsDisposable(e.Impl) || x.M.Regs[e.Reg].Life == kit.Singleton || e.ScopeTag != o.Scope {
				continue
			}
			for _, c := range e.CloseSeqs() {
				if c > o.StartSeq && c < lastBelow {
					late := ""
					if e.BornSeq > o.StartSeq {
						late = " (its construction finished while the Close was under way)"
					}
					return fail("C11", "children-first", "own-instance-before-descendant"+map[bool]string{true: "/late-arrival", false: ""}[late != ""], "close(s%d): %v, owned by the scope itself%s, was closed (seq %d) before %v of descendant scope s%d (seq %d)", o.Scope, e, late, c, lastBelowE, lastBelowE.ScopeTag, lastBelow)
				}
			}
		}
	}
	return nil
}

func (x *run) checkC11Deps() *Failure {
	owner := func(e *kit.Entry) int {
		if x.M.Regs[e.Reg].Life == kit.Singleton {
			return -1
		}
		return e.ScopeTag
	}
	once := func(e *kit.Entry) (int64, bool) {
		if e == nil || e.Inv == nil || e.Inv.Outcome != 1 || !kit.IsDisposable(e.Impl) {
			return 0, false
		}
		cs := e.CloseSeqs()
		if len(cs) != 1 {
			return 0, false // C10's business
		}
		return cs[0], true
	}
	// handedOver: some operation that contains the invocation had returned before seq
	handedOver := func(inv *kit.Inv, seq int64) bool {
		for _, o := range x.R.Obs {
			// the operation that ran the constructor (same goroutine), not one of another thread
			// whose time span merely covers it
			if o.Goid != 0 && o.Goid != inv.Goid {
				continue
			}
			if o.StartSeq <= inv.StartSeq && o.EndSeq >= inv.EndSeq && o.EndSeq != 0 && o.EndSeq < seq {
				return true
			}
		}
		return false
	}
	for _, inv := range x.W.AllInvs() {
		if inv.Outcome != 1 {
			continue
		}
		for _, out := range inv.Outs {
			oc, ok := once(out)
			if !ok {
				continue
			}
			for _, a := range inv.Args {
				for _, dep := range a.Entries {
					dc, ok := once(dep)
					if !ok || owner(dep) != owner(out) {
						continue
					}
					// a dependent that was still being constructed or handed over to its
					// scope when the dependency was closed (the operation creating it
					// overlapped the Close) is disposed on arrival, necessarily later
					if dc < oc && handedOver(inv, dc) {
						return fail("C11", "dependents-first", lifeName(x.M.Regs[dep.Reg].Life)+"<-"+lifeName(x.M.Regs[out.Reg].Life), "%v was closed at %d while %v, which received it as a dependency, was still open (closed at %d)", dep, dc, out, oc)
					}
				}
			}
		}
	}
	return nil
}

func TestC11Order(t *testing.T) {
	col := evid.New("C11", "histories", "configurations biased to disposable services forming dependency chains over the three lifetimes x sequential histories (scope trees of depth<=3, child contexts both derived from the parent's and independent) ending in scope and provider closes; oracle from global sequence stamps: per owner closes are the exact reverse of constructor completions (outputs of one invocation tie), every close in a descendant precedes every close of an ancestor's own instances, every scope-owned close precedes every singleton close; non-trivial = an owner with >=3 disposables, or disposables on >=2 levels of a scope tree of depth>=2")
	defer col.Flush()
	rapid.Check(t, func(rt *rapid.T) {
		o := dispOpts()
		o.MaxDeps = 3
		cfg := kit.GenConfig(rt, o)
		x, err := startRun(cfg, nil)
		if err != nil {
			rt.Fatal(err)
		}
		if x.Build.Err != nil || x.Build.Panic != nil {
			col.Case(false, cfg.String(), nil, "build-failed(not judged here)")
			return
		}
		// in a third of the cases one or two later constructor invocations of non-singleton
		// registrations fail: what was constructed on the way stays owned by its scope and is
		// disposed with it, in the same reverse order as everything else
		faultPlan := ""
		if rapid.IntRange(0, 2).Draw(rt, "withFault") == 0 {
			var cands []*kit.Reg
			for _, id := range x.M.Order {
				if r := x.M.Regs[id]; r.Life != kit.Singleton && r.Form != kit.FormInstance {
					cands = append(cands, r)
				}
			}
			for k := rapid.IntRange(1, 2).Draw(rt, "nfaults"); k > 0 && len(cands) > 0; k-- {
				r := rapid.SampledFrom(cands).Draw(rt, "faultReg")
				nth := x.W.Count[r.ID] + rapid.IntRange(1, 3).Draw(rt, "faultNth")
				flt := faultFor(r, rapid.IntRange(0, 2).Draw(rt, "faultVariant"))
				x.W.Faults[[2]int{r.ID, nth}] = flt
				faultPlan += fmt.Sprintf("\nfault: invocation #%d of r%d, kind %d", nth, r.ID, flt.Kind)
			}
		}
		x.genHistory(rt, histOpts{MaxSteps: 25, MaxDepth: 3, CloseScopes: true, ResolveWeight: 8})
		canon := x.describe() + faultPlan
		perOwner := map[int]int{}
		levels := map[int]bool{}
		for _, e := range x.containerMade() {
			if kit.IsDisposable(e.Impl) {
				ow := e.ScopeTag
				if x.M.Regs[e.Reg].Life == kit.Singleton {
					ow = -1
				} else if rec := x.R.Scopes[e.ScopeTag]; rec != nil {
					levels[rec.Depth] = true
				}
				perOwner[ow]++
			}
		}
		nt := len(levels) >= 2 && x.Stats.MaxDepth >= 2
		for _, n := range perOwner {
			if n >= 3 {
				nt = true
			}
		}
		labels := []string{fmt.Sprintf("levels=%d", len(levels))}
		for _, inv := range x.W.AllInvs() {
			if inv.Outcome > 1 {
				labels = append(labels, "constructor-fault-fired")
				break
			}
		}
		col.Case(nt, canon, canon, labels...)
		f := x.checkC11()
		if f == nil {
			f = x.checkC11Deps()
		}
		if f != nil {
			if isKnown(f) {
				col.Excluded()
				return
			}
			rt.Fatalf("VIOLATION %s\n%s", f, canon)
		}
	})
}

// ---------- C12 ----------

// closesIn returns entries whose Close() was called within (from, to).
func (x *run) closesIn(from, to int64) []*kit.Entry {
	var out []*kit.Entry
	for _, e := range x.W.AllEntries() {
		for _, c := range e.CloseSeqs() {
			if c > from && c < to {
				out = append(out, e)
			}
		}
	}
	return out
}

func (x *run) subtreeOf(tag int) map[int]bool {
	set := map[int]bool{}
	for _, t := range x.R.Tags() {
		for _, a := range x.R.Ancestors(t) {
			if a == tag {
				set[t] = true
			}
		}
	}
	return set
}

// checkC12 judges every Close call of the history.
func (x *run) checkC12(failing map[int]bool) *Failure {
	closedBefore := map[int]bool{} // scope tags whose Close has returned
	cancelled := map[int]bool{}
	// group closeN calls: observations with overlapping windows on the same scope
	obs := append([]*kit.Obs(nil), x.R.Obs...)
	sort.SliceStable(obs, func(i, j int) bool { return obs[i].StartSeq < obs[j].StartSeq })
	type group struct {
		scope      int
		kind       string
		from, to   int64
		errs, nils int
		firstErr   error
	}
	var groups []*group
	for _, o := range obs {
		if o.Kind == "cancel" {
			cancelled[o.Scope] = true
			continue
		}
		if o.Kind != "close" && o.Kind != "pclose" {
			continue
		}
		if o.Panic != nil {
			return fail("C12", "no-panic", o.Kind, "%s(s%d) panicked: %v", o.Kind, o.Scope, o.Panic)
		}
		var g *group
		if n := len(groups); n > 0 && groups[n-1].scope == o.Scope && groups[n-1].kind == o.Kind && o.StartSeq < groups[n-1].to {
			g = groups[n-1]
			if o.EndSeq > g.to {
				g.to = o.EndSeq
			}
		} else {
			g = &group{scope: o.Scope, kind: o.Kind, from: o.StartSeq, to: o.EndSeq}
			groups = append(groups, g)
		}
		if o.Err != nil {
			g.errs++
			if g.firstErr == nil {
				g.firstErr = o.Err
			}
		} else {
			g.nils++
		}
	}
	pclosed := false
	for _, g := range groups {
		what := fmt.Sprintf("%s(s%d)", g.kind, g.scope)
		closed := x.closesIn(g.from, g.to)
		if g.kind == "close" {
			// only instances owned by the subtree being closed: other scopes may be closing concurrently (context watchers)
			sub := x.subtreeOf(g.scope)
			kept := closed[:0:0]
			for _, e := range closed {
				if x.M.Regs[e.Reg].Life != kit.Singleton && sub[e.ScopeTag] {
					kept = append(kept, e)
				}
			}
			closed = kept
		}
		anyFail := false
		for _, e := range closed {
			if failing[e.Serial] {
				anyFail = true
			}
		}
		// completeness: everything owned by the subtree is closed when the call has returned
		sub := map[int]bool{}
		if g.kind == "close" {
			sub = x.subtreeOf(g.scope)
		}
		for _, e := range x.containerMade() {
			if !kit.IsDisposable(e.Impl) {
				continue
			}
			inScope := false
			if g.kind == "pclose" {
				inScope = true
			} else if x.M.Regs[e.Reg].Life != kit.Singleton && sub[e.ScopeTag] {
				inScope = true
			}
			if !inScope || e.BornSeq > g.from {
				continue
			}
			n := 0
			for _, c := range e.CloseSeqs() {
				if c < g.to {
					n++
				}
			}
			if n != 1 {
				sig := "complete"
				if anyFail {
					sig = "complete-under-errors"
				}
				return fail("C12", sig, g.kind, "after %s returned, %v has been closed %d times (failing instances: %v)", what, e, n, keysOf(failing))
			}
		}
		already := (g.kind == "close" && closedBefore[g.scope]) || (g.kind == "pclose" && pclosed)
		byCancel := false
		if g.kind == "close" {
			for _, a := range x.R.Ancestors(g.scope) {
				if cancelled[a] {
					byCancel = true
				}
			}
		}
		if g.errs > 1 {
			return fail("C12", "idempotent", "two-errors", "%d concurrent/repeated calls of %s returned an error", g.errs, what)
		}
		if already {
			if g.errs > 0 {
				return fail("C12", "idempotent", "second-call-error", "%s on an already closed target returned %v", what, firstLine(g.firstErr))
			}
			if len(closed) > 0 {
				return fail("C12", "idempotent", "second-call-closes", "%s on an already closed target closed %v again", what, closed)
			}
		} else {
			if g.errs > 0 && !kit.IsDisposalError(g.firstErr) {
				return fail("C12", "reports", "not-disposal-error", "%s returned %T (%v), not a DisposalError", what, g.firstErr, firstLine(g.firstErr))
			}
			if g.errs > 0 && !anyFail {
				// a close started by a context watcher (or by another goroutine) just before this call may
				// still be in progress; the owner waits for it and reports its failures too, and such waits
				// can chain. With concurrency in the history an error is therefore only called spurious when
				// no failing Close of the call's subtree has run at all.
				wide := false
				if x.Concurrent {
					for _, e := range x.closesIn(0, g.to) {
						if failing[e.Serial] && (g.kind == "pclose" || x.M.Regs[e.Reg].Life == kit.Singleton || x.subtreeOf(g.scope)[e.ScopeTag]) {
							wide = true
						}
					}
				}
				for _, co := range obs {
					// a cancel before this call, or an explicit Close still in progress when it started
					inProgress := co.Kind == "close" && co.StartSeq < g.from && co.EndSeq > g.from
					if (co.Kind != "cancel" && !inProgress) || co.StartSeq > g.from {
						continue
					}
					if g.kind == "close" && !x.subtreeOf(co.Scope)[g.scope] && !x.subtreeOf(g.scope)[co.Scope] {
						continue
					}
					for _, e := range x.closesIn(co.StartSeq, g.to) {
						if failing[e.Serial] {
							wide = true
						}
					}
				}
				if !wide {
					return fail("C12", "reports", "spurious", "%s returned %v although no Close method failed", what, firstLine(g.firstErr))
				}
			}
			// failing instances of a scope whose context (or an ancestor's) was cancelled may have been closed by
			// that scope's watcher goroutine, which swallows the error: they do not oblige this call to report
			anyFailOwn := false
			for _, e := range closed {
				if !failing[e.Serial] {
					continue
				}
				viaWatcher := false
				for _, a := range x.R.Ancestors(e.ScopeTag) {
					if cancelled[a] {
						viaWatcher = true
					}
				}
				if viaWatcher {
					continue
				}
				// reported by another Close call that was running at the same time and covers the instance
				// too (an ancestor's Close, the provider's): the failure is reported, just not by this call
				reportedElsewhere := false
				for _, c := range e.CloseSeqs() {
					for _, og := range groups {
						if og == g || og.errs == 0 || c <= og.from || c >= og.to {
							continue
						}
						if og.kind == "pclose" || x.subtreeOf(og.scope)[e.ScopeTag] {
							reportedElsewhere = true
						}
					}
				}
				if !reportedElsewhere {
					anyFailOwn = true
				}
			}
			if g.errs == 0 && anyFailOwn && !byCancel {
				depth := "own"
				for _, e := range closed {
					if failing[e.Serial] && e.ScopeTag != g.scope && g.kind == "close" {
						depth = "descendant"
					}
				}
				return fail("C12", "reports", "swallowed/"+g.kind+"/"+depth, "%s returned nil although Close of a failing instance ran during it (closed: %v, failing serials %v)", what, closed, keysOf(failing))
			}
		}
		if g.kind == "close" {
			for t := range x.subtreeOf(g.scope) {
				closedBefore[t] = true
			}
		} else {
			pclosed = true
			for _, t := range x.R.Tags() {
				closedBefore[t] = true
			}
		}
	}
	return nil
}

func TestC12CloseErrors(t *testing.T) {
	col := evid.New("C12", "failing-subsets", "disposable-rich configurations x histories with scope trees, repeated closes (sequential and 2-6 concurrent callers), context cancellation and a final provider close; a dry run lists the instances created, then a generated subset of them (every subset when <=6 instances, in a quarter of the cases) is made to fail in Close and the script is replayed; oracle per Close call: everything owned by the subtree is closed exactly once when the call returns, the first call returns a DisposalError iff a failing Close ran during it (unless the automatic close on cancellation got there first), repeated/concurrent extra calls return nil and close nothing; non-trivial = a failing instance below the closed scope in a tree of depth>=2, or >=2 concurrent Close calls")
	defer col.Flush()
	rapid.Check(t, func(rt *rapid.T) {
		cfg := kit.GenConfig(rt, dispOpts())
		x, err := startRun(cfg, nil)
		if err != nil {
			rt.Fatal(err)
		}
		if x.Build.Err != nil || x.Build.Panic != nil {
			col.Case(false, cfg.String(), nil, "build-failed(not judged here)")
			return
		}
		x.genHistory(rt, histOpts{MaxSteps: 18, MaxDepth: 3, CloseScopes: true, RepeatClose: true, Cancels: true, CtxKinds: []int{0, 1, 2, 3, 4}})
		script := x.Script
		var disp []*kit.Entry
		for _, e := range x.containerMade() {
			if kit.IsDisposable(e.Impl) {
				disp = append(disp, e)
			}
		}
		concurrent := false
		hasCancel := false
		for _, o := range script {
			if o.Kind == "closeN" {
				concurrent = true
			}
			if o.Kind == "cancel" {
				hasCancel = true
			}
		}
		var subsets []map[int]bool
		if len(disp) > 0 && len(disp) <= 6 && !concurrent && !hasCancel && rapid.IntRange(0, 3).Draw(rt, "allsubsets") == 0 {
			for m := 0; m < 1<<uint(len(disp)); m++ {
				set := map[int]bool{}
				for i, e := range disp {
					if m&(1<<uint(i)) != 0 {
						set[e.Serial] = true
					}
				}
				subsets = append(subsets, set)
			}
		} else {
			set := map[int]bool{}
			for _, e := range disp {
				if rapid.IntRange(0, 3).Draw(rt, "fails") == 0 {
					set[e.Serial] = true
				}
			}
			subsets = append(subsets, set)
		}
		canon := cfg.String() + " || " + scriptString(script)
		for _, failing := range subsets {
			var y *run
			if concurrent || hasCancel {
				// serial numbers are not reproducible under concurrency: judge the dry run itself (no failures) and a replay where every instance of the chosen registrations fails
				regs := map[int]bool{}
				for _, e := range disp {
					if failing[e.Serial] {
						regs[e.Reg] = true
					}
				}
				y, err = replay(cfg, script, func(w *kit.World) { w.CloseFailRegs = regs })
				failing = map[int]bool{}
				if err == nil {
					for _, e := range y.W.AllEntries() {
						if regs[e.Reg] {
							failing[e.Serial] = true
						}
					}
				}
			} else {
				y, err = replay(cfg, script, func(w *kit.World) {
					for s := range failing {
						w.CloseErr[s] = fmt.Errorf("injected-close-error-%d", s)
					}
				})
			}
			if err != nil {
				rt.Fatal(err)
			}
			y.Concurrent = concurrent || hasCancel
			nt := concurrent
			for _, e := range y.containerMade() {
				if failing[e.Serial] {
					if rec := y.R.Scopes[e.ScopeTag]; rec != nil && rec.Depth >= 2 {
						nt = true
					}
				}
			}
			labels := []string{fmt.Sprintf("failing=%d", min(len(failing), 4))}
			if concurrent {
				labels = append(labels, "concurrent-close")
			}
			if hasCancel {
				labels = append(labels, "cancel")
			}
			col.Case(nt, fmt.Sprintf("%s || failing=%v", canon, keysOf(failing)), nil, labels...)
			if f := y.checkC12(failing); f != nil {
				if isKnown(f) {
					col.Excluded()
					continue
				}
				rt.Fatalf("VIOLATION %s\nconfig: %s\nscript: %s\nfailing serials: %v", f, cfg, scriptString(script), keysOf(failing))
			}
		}
	})
}

// ---------- C13 (sequential half) ----------

func (x *run) checkC13() *Failure {
	closedAt := map[int]int64{} // scope tag -> seq at which an explicit Close covering it returned
	var pclosedAt int64
	for _, o := range x.R.Obs {
		if o.Panic != nil {
			return fail("C13", "no-panic", o.Kind, "%s(s%d,%s) panicked: %v", o.Kind, o.Scope, o.Ident, o.Panic)
		}
		switch o.Kind {
		case "close":
			for t := range x.subtreeOf(o.Scope) {
				if closedAt[t] == 0 {
					closedAt[t] = o.EndSeq
				}
			}
		case "pclose":
			if pclosedAt == 0 {
				pclosedAt = o.EndSeq
			}
			for _, t := range x.R.Tags() {
				if t != 0 && closedAt[t] == 0 {
					closedAt[t] = o.EndSeq
				}
			}
		case "resolve", "create":
			target := o.Scope
			if o.Kind == "create" {
				target = x.R.Scopes[o.Scope].Parent
			}
			if target == 0 {
				if pclosedAt != 0 && o.StartSeq > pclosedAt {
					if o.Err == nil {
						return fail("C13", "refuses", "provider/"+o.Kind, "%s on the closed provider succeeded", o.Kind)
					}
					if !kit.IsProviderDisposed(o.Err) {
						return fail("C13", "refuses", "provider-wrong-error/"+o.Kind, "%s on the closed provider failed with %v, want ErrProviderDisposed", o.Kind, firstLine(o.Err))
					}
				}
				continue
			}
			if c := closedAt[target]; c != 0 && o.StartSeq > c {
				rel := "self"
				for _, a := range x.R.Ancestors(target) {
					if a != target && closedAt[a] != 0 && x.R.Scopes[a].CloseEnd != 0 && x.R.Scopes[target].CloseEnd == 0 {
						rel = "descendant"
					}
				}
				if pclosedAt != 0 && x.R.Scopes[target].CloseEnd == 0 && rel == "self" {
					rel = "via-provider"
				}
				if o.Err == nil {
					return fail("C13", "refuses", rel+"/"+o.Kind, "%s on closed scope s%d succeeded", o.Kind, target)
				}
				if !kit.IsScopeDisposed(o.Err) {
					return fail("C13", "refuses", rel+"-wrong-error/"+o.Kind, "%s on closed scope s%d failed with %v, want ErrScopeDisposed", o.Kind, target, firstLine(o.Err))
				}
			}
		}
	}
	return nil
}

func TestC13Closed(t *testing.T) {
	col := evid.New("C13", "sequential-histories", "histories mixing create/resolve/close/cancel/provider-close over scope trees (depth<=4), deliberately continuing to issue resolutions and child-scope creations on closed scopes, on descendants of closed scopes and after the provider was closed; after a cancel the harness polls (10 s ceiling) until the scope refuses; oracle: every operation issued after a covering Close returned fails with ErrScopeDisposed (scopes) / ErrProviderDisposed (provider), no panic; non-trivial = an operation on a descendant of the closed scope, after provider close, or after cancellation")
	defer col.Flush()
	rapid.Check(t, func(rt *rapid.T) {
		cfg := kit.GenConfig(rt, kit.FullOpts())
		x, err := startRun(cfg, nil)
		if err != nil {
			rt.Fatal(err)
		}
		if x.Build.Err != nil || x.Build.Panic != nil {
			col.Case(false, cfg.String(), nil, "build-failed(not judged here)")
			return
		}
		x.genHistory(rt, histOpts{MaxSteps: 25, MaxDepth: 4, CloseScopes: true, DeadOps: true, Cancels: true, Unregistered: true, ResolveWeight: 3, NoProvClose: true})
		ids := identPool(x.M, true)
		nt := false
		// cancellation: every cancelled scope (and its descendants) must end up refusing
		for _, tag := range x.R.Tags() {
			rec := x.R.Scopes[tag]
			if tag == 0 || !rec.Created {
				continue
			}
			cancelledAncestor := false
			for _, a := range x.R.Ancestors(tag) {
				ar := x.R.Scopes[a]
				for _, o := range x.R.Obs {
					if o.Kind == "cancel" && o.Scope == a && ar.Cancel != nil {
						cancelledAncestor = true
					}
				}
			}
			if !cancelledAncestor {
				continue
			}
			nt = true
			col.Label("cancelled-scope-polled")
			deadline := time.Now().Add(10 * time.Second)
			for {
				_, err := rec.S.Get(kit.RType(kit.NeverType))
				if kit.IsScopeDisposed(err) {
					break
				}
				if time.Now().After(deadline) {
					rt.Fatalf("VIOLATION C13/cancel-closes [cancel]: scope s%d still accepts resolutions 10 s after its context (or an ancestor's) was cancelled (last result %v)\n%s", tag, err, x.describe())
				}
				time.Sleep(50 * time.Microsecond)
			}
			if !waitFor(func() bool { return rec.S.Context().Err() != nil }, 10*time.Second) {
				rt.Fatalf("VIOLATION C13/cancel-closes [ctx]: scope s%d is disposed after cancellation but its context is not cancelled\n%s", tag, x.describe())
			}
		}
		// then the provider is closed and everything must refuse
		if rapid.Bool().Draw(rt, "pclose") {
			x.exec(Op{Kind: "pclose"})
			for _, tag := range x.R.Tags() {
				if rec := x.R.Scopes[tag]; rec.Created && len(ids) > 0 {
					x.exec(Op{Kind: "get", Scope: tag, Ident: rapid.SampledFrom(ids).Draw(rt, "afterid")})
					x.exec(Op{Kind: "create", Scope: tag, Ctx: 1})
				}
			}
			nt = true
			col.Label("ops-after-provider-close")
		} else if rapid.Bool().Draw(rt, "rootHandle") {
			// the provider's own root scope is a scope like any other once somebody holds it (it is
			// what Get(Scope) on the provider yields and what singletons are injected with): Close
			// on that handle closes it, and afterwards it refuses use
			if f := x.closeRootHandle(rt, ids); f != nil {
				rt.Fatalf("VIOLATION %s\n%s", f, x.describe())
			}
			nt = true
			col.Label("root-scope-closed-through-its-handle")
		}
		for _, o := range x.R.Obs {
			if (o.Kind == "resolve" || o.Kind == "create") && o.Err != nil && kit.IsScopeDisposed(o.Err) {
				target := o.Scope
				if o.Kind == "create" {
					target = x.R.Scopes[o.Scope].Parent
				}
				if rec := x.R.Scopes[target]; rec != nil && rec.CloseEnd == 0 {
					nt = true
				}
			}
		}
		canon := x.describe()
		col.Case(nt, canon, canon)
		f := x.checkC13()
		if f == nil && !x.R.PClosed {
			x.R.CloseProvider()
		}
		if f != nil {
			if isKnown(f) {
				col.Excluded()
				return
			}
			rt.Fatalf("VIOLATION %s\n%s", f, canon)
		}
	})
}

var _ = errors.Is

// closeRootHandle: see TestC13Closed.
func (x *run) closeRootHandle(rt *rapid.T, ids []kit.Ident) *Failure {
	v, err := x.R.P.Get(kit.ScopeType)
	root, ok := v.(godi.Scope)
	if err != nil || !ok {
		return fail("C13", "root-handle", "get", "provider.Get(Scope) = %T, %v", v, err)
	}
	bounded := func(what string, fn func() error) (error, *Failure) {
		done := make(chan struct{})
		var cerr error
		var pv any
		go func() {
			defer close(done)
			defer func() { pv = recover() }()
			cerr = fn()
		}()
		if !kit.WaitOrTimeout(done, 10*time.Second) {
			return nil, fail("C13", "no-hang", "root-handle/"+what, "%s on the root scope obtained through provider.Get(Scope) has not returned after 10 s", what)
		}
		if pv != nil {
			return nil, fail("C13", "no-panic", "root-handle/"+what, "%s on the root scope handle panicked: %v", what, pv)
		}
		return cerr, nil
	}
	if _, f := bounded("Close", root.Close); f != nil {
		return f
	}
	refused := func(what string, err error) *Failure {
		if err == nil {
			return fail("C13", "closed-after-return", "root-handle/"+what, "%s on the provider's root scope succeeded after Close on that scope had returned", what)
		}
		if !kit.IsScopeDisposed(err) && !kit.IsDisposed(err) {
			return fail("C13", "documented-error", "root-handle/"+what, "%s on the closed root scope failed with %v, want the disposed error", what, firstLine(err))
		}
		return nil
	}
	for i := 0; i < 3 && len(ids) > 0; i++ {
		id := rapid.SampledFrom(ids).Draw(rt, "rootid")
		var err error
		switch {
		case id.Group != "":
			_, err = root.GetGroup(kit.RType(id.T), id.Group)
		case id.Key != "":
			_, err = root.GetKeyed(kit.RType(id.T), id.Key)
		default:
			_, err = root.Get(kit.RType(id.T))
		}
		if f := refused(fmt.Sprintf("Get(%s)", id), err); f != nil {
			return f
		}
	}
	child, err := root.CreateScope(context.Background())
	if err == nil && child != nil {
		_ = child.Close()
	}
	if f := refused("CreateScope", err); f != nil {
		return f
	}
	again, f := bounded("a second Close", root.Close)
	if f != nil {
		return f
	}
	if again != nil {
		return fail("C13", "idempotent", "root-handle", "a second Close on the root scope handle returned %v, want nil", firstLine(again))
	}
	return nil
}

// ---------- C10: Build cancelled through its context ----------

func TestC10BuildCancel(t *testing.T) {
	col := evid.New("C10", "build-cancelled", "singleton- and disposable-rich configurations built with BuildWithContext; the context is cancelled from inside the k-th constructor invocation of the Build (every k for small cases, random otherwise) or before Build starts; oracle: no panic; if Build fails the error wraps context.Canceled and every disposable constructed so far is closed exactly once by the time Build returns (failed-Build path of C10); if it succeeds the provider works and everything is closed exactly once at provider close; non-trivial = cancellation after >=1 disposable was constructed")
	defer col.Flush()
	rapid.Check(t, func(rt *rapid.T) {
		o := dispOpts()
		o.Lifetimes = []int{kit.Singleton, kit.Singleton, kit.Singleton, kit.Scoped, kit.Transient}
		cfg := kit.GenConfig(rt, o)
		// dry run: how many constructor invocations does Build perform?
		dry, err := startRun(kit.CloneConfig(cfg), nil)
		if err != nil {
			rt.Fatal(err)
		}
		if dry.Build.Err != nil || dry.Build.Panic != nil {
			col.Case(false, cfg.String(), nil, "build-failed(not judged here)")
			return
		}
		n := len(dry.W.AllInvs())
		dry.R.CloseProvider()
		ks := []int{rapid.IntRange(0, n).Draw(rt, "k")}
		if n <= 8 && rapid.IntRange(0, 2).Draw(rt, "all") == 0 {
			ks = ks[:0]
			for k := 0; k <= n; k++ {
				ks = append(ks, k)
			}
		}
		for _, k := range ks {
			w, _ := kit.NewWorld(kit.CloneConfig(cfg))
			r := kit.NewRunner(w)
			ctx, cancel := context.WithCancel(context.Background())
			seen := 0
			if k == 0 {
				cancel()
			}
			w.SetGate(func(gp kit.GatePoint) {
				if gp.Kind == kit.GateCtorExit {
					seen++
					if seen == k {
						cancel()
					}
				}
			})
			x := &run{Cfg: w.Cfg, W: w, M: w.M, R: r}
			x.Build = r.BuildWithContext(ctx)
			w.SetGate(nil)
			made := 0
			for _, e := range x.containerMade() {
				if kit.IsDisposable(e.Impl) {
					made++
				}
			}
			canon := fmt.Sprintf("%s || cancel at constructor %d of %d", cfg, k, n)
			col.Case(made > 0 && x.Build.Err != nil, canon, canon, fmt.Sprintf("build-failed=%v", x.Build.Err != nil))
			var f *Failure
			switch {
			case x.Build.Panic != nil:
				f = fail("C10", "no-panic", "build-cancel", "BuildWithContext panicked: %v", x.Build.Panic)
			case x.Build.Err != nil:
				if !errors.Is(x.Build.Err, context.Canceled) {
					f = fail("C10", "build-cancel", "error-class", "Build failed after cancellation with %v, which does not wrap context.Canceled", firstLine(x.Build.Err))
				} else {
					f = x.checkC10(true)
				}
			default:
				x.exec(Op{Kind: "create", Scope: 0, Ctx: 1})
				for _, id := range x.M.AllIdents() {
					x.exec(Op{Kind: "get", Scope: 1, Ident: id})
				}
				x.exec(Op{Kind: "pclose"})
				f = x.checkC10(true)
			}
			cancel()
			if f != nil {
				if isKnown(f) {
					col.Excluded()
					continue
				}
				rt.Fatalf("VIOLATION %s\n%s", f, canon)
			}
		}
	})
}

// TestC12ClosePanics: what a Close does when the Close method of an instance
// panics is not pinned down by the statement (it speaks of errors), and is not
// judged: the first Close may panic or report an error. What is judged is the
// sentence that has no condition attached: calling Close again returns nil and
// closes nothing a second time - it does not hang, whatever happened to the
// first call.
func TestC12ClosePanics(t *testing.T) {
	col := evid.New("C12", "panicking-close-methods", "configurations biased to disposable services in which the Close methods of a random third of the registrations panic; sequential histories over scope trees (contexts that nobody cancels, so that every Close is an explicit call of the harness) ending in provider close; then Close is called once more on every scope and on the provider, each call bounded by 10 s; oracle: every repeated Close returns (no hang), without panicking, with a nil error, and no instance receives a second Close call; the Close calls of the history are judged by the rules of the error part with 'panicked' for 'returned an error' (everything owned is closed all the same, a disposal error exactly when a panicking Close method ran below the call); non-trivial = a panicking Close method actually ran")
	defer col.Flush()
	rapid.Check(t, func(rt *rapid.T) {
		cfg := kit.GenConfig(rt, dispOpts())
		var panicking []int
		x, err := startRunWith(cfg, nil, func(w *kit.World) {
			w.ClosePanicRegs = map[int]bool{}
			for _, r := range w.Cfg.Regs {
				if r.Form != kit.FormInstance && rapid.IntRange(0, 2).Draw(rt, "closePanics") == 0 {
					w.ClosePanicRegs[r.ID] = true
					panicking = append(panicking, r.ID)
				}
			}
		})
		if err != nil {
			rt.Fatal(err)
		}
		if x.Build.Err != nil || x.Build.Panic != nil {
			col.Case(false, cfg.String(), nil, "build-failed(not judged here)")
			return
		}
		x.genHistory(rt, histOpts{MaxSteps: 18, MaxDepth: 3, CloseScopes: true, CtxKinds: []int{0, 1}, NoCollEdits: true})
		canon := fmt.Sprintf("%s\nclose methods that panic: registrations %v", x.describe(), panicking)
		ran := false
		for _, e := range x.W.AllEntries() {
			if x.W.ClosePanicRegs[e.Reg] && e.CloseCount() > 0 {
				ran = true
			}
		}
		before := map[*kit.Entry]int{}
		for _, e := range x.W.AllEntries() {
			before[e] = e.CloseCount()
		}
		// a Close method that panics has failed like one that returns an error: the Close calls of the
		// history are judged by the rules of the error part (everything owned is closed all the same, a
		// disposal error exactly when a failing Close method ran below the call, nil from repeated calls)
		failing := map[int]bool{}
		for _, e := range x.W.AllEntries() {
			if x.W.ClosePanicRegs[e.Reg] {
				failing[e.Serial] = true
			}
		}
		f := x.checkC12(failing)
		if f != nil {
			f.Sig += "/close-panics"
		}
		again := func(what string, closeFn func() error) {
			if f != nil {
				return
			}
			done := make(chan struct{})
			var cerr error
			var pv any
			go func() {
				defer close(done)
				defer func() { pv = recover() }()
				cerr = closeFn()
			}()
			switch {
			case !kit.WaitOrTimeout(done, 10*time.Second):
				f = fail("C12", "idempotent", "repeated-close-hangs", "a second Close of %s has not returned after 10 s (an earlier Close of it ran into a panicking Close method)", what)
			case pv != nil:
				f = fail("C12", "idempotent", "repeated-close-panics", "a second Close of %s panicked: %v", what, pv)
			case cerr != nil:
				f = fail("C12", "idempotent", "repeated-close-error", "a second Close of %s returned %v, want nil", what, firstLine(cerr))
			}
		}
		for _, tag := range x.R.Tags() {
			rec := x.R.ScopeRecOf(tag)
			if tag == 0 || rec == nil || !rec.Created || rec.S == nil {
				continue
			}
			again(fmt.Sprintf("scope s%d", tag), rec.S.Close)
		}
		if x.R.P != nil {
			again("the provider", x.R.P.Close)
		}
		if f == nil {
			for _, e := range x.W.AllEntries() {
				if e.CloseCount() != before[e] {
					f = fail("C12", "idempotent", "repeated-close-closes", "repeating the Close calls closed %v again (%d -> %d Close calls)", e, before[e], e.CloseCount())
					break
				}
			}
		}
		labels := []string{}
		if ran {
			labels = append(labels, "panicking-close-ran")
		}
		col.Case(ran, canon, canon, labels...)
		if f != nil {
			if isKnown(f) {
				col.Excluded()
				return
			}
			rt.Fatalf("VIOLATION %s\n%s", f, canon)
		}
	})
}

// TestC10ClosePanics: "every instance created by the container that has a Close
// method is closed exactly once" has no condition attached. A Close method that
// panics is one failed disposal; every other instance of the scope, of its
// descendants and of the provider is still closed, once.
func TestC10ClosePanics(t *testing.T) {
	col := evid.New("C10", "panicking-close-methods", "configurations biased to disposable services in which the Close methods of a random third of the registrations panic; sequential histories over scope trees (contexts that nobody cancels) ending in provider close; oracle = the C10 ledger oracle at the end: every disposable a constructor returned to the container has received exactly one Close call - the panicking ones too - and none before its owner started closing; non-trivial = a panicking Close method ran while older instances of its owner were still open")
	defer col.Flush()
	rapid.Check(t, func(rt *rapid.T) {
		cfg := kit.GenConfig(rt, dispOpts())
		var panicking []int
		x, err := startRunWith(cfg, nil, func(w *kit.World) {
			w.ClosePanicRegs = map[int]bool{}
			for _, r := range w.Cfg.Regs {
				if r.Form != kit.FormInstance && rapid.IntRange(0, 2).Draw(rt, "closePanics") == 0 {
					w.ClosePanicRegs[r.ID] = true
					panicking = append(panicking, r.ID)
				}
			}
		})
		if err != nil {
			rt.Fatal(err)
		}
		if x.Build.Err != nil || x.Build.Panic != nil {
			col.Case(false, cfg.String(), nil, "build-failed(not judged here)")
			return
		}
		x.genHistory(rt, histOpts{MaxSteps: 18, MaxDepth: 3, CloseScopes: true, CtxKinds: []int{0, 1}, NoCollEdits: true})
		canon := fmt.Sprintf("%s\nclose methods that panic: registrations %v", x.describe(), panicking)
		nt := false
		for _, e := range x.W.AllEntries() {
			if x.W.ClosePanicRegs[e.Reg] && e.CloseCount() > 0 {
				nt = true
			}
		}
		col.Case(nt, canon, canon)
		if !x.R.PClosed {
			return // the history ended early (no live scope left)
		}
		if f := x.checkC10(true); f != nil {
			if isKnown(f) {
				col.Excluded()
				return
			}
			rt.Fatalf("VIOLATION %s\n%s", f, canon)
		}
	})
}

// TestC11FailedBuild: a Build that fails half-way disposes what it has built -
// the provider's singletons and whatever the root scope owns - and for that
// disposal the order rules hold like for any other: reverse order of creation
// among the singletons, every scope-owned instance before any singleton, no
// dependency before its dependent.
func TestC11FailedBuild(t *testing.T) {
	col := evid.New("C11", "failed-build", "singleton- and disposable-rich configurations with dependency chains; a dry run counts the constructor invocations of Build, then Build is made to fail at the k-th of them (every k for small cases): the constructor returns an error or panics, or the context given to BuildWithContext is cancelled from inside it; oracle = the C11 stamp oracle over the disposal the failed Build performs (reverse creation order per owner, scope-owned before singletons, no dependency closed before an open dependent); non-trivial = the failing Build had constructed >=2 disposable singletons of which one depends on the other")
	defer col.Flush()
	rapid.Check(t, func(rt *rapid.T) {
		o := dispOpts()
		o.ChainBias = true
		o.Lifetimes = []int{kit.Singleton, kit.Singleton, kit.Singleton, kit.Scoped, kit.Transient}
		cfg := kit.GenConfig(rt, o)
		cfg.BuildMode = 0
		dry, err := startRun(kit.CloneConfig(cfg), nil)
		if err != nil {
			rt.Fatal(err)
		}
		if dry.Build.Err != nil || dry.Build.Panic != nil {
			col.Case(false, cfg.String(), nil, "build-failed(not judged here)")
			return
		}
		invs := dry.W.AllInvs()
		dry.R.CloseProvider()
		n := len(invs)
		if n == 0 {
			col.Case(false, cfg.String(), nil, "no-constructor-runs")
			return
		}
		ks := []int{rapid.IntRange(1, n).Draw(rt, "k")}
		if n <= 8 && rapid.IntRange(0, 2).Draw(rt, "all") == 0 {
			ks = ks[:0]
			for k := 1; k <= n; k++ {
				ks = append(ks, k)
			}
		}
		mode := rapid.IntRange(0, 2).Draw(rt, "failureMode")
		for _, k := range ks {
			w, _ := kit.NewWorld(kit.CloneConfig(cfg))
			r := kit.NewRunner(w)
			x := &run{Cfg: w.Cfg, W: w, M: w.M, R: r}
			inv := invs[k-1]
			reg := w.M.Regs[inv.Reg]
			how := "error/panic"
			if mode == 2 {
				how = "context-cancelled"
				ctx, cancel := context.WithCancel(context.Background())
				seen := 0
				w.SetGate(func(gp kit.GatePoint) {
					if gp.Kind == kit.GateCtorExit {
						seen++
						if seen == k {
							cancel()
						}
					}
				})
				x.Build = r.BuildWithContext(ctx)
				w.SetGate(nil)
				cancel()
			} else {
				w.Faults[[2]int{inv.Reg, inv.N}] = faultFor(reg, mode)
				x.Build = r.Build(nil)
			}
			related := false
			var built []*kit.Entry
			for _, e := range x.containerMade() {
				if kit.IsDisposable(e.Impl) && w.M.Regs[e.Reg].Life == kit.Singleton {
					built = append(built, e)
				}
			}
			for _, e := range built {
				if e.Inv == nil {
					continue
				}
				for _, a := range e.Inv.Args {
					for _, d := range a.Entries {
						for _, b := range built {
							related = related || d == b
						}
					}
				}
			}
			canon := fmt.Sprintf("%s || Build fails at constructor invocation %d of %d (r%d, %s)", cfg, k, n, inv.Reg, how)
			col.Case(related && x.Build.Err != nil, canon, canon, "failure:"+how, fmt.Sprintf("build-failed=%v", x.Build.Err != nil))
			var f *Failure
			switch {
			case x.Build.Panic != nil:
				f = fail("C11", "no-panic", "failed-build", "Build panicked: %v", x.Build.Panic)
			case x.Build.Err == nil:
				// the fault sat behind an optional dependency, or the cancellation came with the last constructor
				x.exec(Op{Kind: "pclose"})
				f = x.checkC11()
			default:
				// the failed Build has disposed everything itself: judge that disposal like a provider Close
				x.R.PClosed, x.R.PCloseBeg, x.R.PCloseEnd = true, x.Build.StartSeq, x.Build.EndSeq
				f = x.checkC11()
				if f == nil {
					f = x.checkC11Deps()
				}
			}
			if f != nil {
				if isKnown(f) {
					col.Excluded()
					continue
				}
				rt.Fatalf("VIOLATION %s\n%s", f, canon)
			}
		}
	})
}

// ---------- C12: the provider's root scope closed through its handle ----------

// TestC12RootHandle: the provider's own root scope is reachable as a Scope
// (Get(Scope) on the provider; what singletons are injected with). Somebody
// who holds it may close it - while, or before, the provider is closed. The
// provider's Close covers that scope: it reports what failed in it when the
// failure happened during the call, and nothing is closed twice.
func TestC12RootHandle(t *testing.T) { runRootHandle(t, "C12") }

// TestC10RootHandle / TestC11RootHandle: the same programs seen from the singletons: closing the
// root scope does not touch them (C10: when the provider is closed and not before), and when the
// provider is closed they go last, after everything the root scope owns (C11).
func TestC10RootHandle(t *testing.T) { runRootHandle(t, "C10") }
func TestC11RootHandle(t *testing.T) { runRootHandle(t, "C11") }

func runRootHandle(t *testing.T, prop string) {
	col := evid.New(prop, "root-scope-handle", "configurations biased to disposable services, a generated subset of registrations failing in Close(); scoped and transient services are resolved on the provider (owned by its root scope); then Close is called on the root scope obtained through provider.Get(Scope) and on the provider - one after the other, or overlapped: the root scope's Close is parked inside the first instance's Close(), the provider's Close is started and left to run until it returns or blocks, the root scope's Close is released; oracle per call (10 s bound): no hang, no panic; a call returns a DisposalError exactly when a failing Close() of something it covers ran between its start and its return; every instance closed exactly once; no singleton receives its Close before the Close of the provider has begun, and every Close of something the root scope owns precedes every Close of a singleton; non-trivial = a failing instance owned by the root scope was closed while both calls were in progress")
	defer col.Flush()
	rapid.Check(t, func(rt *rapid.T) {
		cfg := kit.GenConfig(rt, dispOpts())
		x, err := startRunWith(cfg, nil, func(w *kit.World) {
			w.CloseFailRegs = map[int]bool{}
			for _, r := range w.Cfg.Regs {
				if r.Form != kit.FormInstance && rapid.IntRange(0, 2).Draw(rt, "closeFails") == 0 {
					w.CloseFailRegs[r.ID] = true
				}
			}
		})
		if err != nil {
			rt.Fatal(err)
		}
		if x.Build.Err != nil || x.Build.Panic != nil {
			col.Case(false, cfg.String(), nil, "build-failed(not judged here)")
			return
		}
		for _, id := range noVoid(identPool(x.M, false)) {
			if rapid.IntRange(0, 2).Draw(rt, "resolveOnRoot") != 0 {
				x.R.Resolve(0, id)
			}
		}
		v, gerr := x.R.P.Get(kit.ScopeType)
		root, ok := v.(godi.Scope)
		if gerr != nil || !ok {
			rt.Fatalf("VIOLATION C12/root-handle [get]: provider.Get(Scope) = %T, %v", v, gerr)
		}
		overlapped := rapid.Bool().Draw(rt, "overlapped")
		type call struct {
			what       string
			from, to   int64
			err        error
			pv         any
			done       chan struct{}
			hung       bool
			wasBlocked bool
		}
		start := func(what string, fn func() error) *call {
			c := &call{what: what, done: make(chan struct{}), from: x.W.NextSeq()}
			go func() {
				defer close(c.done)
				defer func() { c.pv = recover(); c.to = x.W.NextSeq() }()
				c.err = fn()
			}()
			return c
		}
		var a, b *call
		if overlapped {
			var aGoid atomic.Int64
			pk := kit.NewParker(func(gp kit.GatePoint) bool {
				return gp.Kind == kit.GateCloseEnter && gp.Goid == aGoid.Load() && aGoid.Load() != 0
			})
			x.W.SetGate(pk.Gate)
			a = &call{what: "Close of the root scope handle", done: make(chan struct{}), from: x.W.NextSeq()}
			go func() {
				defer close(a.done)
				defer func() { a.pv = recover(); a.to = x.W.NextSeq() }()
				aGoid.Store(kit.Goid())
				a.err = root.Close()
			}()
			select {
			case <-pk.Parked():
			case <-a.done:
			case <-time.After(10 * time.Second):
				a.hung = true
			}
			b = start("Close of the provider", x.R.P.Close)
			select {
			case <-b.done:
			case <-time.After(30 * time.Millisecond):
				b.wasBlocked = true
			}
			pk.Release()
			x.W.SetGate(nil)
			for _, c := range []*call{a, b} {
				if !kit.WaitOrTimeout(c.done, 10*time.Second) {
					c.hung = true
				}
			}
		} else {
			first, second := "root", "provider"
			if rapid.Bool().Draw(rt, "providerFirst") {
				first, second = second, first
			}
			mk := func(w string) *call {
				var c *call
				if w == "root" {
					c = start("Close of the root scope handle", root.Close)
				} else {
					c = start("Close of the provider", x.R.P.Close)
				}
				if !kit.WaitOrTimeout(c.done, 10*time.Second) {
					c.hung = true
				}
				return c
			}
			a = mk(first)
			b = mk(second)
		}
		x.R.PClosed = true
		canon := fmt.Sprintf("%s\nclose methods that fail: %v; resolved on the provider: %d operations; overlapped=%v (first call: %s)", x.describe(), kit.SortedInts(keysOf(x.W.CloseFailRegs)), len(x.R.Obs)-1, overlapped, a.what)
		var f *Failure
		nt := false
		for _, c := range []*call{a, b} {
			switch {
			case f != nil:
			case c.hung:
				f = fail("C12", "no-hang", "root-handle", "%s has not returned after 10 s", c.what)
			case c.pv != nil:
				f = fail("C12", "no-panic", "root-handle", "%s panicked: %v", c.what, c.pv)
			}
		}
		if f == nil {
			// which failing Close() calls ran inside which call's window
			for _, c := range []*call{a, b} {
				ran, ranRootOwned := 0, 0
				for _, e := range x.W.AllEntries() {
					if e.Inv == nil || !x.W.CloseFailRegs[e.Reg] {
						continue
					}
					for _, seq := range e.CloseSeqs() {
						if seq > c.from && seq < c.to {
							// the root scope's Close covers what the root scope owns; the provider's covers everything
							if c.what == "Close of the provider" || (e.ScopeTag == 0 && x.M.Regs[e.Reg].Life != kit.Singleton) {
								ran++
							}
							if e.ScopeTag == 0 && x.M.Regs[e.Reg].Life != kit.Singleton {
								ranRootOwned++
							}
						}
					}
				}
				if overlapped && c == b && ranRootOwned > 0 {
					nt = true
				}
				var de *godi.DisposalError
				isDE := c.err != nil && errors.As(c.err, &de)
				switch {
				case ran > 0 && c.err == nil:
					f = fail("C12", "reports", "root-handle/swallowed", "%d failing Close() calls of instances it covers ran during %s, yet it returned nil", ran, c.what)
				case ran == 0 && c.err != nil:
					f = fail("C12", "reports", "root-handle/spurious", "%s returned %v although no failing Close() of anything it covers ran during it", c.what, firstLine(c.err))
				case c.err != nil && !isDE:
					f = fail("C12", "reports", "root-handle/type", "%s returned %T, want a DisposalError", c.what, c.err)
				}
				if f != nil {
					break
				}
			}
		}
		if f == nil {
			// the singletons: not before the provider's Close, and after everything the root scope owns
			var provider *call
			for _, c := range []*call{a, b} {
				if c.what == "Close of the provider" {
					provider = c
				}
			}
			var lastRootOwned int64
			for _, e := range x.W.AllEntries() {
				if e.Inv != nil && e.ScopeTag == 0 && x.M.Regs[e.Reg].Life != kit.Singleton {
					for _, seq := range e.CloseSeqs() {
						if seq > lastRootOwned {
							lastRootOwned = seq
						}
					}
				}
			}
			for _, e := range x.W.AllEntries() {
				if f != nil || e.Inv == nil || x.M.Regs[e.Reg].Life != kit.Singleton {
					continue
				}
				for _, seq := range e.CloseSeqs() {
					if seq < provider.from {
						f = fail("C10", "not-early", "root-handle/singleton", "singleton %v was closed before the provider's Close began - by the Close of the root scope obtained through provider.Get(Scope)", e)
					} else if seq < lastRootOwned {
						f = fail("C11", "scopes-before-singletons", "root-handle", "singleton %v was closed while an instance owned by the root scope had not been closed yet (the root scope was being closed through its handle when the provider's Close began)", e)
					}
				}
			}
		}
		if f == nil {
			for _, e := range x.W.AllEntries() {
				if e.Inv != nil && e.Inv.Outcome == 1 && kit.IsDisposable(e.Impl) && e.CloseCount() != 1 {
					f = fail("C12", "idempotent", "root-handle/close-count", "%v received %d Close calls after the root scope and the provider were closed, want 1", e, e.CloseCount())
					break
				}
			}
		}
		col.Case(nt, canon, canon, fmt.Sprintf("overlapped=%v", overlapped), fmt.Sprintf("provider-blocked=%v", b.wasBlocked))
		if f != nil {
			if isKnown(f) {
				col.Excluded()
				return
			}
			rt.Fatalf("VIOLATION %s\n%s", f, canon)
		}
	})
}

// ---------- C12: Close called again from inside a Close ----------

// TestC12Reentrant: an instance whose Close() closes the scope it lives in (a
// session that ends its own request scope, an application object whose Close
// shuts the provider down) calls Close again while the first call is still on
// the stack: "calling Close again returns nil and closes nothing a second
// time" - the call returns; it cannot wait for the Close it is part of.
func TestC12Reentrant(t *testing.T) { runReentrant(t, "C12") }

// TestC10Reentrant / TestC13Reentrant: the same programs seen from the instances (C10: a scope
// that a Close method closes - an enclosing one, not yet closing - closes what it owns) and
// from the scope that was closed that way (C13: it refuses use once that Close has returned; no
// call hangs).
func TestC10Reentrant(t *testing.T) { runReentrant(t, "C10") }
func TestC13Reentrant(t *testing.T) { runReentrant(t, "C13") }

func runReentrant(t *testing.T, prop string) {
	col := evid.New(prop, "close-from-inside-close", "configurations biased to disposable services in which the Close methods of a generated subset of registrations call Close on the scope that owns the instance (the provider for singletons), on an enclosing scope or on the provider; sequential histories without closes, then every scope (in a generated order) and the provider are closed by the harness, each call bounded by 10 s; oracle: every call - the harness's and the ones made from inside a Close method - returns (no hang) without panicking; a call made from inside a Close method on the scope or provider whose disposal is running that method returns nil; a call made from inside a Close method on an enclosing scope that was not closing closes that scope: when it returns the scope refuses use and everything it owns has been closed (except what is closing up the stack); in the end every instance has received exactly one Close call; non-trivial = a Close method that calls Close ran")
	defer col.Flush()
	rapid.Check(t, func(rt *rapid.T) {
		cfg := kit.GenConfig(rt, dispOpts())
		mode := map[int]int{}
		x, err := startRunWith(cfg, nil, func(w *kit.World) {
			for _, r := range w.Cfg.Regs {
				if r.Form != kit.FormInstance && rapid.IntRange(0, 2).Draw(rt, "closes") == 0 {
					mode[r.ID] = rapid.IntRange(1, 3).Draw(rt, "what") // 1 its own scope, 2 the provider, 3 the scope above its own
				}
			}
		})
		if err != nil {
			rt.Fatal(err)
		}
		if x.Build.Err != nil || x.Build.Panic != nil {
			col.Case(false, cfg.String(), nil, "build-failed(not judged here)")
			return
		}
		var mu sync.Mutex
		var inner []string
		var innerFail *Failure
		ran := false
		closing := map[int64]map[int]bool{} // goroutine -> tags (0 = provider) whose Close the harness issued on it and that are still running
		x.W.InClose = func(e *kit.Entry) {
			m := mode[e.Reg]
			if m == 0 || e.Inv == nil {
				return
			}
			tag := e.ScopeTag
			if m == 2 || x.M.Regs[e.Reg].Life == kit.Singleton {
				tag = 0
			}
			if m == 3 && tag != 0 {
				if rec := x.R.ScopeRecOf(tag); rec != nil {
					tag = rec.Parent
				}
			}
			g := kit.Goid()
			mu.Lock()
			ran = true
			reentrant := closing[g][tag]
			wasOpen := false
			if rec := x.R.ScopeRecOf(tag); tag != 0 && rec != nil && rec.S != nil {
				_, gerr := rec.S.Get(kit.RType(kit.NeverType))
				wasOpen = !kit.IsScopeDisposed(gerr) && !kit.IsDisposed(gerr)
			}
			mu.Unlock()
			var cerr error
			if tag == 0 {
				cerr = x.R.P.Close()
			} else if rec := x.R.ScopeRecOf(tag); rec != nil && rec.S != nil {
				cerr = rec.S.Close()
			}
			mu.Lock()
			inner = append(inner, fmt.Sprintf("Close() of %v called Close on s%d", e, tag))
			if reentrant && cerr != nil && innerFail == nil {
				innerFail = fail("C12", "idempotent", "reentrant-error", "Close() of %v called Close on s%d (0 = the provider), whose Close is running this very method; the call returned %v, want nil", e, tag, firstLine(cerr))
			}
			if tag != 0 && tag != e.ScopeTag && wasOpen && !reentrant && innerFail == nil {
				// an enclosing scope that was open and is not closing up the stack: the call closed it
				rec := x.R.ScopeRecOf(tag)
				if _, gerr := rec.S.Get(kit.RType(kit.NeverType)); !kit.IsScopeDisposed(gerr) && !kit.IsDisposed(gerr) {
					innerFail = fail("C13", "closed-after-return", "closed-from-a-close-method", "Close() of %v (scope s%d) called Close on the enclosing scope s%d, which was open; the call returned %v and s%d still accepts resolutions (%v)", e, e.ScopeTag, tag, cerr, tag, gerr)
				}
				for _, o := range x.W.AllEntries() {
					if innerFail == nil && o.Inv != nil && o.Inv.Outcome == 1 && o.ScopeTag == tag && x.M.Regs[o.Reg].Life != kit.Singleton && kit.IsDisposable(o.Impl) && o.CloseCount() == 0 {
						innerFail = fail("C10", "exactly-once", "leaked/closed-from-a-close-method", "Close() of %v (scope s%d) called Close on the enclosing scope s%d; the call returned and %v, owned by s%d, has not been closed", e, e.ScopeTag, tag, o, tag)
					}
				}
			}
			mu.Unlock()
		}
		x.genHistory(rt, histOpts{MaxSteps: 14, MaxDepth: 3, CtxKinds: []int{0, 1}, NoCollEdits: true, NoRebuild: true, NoProvClose: true})
		var f *Failure
		outer := func(tag int, what string, fn func() error) {
			if f != nil {
				return
			}
			done := make(chan struct{})
			var pv any
			go func() {
				defer close(done)
				defer func() { pv = recover() }()
				g := kit.Goid()
				mu.Lock()
				if closing[g] == nil {
					closing[g] = map[int]bool{}
				}
				closing[g][tag] = true
				mu.Unlock()
				_ = fn()
				mu.Lock()
				delete(closing[g], tag)
				mu.Unlock()
			}()
			switch {
			case !kit.WaitOrTimeout(done, 10*time.Second):
				f = fail("C12", "no-hang", "close-from-inside-close", "Close of %s has not returned after 10 s; Close methods that had called Close so far: %v", what, inner)
			case pv != nil:
				f = fail("C12", "no-panic", "close-from-inside-close", "Close of %s panicked: %v", what, pv)
			}
		}
		tags := x.R.Tags()
		order := rapid.Permutation(tags).Draw(rt, "closeOrder")
		for _, tag := range order {
			rec := x.R.ScopeRecOf(tag)
			if tag == 0 || rec == nil || !rec.Created || rec.S == nil || rapid.IntRange(0, 3).Draw(rt, "leaveToOwner") == 0 {
				continue
			}
			outer(tag, fmt.Sprintf("scope s%d", tag), rec.S.Close)
		}
		outer(0, "the provider", x.R.P.Close)
		x.R.PClosed = true
		x.W.InClose = nil
		canon := fmt.Sprintf("%s\nclose methods that call Close (1 = on their own scope, 2 = on the provider, 3 = on the scope above): %v; close order %v", x.describe(), mode, order)
		mu.Lock()
		if f == nil {
			f = innerFail
		}
		mu.Unlock()
		if f == nil {
			for _, e := range x.W.AllEntries() {
				if e.Inv != nil && e.Inv.Outcome == 1 && kit.IsDisposable(e.Impl) && e.CloseCount() != 1 {
					f = fail("C12", "idempotent", "close-from-inside-close/close-count", "%v received %d Close calls after everything was closed, want 1", e, e.CloseCount())
					break
				}
			}
		}
		col.Case(ran, canon, canon)
		if f != nil {
			if isKnown(f) {
				col.Excluded()
				return
			}
			rt.Fatalf("VIOLATION %s\n%s", f, canon)
		}
	})
}

package props

import (
	"flag"
	"fmt"
	"os"
	"runtime"
	"strconv"
	"strings"
	"sync"
	"sync/atomic"
	"testing"
	"time"

	"verif/evid"
	"verif/kit"

	"pgregory.net/rapid"
)

// ---- controlled programs: any operation overlapping any other ----

func TestC09Controlled(t *testing.T) {
	oo := overlapOpts{Gen: dispOpts(), AKinds: []string{"get", "get", "create", "create-gatectx", "close"},
		BKinds: []string{"close", "close-ancestor", "pclose", "cancel", "same-get", "get", "create", "same-get-elsewhere", "dependent-get"}, GateKind: allGates, ExtraWarm: 3, ExtraScopes: 2}
	runOverlapTest(t, "C09", "controlled-schedules",
		"controlled two-thread programs over the whole operation alphabet: thread A (Get*/CreateScope/Close) is parked at the n-th point where godi calls harness code (constructor entry/exit incl. initializers, ctx.Done() inside CreateScope, an instance's Close() during disposal); thread B runs any operation (resolve same/other identity, CreateScope, Close of the scope/an ancestor/the provider, cancel) to completion or until it blocks; A is released, provider closed; oracle: no panic, no hang, every result is a fully built value or a disposed error, plus the C02 (one instance per scope) and C10 (closed exactly once) ledger oracles over the whole run; non-trivial = A was parked",
		oo,
		func(c *overlapCase) *Failure {
			if f := c.checkOverlapResults("C09"); f != nil {
				return f
			}
			obs, _ := c.X.observations()
			if f := c.X.checkC02(obs); f != nil {
				return fail("C09", "lifetime-rules", f.Oracle+"/"+f.Sig, "%s", f.Msg)
			}
			if f := c.X.checkC10(true); f != nil {
				return fail("C09", "lifetime-rules", f.Oracle+"/"+f.Sig, "%s", f.Msg)
			}
			if f := c.X.checkC11Deps(); f != nil {
				return fail("C09", "lifetime-rules", f.Oracle+"/"+f.Sig, "%s", f.Msg)
			}
			return nil
		},
		func(c *overlapCase) bool { return true })
}

// ---- free-running programs (real parallelism; run under -race by the driver) ----

type freeOp struct {
	Kind  string // get, create, child, close, cancel, pclose
	Slot  int    // scope slot the op targets (0 = provider)
	Ident kit.Ident
	Ctx   int
}

func (o freeOp) String() string {
	switch o.Kind {
	case "get":
		return fmt.Sprintf("get(slot%d,%s)", o.Slot, o.Ident)
	case "create":
		return fmt.Sprintf("create(->slot%d,ctx%d)", o.Slot, o.Ctx)
	case "child":
		return fmt.Sprintf("child(slot%d,ctx%d)", o.Slot, o.Ctx)
	}
	return fmt.Sprintf("%s(slot%d)", o.Kind, o.Slot)
}

type freeProgram struct {
	Cfg     *kit.Config
	Shared  int // number of shared scope slots (1..Shared), pre-created
	Threads [][]freeOp
	Seed    int
}

func (p *freeProgram) String() string {
	var sb strings.Builder
	fmt.Fprintf(&sb, "seed %d config: %s\nshared scopes: %d\n", p.Seed, p.Cfg, p.Shared)
	for i, th := range p.Threads {
		parts := make([]string, len(th))
		for j, o := range th {
			parts[j] = o.String()
		}
		fmt.Fprintf(&sb, "T%d: %s\n", i, strings.Join(parts, " "))
	}
	return sb.String()
}

func genFreeProgram() *rapid.Generator[*freeProgram] {
	return rapid.Custom(func(t *rapid.T) *freeProgram {
		p := &freeProgram{Cfg: kit.GenConfig(t, dispOpts())}
		m, _ := kit.NewModel(p.Cfg)
		ids := noVoid(m.AllIdents())
		p.Shared = rapid.IntRange(1, 4).Draw(t, "shared")
		nth := rapid.IntRange(2, 16).Draw(t, "threads")
		closeBias := rapid.IntRange(0, 3).Draw(t, "closebias")
		for i := 0; i < nth; i++ {
			n := rapid.IntRange(5, 50).Draw(t, "ops")
			var ops []freeOp
			for j := 0; j < n; j++ {
				slot := rapid.IntRange(0, p.Shared+1).Draw(t, "slot") // Shared+1 = the thread's own scope slot
				switch k := rapid.IntRange(0, 11+closeBias).Draw(t, "kind"); {
				case k <= 6 && len(ids) > 0:
					ops = append(ops, freeOp{Kind: "get", Slot: slot, Ident: rapid.SampledFrom(ids).Draw(t, "id")})
				case k == 7 || k == 8:
					ops = append(ops, freeOp{Kind: "create", Slot: p.Shared + 1, Ctx: rapid.IntRange(0, 2).Draw(t, "ctx")})
				case k == 9:
					ops = append(ops, freeOp{Kind: "child", Slot: slot, Ctx: rapid.IntRange(0, 2).Draw(t, "ctx")})
				case k == 10:
					ops = append(ops, freeOp{Kind: "cancel", Slot: slot})
				default:
					if slot != 0 {
						ops = append(ops, freeOp{Kind: "close", Slot: slot})
					}
				}
			}
			p.Threads = append(p.Threads, ops)
		}
		if rapid.IntRange(0, 9).Draw(t, "withpclose") < 3 {
			ti := rapid.IntRange(0, nth-1).Draw(t, "pcthread")
			ops := p.Threads[ti]
			pos := rapid.IntRange(len(ops)*2/3, len(ops)).Draw(t, "pcpos")
			ops = append(ops[:pos:pos], append([]freeOp{{Kind: "pclose"}}, ops[pos:]...)...)
			p.Threads[ti] = ops
		}
		return p
	})
}

// runFree executes the program with real parallelism and judges it.
func runFree(p *freeProgram) (f *Failure, stats map[string]int) {
	stats = map[string]int{}
	x, err := startRun(kit.CloneConfig(p.Cfg), nil)
	if err != nil || x.Build.Err != nil || x.Build.Panic != nil {
		stats["not-built"]++
		return nil, stats
	}
	// shared scopes: slot i -> tag
	shared := make([]int, p.Shared+1)
	for i := 1; i <= p.Shared; i++ {
		parent := 0
		if i > 1 && i%2 == 0 {
			parent = shared[i-1]
		}
		rec, _ := x.R.CreateScope(parent, []int{1, 2, 0}[i%3])
		shared[i] = rec.Tag
	}
	var wg sync.WaitGroup
	start := make(chan struct{})
	done := make(chan struct{})
	var mu sync.Mutex
	for ti, ops := range p.Threads {
		wg.Add(1)
		go func(ti int, ops []freeOp) {
			defer wg.Done()
			own := 0 // tag of the thread's own scope (0 = none yet -> provider)
			<-start
			for _, o := range ops {
				tag := own
				if o.Slot <= p.Shared {
					tag = shared[o.Slot]
				}
				rec := x.R.ScopeRecOf(tag)
				switch o.Kind {
				case "get":
					if rec != nil && rec.Created {
						x.R.Resolve(tag, o.Ident)
					}
				case "create":
					r2, _ := x.R.CreateScope(0, o.Ctx)
					if r2.Created {
						own = r2.Tag
					}
				case "child":
					if rec != nil && rec.Created && tag != 0 {
						x.R.CreateScope(tag, o.Ctx)
					}
				case "close":
					if rec != nil && rec.Created && tag != 0 {
						x.R.CloseScope(tag)
						mu.Lock()
						stats["close-during-run"]++
						mu.Unlock()
					}
				case "cancel":
					if rec != nil && rec.Created && tag != 0 {
						x.R.CancelScope(tag)
					}
				case "pclose":
					x.R.CloseProvider()
					mu.Lock()
					stats["provider-closed-during-run"]++
					mu.Unlock()
				}
			}
		}(ti, ops)
	}
	go func() { wg.Wait(); close(done) }()
	close(start)
	if !kit.WaitOrTimeout(done, 60*time.Second) {
		buf := make([]byte, 1<<20)
		n := runtime.Stack(buf, true)
		return fail("C09", "no-deadlock", "free-running", "program did not finish within 60 s; goroutine dump:\n%s", buf[:n]), stats
	}
	if !x.R.PClosed {
		x.R.CloseProvider()
	}
	for _, o := range x.R.Obs {
		if o.Panic != nil {
			return fail("C09", "no-panic", "free/"+o.Kind, "%s(s%d,%s) panicked: %v", o.Kind, o.Scope, o.Ident, o.Panic), stats
		}
		switch o.Kind {
		case "resolve":
			if o.Err != nil {
				stats["resolve-disposed"]++
				_, registered := x.M.Owner(o.Ident)
				if (registered || o.Ident.Group != "") && !kit.IsDisposed(o.Err) && !x.M.NilOutput(o.Ident) {
					return fail("C09", "documented-error", "free/"+kit.Classify(o.Err), "get(s%d,%s) failed with %v: neither a result nor a disposed error", o.Scope, o.Ident, firstLine(o.Err)), stats
				}
			} else {
				stats["resolve-ok"]++
				for _, e := range o.Entries {
					if e == nil && x.M.NilOutput(o.Ident) {
						continue
					}
					if e == nil || (e.Inv != nil && (e.Inv.Outcome != 1 || e.BornSeq == 0)) {
						return fail("C09", "complete-result", "free", "get(s%d,%s) returned an incomplete value %v", o.Scope, o.Ident, e), stats
					}
				}
			}
		case "create":
			if o.Err != nil && !kit.IsDisposed(o.Err) {
				return fail("C09", "documented-error", "free/create/"+kit.Classify(o.Err), "CreateScope failed with %v", firstLine(o.Err)), stats
			}
		}
	}
	obs, problems := x.observations()
	vis := x.visibleInvs()
	for _, pr := range problems {
		if pr.Oracle == "arg-present" && strings.HasSuffix(pr.Sig, "/optional") {
			// an optional dependency whose resolution hit the disposed error while a Close was
			// running is left zero (optional injection tolerates the failure) - but an instance
			// built that way is half-initialised and must not reach anybody
			if pr.Inv != nil && !vis[pr.Inv] {
				stats["optional-dep-lost-to-close(result discarded)"]++
				continue
			}
			if reg := x.M.Regs[pr.Inv.Reg]; pr.Inv != nil && reg != nil && reg.Form == kit.FormVoid {
				if rec := x.R.ScopeRecOf(pr.Inv.ScopeTag); pr.Inv.ScopeTag != 0 && (rec == nil || !rec.Created) {
					stats["optional-dep-lost-to-close(creation failed)"]++
					continue // an initializer of a scope whose creation reported the disposed error
				}
			}
			return fail("C09", "complete-result", "half-wired", "a service constructed while its scope was being closed was handed out without a registered optional dependency: %s", pr.Msg), stats
		}
		return fail("C09", "lifetime-rules", pr.Oracle+"/"+pr.Sig, "%s", pr.Msg), stats
	}
	// transients: no instance handed out twice (the site-count half of C03 is not applicable when calls may fail half-way)
	handed := map[*kit.Entry]string{}
	for _, sn := range obs {
		reg := x.M.Regs[sn.Owner.Reg]
		if reg.Life != kit.Transient || reg.Form == kit.FormInstance || sn.E == nil || (sn.ByInv != nil && !vis[sn.ByInv]) {
			continue
		}
		if prev, dup := handed[sn.E]; dup {
			return fail("C09", "lifetime-rules", "C03/fresh/"+sn.ViaKind, "transient instance %v handed out twice: at %s and at %s", sn.E, prev, sn.Where), stats
		}
		handed[sn.E] = sn.Where
	}
	for _, chk := range []func() *Failure{func() *Failure { return x.checkC01(obs) }, func() *Failure { return x.checkC02(obs) }, func() *Failure { return x.checkC04(obs, nil) }, func() *Failure { return x.checkC10(true) }} {
		if g := chk(); g != nil {
			return fail("C09", "lifetime-rules", g.Prop+"/"+g.Oracle+"/"+g.Sig, "%s", g.Msg), stats
		}
	}
	return nil, stats
}

func TestC09Free(t *testing.T) {
	n := 60
	if v := flag.Lookup("rapid.checks"); v != nil {
		if k, err := strconv.Atoi(v.Value.String()); err == nil {
			n = k / 20
		}
	}
	if n < 20 {
		n = 20
	}
	race := os.Getenv("VERIF_RACE") == "1"
	seedBase, _ := strconv.Atoi(os.Getenv("VERIF_SEED_EFF"))
	col := evid.New("C09", "free-running", "generated programs of 2-16 goroutines x 5-50 operations (resolve by type/key/group, CreateScope, child CreateScope, Close, cancel, rare provider Close) on a shared provider, 1-4 shared scopes (some nested) and per-thread own scopes, released by a barrier with GOMAXPROCS=16; on race shards the binary is built with -race and any report fails the run; oracle: no panic, no deadlock (60 s watchdog with goroutine dump), every result a complete value or a disposed error, and the C01/C02/C04/C10 ledger oracles hold over the whole run; non-trivial = the program closed a shared scope or the provider while other threads were using it; distinct by program")
	defer col.Flush()
	if race {
		col.Note("this shard ran under the Go race detector")
	}
	runtime.GOMAXPROCS(16)
	g := genFreeProgram()
	for i := 0; i < n; i++ {
		seed := seedBase*100003 + i + 1
		p := g.Example(seed)
		p.Seed = seed
		reps := 2
		for r := 0; r < reps; r++ {
			f, stats := runFree(p)
			labels := []string{}
			for k := range stats {
				labels = append(labels, k)
			}
			if race {
				labels = append(labels, "race-detector")
			}
			nt := stats["close-during-run"] > 0 || stats["provider-closed-during-run"] > 0
			canon := p.String()
			col.Case(nt, canon, canon, labels...)
			if f != nil {
				if isKnown(f) {
					col.Excluded()
					continue
				}
				evid.Violation("C09", f.Oracle, map[string]any{"program": canon, "failure": f.String(), "generator_seed": seed})
				t.Fatalf("VIOLATION %s\n%s", f, canon)
			}
		}
	}
}

// ---- closing from everywhere at once while Close methods fail ----

// TestC09CloseFailures: a shutdown in which everybody closes what they hold -
// the server its provider, every request its scope, twice - while Close methods
// of instances fail or panic: every one of these calls returns.
func TestC09CloseFailures(t *testing.T) {
	col := evid.New("C09", "concurrent-closes-with-failing-close-methods", "configurations biased to disposable services in which the Close methods of a random third of the registrations return an error and those of another random part panic; a sequential history over a scope tree (explicit closes in between, contexts nobody cancels), then free-running goroutines close the provider and (twice each) every scope that was created, all started at once; oracle: every Close call returns within 20 s (no deadlock) without panicking, and no instance has received more than one Close call; non-trivial = a failing or panicking Close method ran during the concurrent phase in a scope that had two closers")
	defer col.Flush()
	rapid.Check(t, func(rt *rapid.T) {
		cfg := kit.GenConfig(rt, dispOpts())
		var failing, panicking []int
		x, err := startRunWith(cfg, nil, func(w *kit.World) {
			w.ClosePanicRegs = map[int]bool{}
			w.CloseFailRegs = map[int]bool{}
			for _, r := range w.Cfg.Regs {
				if r.Form == kit.FormInstance {
					continue
				}
				switch rapid.IntRange(0, 4).Draw(rt, "closeBehaviour") {
				case 0, 1:
					w.CloseFailRegs[r.ID] = true
					failing = append(failing, r.ID)
				case 2:
					w.ClosePanicRegs[r.ID] = true
					panicking = append(panicking, r.ID)
				}
			}
		})
		if err != nil {
			rt.Fatal(err)
		}
		if x.Build.Err != nil || x.Build.Panic != nil {
			col.Case(false, cfg.String(), nil, "build-failed(not judged here)")
			return
		}
		x.genHistory(rt, histOpts{MaxSteps: 14, MaxDepth: 3, CloseScopes: true, CtxKinds: []int{0, 1}, NoCollEdits: true, NoRebuild: true, NoProvClose: true})
		providerFirst := rapid.Bool().Draw(rt, "providerFirst")
		canon := fmt.Sprintf("%s\nclose methods that fail: registrations %v, that panic: %v; then everything is closed concurrently (provider first: %v)", x.describe(), failing, panicking, providerFirst)
		before := map[*kit.Entry]int{}
		for _, e := range x.W.AllEntries() {
			before[e] = e.CloseCount()
		}
		type res struct {
			what string
			pv   any
			done chan struct{}
		}
		var calls []*res
		start := make(chan struct{})
		launch := func(what string, fn func() error) {
			r := &res{what: what, done: make(chan struct{})}
			calls = append(calls, r)
			go func() {
				defer close(r.done)
				defer func() { r.pv = recover() }()
				<-start
				_ = fn()
			}()
		}
		if providerFirst {
			// the owner closes first, the users' own Close calls arrive afterwards
			r := &res{what: "the provider", done: make(chan struct{})}
			calls = append(calls, r)
			go func() {
				defer close(r.done)
				defer func() { r.pv = recover() }()
				_ = x.R.P.Close()
			}()
			kit.WaitOrTimeout(r.done, 20*time.Second)
		} else {
			launch("the provider", x.R.P.Close)
		}
		for _, tag := range x.R.Tags() {
			rec := x.R.ScopeRecOf(tag)
			if tag == 0 || rec == nil || !rec.Created || rec.S == nil {
				continue
			}
			launch(fmt.Sprintf("scope s%d", tag), rec.S.Close)
			launch(fmt.Sprintf("scope s%d (second closer)", tag), rec.S.Close)
		}
		close(start)
		var f *Failure
		deadline := time.After(20 * time.Second)
		for _, r := range calls {
			select {
			case <-r.done:
				if r.pv != nil && f == nil {
					f = fail("C09", "no-panic", "concurrent-close", "Close of %s panicked: %v", r.what, r.pv)
				}
			case <-deadline:
				if f == nil {
					f = fail("C09", "no-hang", "concurrent-close", "Close of %s has not returned 20 s after every scope and the provider were closed concurrently", r.what)
				}
			}
			if f != nil && f.Oracle == "no-hang" {
				break
			}
		}
		ran := false
		if f == nil {
			for _, e := range x.W.AllEntries() {
				if e.Inv == nil {
					continue // an instance value: not made by the container
				}
				if e.CloseCount() > 1 {
					f = fail("C09", "lifetime-rules", "closed-twice", "%v received %d Close calls", e, e.CloseCount())
					break
				}
				if e.CloseCount() != before[e] && (x.W.CloseFailRegs[e.Reg] || x.W.ClosePanicRegs[e.Reg]) && e.ScopeTag != 0 {
					ran = true
				}
			}
		}
		col.Case(ran, canon, canon, fmt.Sprintf("provider-first=%v", providerFirst))
		if f != nil {
			if isKnown(f) {
				col.Excluded()
				return
			}
			rt.Fatalf("VIOLATION %s\n%s", f, canon)
		}
	})
}

// ---- a Close method that closes an owner while somebody else closes that owner ----

// TestC09CloseFromClose: a scope is being closed on one goroutine; the Close method of
// one of its instances calls Close on the parent scope or on the provider (a session that
// ends the application); meanwhile another goroutine closes that same parent / provider.
// The owner's Close waits for the scope, the instance's call waits for the owner: unless
// one of them gives way nobody ever returns.
func TestC09CloseFromClose(t *testing.T) { runCloseFromClose(t, "C09") }

// TestC11CloseFromClose: the same programs seen from the singletons: when the Close method closes
// an enclosing scope (not the provider) and the provider is closed meanwhile, the provider's Close
// still waits for the scope whose disposal made the call - every scope before any singleton.
func TestC11CloseFromClose(t *testing.T) { runCloseFromClose(t, "C11") }

func runCloseFromClose(t *testing.T, prop string) {
	col := evid.New(prop, "close-of-an-owner-from-inside-a-close", "configurations biased to disposable services; a scope tree (depth<=3) in which services were resolved; one scope C with a disposable instance of its own is picked, and an owner O of it (an ancestor scope or the provider); goroutine 2 closes C and, inside the Close() of C's first instance, waits until goroutine 1 has called Close on O or on another owner of C (an ancestor scope or the provider) and has been running for 30 ms (it is then waiting for C), then calls O.Close() itself (or the other way round: it closes O first and is still running when goroutine 1 arrives); oracle: when the Close method closes a scope and goroutine 1 the provider, no singleton is closed before everything C owns is closed; both Close calls and the call made from inside the Close method return within 10 s (no deadlock), without panicking, and in the end - after the provider is closed - every instance has received exactly one Close call; non-trivial = the instance's Close method made its call while the owner's Close was waiting")
	defer col.Flush()
	rapid.Check(t, func(rt *rapid.T) {
		cfg := kit.GenConfig(rt, dispOpts())
		x, err := startRun(cfg, nil)
		if err != nil {
			rt.Fatal(err)
		}
		if x.Build.Err != nil || x.Build.Panic != nil {
			col.Case(false, cfg.String(), nil, "build-failed(not judged here)")
			return
		}
		x.genHistory(rt, histOpts{MaxSteps: 14, MaxDepth: 3, CtxKinds: []int{0, 1}, NoCollEdits: true, NoRebuild: true, NoProvClose: true})
		if ids := noVoid(identPool(x.M, false)); len(ids) > 0 {
			for _, tag := range x.R.LiveScopes() {
				if tag != 0 {
					x.R.Resolve(tag, rapid.SampledFrom(ids).Draw(rt, "warm"))
					x.R.Resolve(tag, rapid.SampledFrom(ids).Draw(rt, "warm2"))
				}
			}
		}
		// scopes that own a disposable instance
		owns := map[int]bool{}
		for _, e := range x.W.AllEntries() {
			if e.Inv != nil && e.Inv.Outcome == 1 && kit.IsDisposable(e.Impl) && e.ScopeTag > 0 && x.M.Regs[e.Reg].Life != kit.Singleton {
				if rec := x.R.ScopeRecOf(e.ScopeTag); rec != nil && rec.Created && rec.S != nil && rec.CloseBeg == 0 {
					owns[e.ScopeTag] = true
				}
			}
		}
		if len(owns) == 0 {
			col.Case(false, x.describe(), nil, "no-scope-owns-a-disposable")
			x.R.CloseProvider()
			return
		}
		cands := kit.SortedInts(keysOf(owns))
		var nested []int
		for _, tg := range cands {
			if len(x.R.Ancestors(tg)) >= 2 {
				nested = append(nested, tg)
			}
		}
		if len(nested) > 0 && rapid.IntRange(0, 3).Draw(rt, "preferNested") != 0 {
			cands = nested
		}
		ctag := rapid.SampledFrom(cands).Draw(rt, "scope")
		anc := append(x.R.Ancestors(ctag), 0) // ctag itself first, the provider (0) last
		otag := rapid.SampledFrom(anc[1:]).Draw(rt, "owner")
		if len(anc) > 2 && rapid.Bool().Draw(rt, "ownerIsAScope") {
			otag = rapid.SampledFrom(anc[1 : len(anc)-1]).Draw(rt, "ownerScope")
		}
		g1tag := otag // what goroutine 1 closes: the same owner, or another one
		if rapid.Bool().Draw(rt, "otherOwner") {
			g1tag = rapid.SampledFrom(anc[1:]).Draw(rt, "g1owner")
		}
		closeOf := func(tag int) func() error {
			if tag == 0 {
				return x.R.P.Close
			}
			return x.R.ScopeRecOf(tag).S.Close
		}
		innerFirst := rapid.Bool().Draw(rt, "innerFirst")
		var g2 atomic.Int64
		inClose := make(chan struct{})
		goOn := make(chan struct{})
		innerDone := make(chan struct{})
		var once sync.Once
		var innerPanic any
		fired := false
		x.W.InClose = func(e *kit.Entry) {
			if kit.Goid() != g2.Load() || e.ScopeTag != ctag {
				return
			}
			once.Do(func() {
				fired = true
				defer close(innerDone)
				defer func() { innerPanic = recover() }()
				if innerFirst {
					// the owner is closed first, with nobody else around; goroutine 1 arrives while
					// this Close method - and with it the disposal of C - is still running
					_ = closeOf(otag)()
					close(inClose)
					<-goOn
					return
				}
				close(inClose)
				<-goOn
				_ = closeOf(otag)()
			})
		}
		run := func(fn func() error, goid *atomic.Int64) (chan struct{}, *any) {
			done := make(chan struct{})
			var pv any
			go func() {
				defer close(done)
				defer func() { pv = recover() }()
				if goid != nil {
					goid.Store(kit.Goid())
				}
				_ = fn()
			}()
			return done, &pv
		}
		d2, p2 := run(closeOf(ctag), &g2)
		select {
		case <-inClose:
		case <-d2:
		case <-time.After(10 * time.Second):
		}
		d1, p1 := run(closeOf(g1tag), nil)
		select {
		case <-d1:
		case <-time.After(30 * time.Millisecond):
		}
		close(goOn)
		canon := fmt.Sprintf("%s\ngoroutine 2 closes s%d; the Close() of its first instance calls Close on s%d (0 = the provider) while goroutine 1 is closing s%d (the Close method makes its call before goroutine 1 starts: %v)", x.describe(), ctag, otag, g1tag, innerFirst)
		var f *Failure
		for _, w := range []struct {
			what string
			done chan struct{}
			pv   *any
		}{{fmt.Sprintf("Close of s%d (goroutine 2)", ctag), d2, p2}, {fmt.Sprintf("Close of s%d (goroutine 1)", g1tag), d1, p1}} {
			if f != nil {
				break
			}
			if !kit.WaitOrTimeout(w.done, 10*time.Second) {
				f = fail("C09", "no-hang", "close-of-an-owner-from-inside-a-close", "%s has not returned after 10 s", w.what)
			} else if *w.pv != nil {
				f = fail("C09", "no-panic", "close-of-an-owner-from-inside-a-close", "%s panicked: %v", w.what, *w.pv)
			}
		}
		if f == nil && fired {
			if !kit.WaitOrTimeout(innerDone, 10*time.Second) {
				f = fail("C09", "no-hang", "close-of-an-owner-from-inside-a-close/inner", "the Close call made from inside the instance's Close() has not returned after 10 s")
			} else if innerPanic != nil {
				f = fail("C09", "no-panic", "close-of-an-owner-from-inside-a-close/inner", "the Close call made from inside the instance's Close() panicked: %v", innerPanic)
			}
		}
		x.W.InClose = nil
		if f == nil {
			pd, pp := run(x.R.P.Close, nil)
			if !kit.WaitOrTimeout(pd, 10*time.Second) {
				f = fail("C09", "no-hang", "close-of-an-owner-from-inside-a-close/provider", "the final Close of the provider has not returned after 10 s")
			} else if *pp != nil {
				f = fail("C09", "no-panic", "close-of-an-owner-from-inside-a-close/provider", "the final Close of the provider panicked: %v", *pp)
			}
			x.R.PClosed = true
		}
		if f == nil {
			for _, e := range x.W.AllEntries() {
				if e.Inv != nil && e.Inv.Outcome == 1 && kit.IsDisposable(e.Impl) && e.CloseCount() != 1 {
					f = fail("C09", "lifetime-rules", "close-of-an-owner-from-inside-a-close/close-count", "%v received %d Close calls after everything was closed, want 1", e, e.CloseCount())
					break
				}
			}
		}
		if f == nil && fired && otag != 0 && g1tag == 0 {
			// only goroutine 1 closes the provider: it waits for every scope, also for the one
			// whose disposal is busy closing an enclosing scope
			var lastOfC int64
			for _, e := range x.W.AllEntries() {
				if e.Inv != nil && e.ScopeTag == ctag && x.M.Regs[e.Reg].Life != kit.Singleton {
					for _, seq := range e.CloseSeqs() {
						if seq > lastOfC {
							lastOfC = seq
						}
					}
				}
			}
			for _, e := range x.W.AllEntries() {
				if f != nil || e.Inv == nil || x.M.Regs[e.Reg].Life != kit.Singleton {
					continue
				}
				for _, seq := range e.CloseSeqs() {
					if seq < lastOfC {
						f = fail("C11", "scopes-before-singletons", "close-of-an-owner-from-inside-a-close", "singleton %v was closed while scope s%d - whose disposal was busy closing the enclosing scope s%d - still had an open instance", e, ctag, otag)
					}
				}
			}
		}
		col.Case(fired, canon, canon, fmt.Sprintf("owner-is-provider=%v", otag == 0), fmt.Sprintf("goroutine-1-closes-provider=%v", g1tag == 0))
		if f != nil {
			if isKnown(f) {
				col.Excluded()
				return
			}
			rt.Fatalf("VIOLATION %s\n%s", f, canon)
		}
	})
}

package props

import (
	"context"
	"errors"
	"fmt"
	"runtime"
	"sync/atomic"
	"testing"
	"time"

	"verif/evid"
	"verif/kit"

	"github.com/junioryono/godi/v4"
	"pgregory.net/rapid"
)

// TestC13InitializerActs: initializer functions are user code that runs in the
// middle of CreateScope, with the Scope and the Provider at hand. What they do
// with them - open a scope below the one under construction, close the
// provider - overlaps whatever else is going on (another goroutine closing the
// provider or the parent). "An operation that overlaps a Close either completes
// normally or reports the disposed error - it never panics, hangs, or ..."

type iaMarker struct{ n int }

func TestC13InitializerActs(t *testing.T) {
	col := evid.New("C13", "initializers-that-act", "two-goroutine programs: goroutine A creates a scope (on the provider or on a scope of depth 1-2) whose first, middle or last of 1-3 initializer functions is handed the Scope and the Provider, reports that it is running and waits; goroutine B meanwhile closes the provider or the parent scope (to completion, or until it blocks: 30 ms) or does nothing; the initializer is released and then opens a scope below the one under construction, closes the provider, closes the scope under construction, or just returns; oracle: every call of the program returns within 10 s, none panics, the creation returns a usable scope or an error that is the scope-/provider-disposed error (or the initializer's own), and afterwards everything can be closed; non-trivial = B's Close overlapped the initializer and the initializer then acted")
	defer col.Flush()
	rapid.Check(t, func(rt *rapid.T) {
		nInit := rapid.IntRange(1, 3).Draw(rt, "ninit")
		actor := rapid.IntRange(0, nInit-1).Draw(rt, "actorPos")
		act := rapid.SampledFrom([]string{"nest", "nest", "pclose", "close-self", "nothing"}).Draw(rt, "act")
		bKind := rapid.SampledFrom([]string{"pclose", "pclose", "close-parent", "none"}).Draw(rt, "b")
		depth := rapid.IntRange(0, 2).Draw(rt, "depth")
		if depth == 0 && bKind == "close-parent" {
			bKind = "pclose"
		}
		canon := fmt.Sprintf("initializers=%d actor=%d act=%s B=%s depth=%d", nInit, actor, act, bKind, depth)
		var armed atomic.Bool
		entered, release := make(chan struct{}), make(chan struct{})
		var actErr error
		var actPanic any
		coll := godi.NewCollection()
		for i := 0; i < nInit; i++ {
			i := i
			var err error
			if i == actor {
				err = coll.AddScoped(func(s godi.Scope, p godi.Provider) {
					if !armed.CompareAndSwap(true, false) {
						return
					}
					close(entered)
					<-release
					defer func() { actPanic = recover() }()
					switch act {
					case "nest":
						var c godi.Scope
						if c, actErr = s.CreateScope(context.Background()); actErr == nil {
							_, actErr = godi.Resolve[*iaMarker](c)
						}
					case "pclose":
						actErr = p.Close()
					case "close-self":
						actErr = s.Close()
					}
				})
			} else {
				err = coll.AddScoped(func(m *iaMarker) {})
			}
			if err != nil {
				rt.Fatal(err)
			}
		}
		if err := coll.AddScoped(func() *iaMarker { return &iaMarker{} }); err != nil {
			rt.Fatal(err)
		}
		p, err := coll.Build()
		if err != nil {
			rt.Fatalf("VIOLATION C13/harness: Build failed: %v", err)
		}
		var parent godi.Provider = p
		var chain []godi.Scope
		for d := 0; d < depth; d++ {
			s, err := parent.CreateScope(context.Background())
			if err != nil {
				rt.Fatalf("CreateScope: %v", err)
			}
			chain = append(chain, s)
			parent = s
		}
		armed.Store(true)
		type res struct {
			s   godi.Scope
			err error
			pan any
		}
		aDone := make(chan res, 1)
		go func() {
			var r res
			defer func() { r.pan = recover(); aDone <- r }()
			r.s, r.err = parent.CreateScope(context.Background())
		}()
		select {
		case <-entered:
		case <-time.After(10 * time.Second):
			rt.Fatalf("VIOLATION C13/no-hang [initializer-acts/not-entered]: the initializer never ran\n%s", canon)
		}
		bDone := make(chan res, 1)
		go func() {
			var r res
			defer func() { r.pan = recover(); bDone <- r }()
			switch bKind {
			case "pclose":
				r.err = p.Close()
			case "close-parent":
				r.err = chain[len(chain)-1].Close()
			}
		}()
		var rb res
		bFinished := false
		select {
		case rb = <-bDone:
			bFinished = true
		case <-time.After(30 * time.Millisecond):
		}
		close(release)
		var ra res
		select {
		case ra = <-aDone:
		case <-time.After(10 * time.Second):
			dumpGoroutines()
			rt.Fatalf("VIOLATION C13/no-hang [initializer-acts/create]: CreateScope has not returned 10 s after its initializer went on (%s; B finished before: %v)\n%s", act, bFinished, canon)
		}
		if !bFinished {
			select {
			case rb = <-bDone:
			case <-time.After(10 * time.Second):
				dumpGoroutines()
				rt.Fatalf("VIOLATION C13/no-hang [initializer-acts/close]: the Close that overlapped the creation has not returned after 10 s\n%s", canon)
			}
		}
		col.Case(bKind != "none" && act != "nothing", canon, canon, "act="+act, "b="+bKind, fmt.Sprintf("b-finished-first=%v", bFinished))
		if ra.pan != nil || rb.pan != nil || actPanic != nil {
			rt.Fatalf("VIOLATION C13/no-panic [initializer-acts]: panic in CreateScope (%v), in the overlapping Close (%v) or in what the initializer called (%v)\n%s", ra.pan, rb.pan, actPanic, canon)
		}
		okErr := func(e error) bool {
			return e == nil || kit.IsDisposed(e) || errors.Is(e, godi.ErrProviderDisposed) || errors.Is(e, godi.ErrScopeDisposed)
		}
		if !okErr(ra.err) {
			rt.Fatalf("VIOLATION C13/completes-or-disposed [initializer-acts/create]: CreateScope returned %v\n%s", ra.err, canon)
		}
		if act == "nest" && !okErr(actErr) {
			rt.Fatalf("VIOLATION C13/completes-or-disposed [initializer-acts/nested]: the scope the initializer opened (and resolved from) reported %v\n%s", actErr, canon)
		}
		if ra.err == nil && bKind == "none" && act != "pclose" && act != "close-self" {
			if _, err := godi.Resolve[*iaMarker](ra.s); err != nil {
				rt.Fatalf("VIOLATION C13/completes-or-disposed [initializer-acts/usable]: the created scope does not resolve: %v\n%s", err, canon)
			}
		}
		// afterwards everything closes, promptly
		fin := make(chan struct{})
		go func() {
			defer close(fin)
			if ra.s != nil {
				_ = ra.s.Close()
			}
			for i := len(chain) - 1; i >= 0; i-- {
				_ = chain[i].Close()
			}
			_ = p.Close()
		}()
		select {
		case <-fin:
		case <-time.After(10 * time.Second):
			dumpGoroutines()
			rt.Fatalf("VIOLATION C13/no-hang [initializer-acts/final-close]: closing everything afterwards has not returned after 10 s\n%s", canon)
		}
		if _, err := p.CreateScope(context.Background()); !errors.Is(err, godi.ErrProviderDisposed) {
			rt.Fatalf("VIOLATION C13/refuses [initializer-acts/provider]: CreateScope on the closed provider returned %v\n%s", err, canon)
		}
	})
}

func dumpGoroutines() {
	buf := make([]byte, 1<<18)
	n := runtime.Stack(buf, true)
	fmt.Printf("goroutines:\n%s\n", buf[:n])
}

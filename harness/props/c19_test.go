package props

import (
	"fmt"
	"sync"
	"sync/atomic"
	"testing"

	"verif/evid"

	"pgregory.net/rapid"
)

// gOp is one graph mutation.
type gOp struct {
	Kind  int // 0 add, 1 deferred add, 2 remove, 3 clear, 4 detect
	V     int
	Deps  []int
	Query bool
}

func (o gOp) String() string {
	switch o.Kind {
	case 0:
		return fmt.Sprintf("add(%d<-%v)", o.V, o.Deps)
	case 1:
		return fmt.Sprintf("defer(%d<-%v)", o.V, o.Deps)
	case 2:
		return fmt.Sprintf("remove(%d)", o.V)
	case 3:
		return "clear"
	default:
		return "detect"
	}
}

func genGOp(n int) *rapid.Generator[gOp] {
	return rapid.Custom(func(t *rapid.T) gOp {
		k := rapid.SampledFrom([]int{0, 0, 0, 0, 1, 1, 1, 2, 2, 3, 4, 4}).Draw(t, "kind")
		o := gOp{Kind: k, Query: rapid.IntRange(0, 9).Draw(t, "q") < 8}
		if k <= 2 {
			o.V = rapid.IntRange(0, n-1).Draw(t, "v")
		}
		if k <= 1 {
			o.Deps = rapid.SliceOfN(rapid.IntRange(0, n-1), 0, 3).Draw(t, "deps")
		}
		return o
	})
}

// applyGOps runs ops on a fresh system; returns the first discrepancy.
func applyGOps(n int, ops []gOp, forceQuery bool) (rejected, replaced, rmBoth int, err error) {
	s := newGSys(n)
	for i, o := range ops {
		switch o.Kind {
		case 0:
			if s.m.Has[o.V] && s.m.Prov[o.V] != 0 {
				replaced++
			}
			rej, e := s.addImmediate(o.V, o.Deps)
			if e != nil {
				return 0, 0, 0, fmt.Errorf("step %d %s: %w", i, o, e)
			}
			if rej {
				rejected++
			}
		case 1:
			if s.m.Has[o.V] && s.m.Prov[o.V] != 0 {
				replaced++
			}
			if e := s.addDeferred(o.V, o.Deps); e != nil {
				return 0, 0, 0, fmt.Errorf("step %d %s: %w", i, o, e)
			}
		case 2:
			if s.m.Has[o.V] && len(s.m.Out[o.V]) > 0 && s.m.InDeg(o.V) > 0 {
				rmBoth++
			}
			s.remove(o.V)
		case 3:
			s.clear()
		case 4:
			if e := s.detect(); e != nil {
				return 0, 0, 0, fmt.Errorf("step %d %s: %w", i, o, e)
			}
		}
		if o.Query || forceQuery {
			if e := s.checkQueries(); e != nil {
				return 0, 0, 0, fmt.Errorf("after step %d %s: %w", i, o, e)
			}
		}
	}
	if e := s.checkQueries(); e != nil {
		return 0, 0, 0, fmt.Errorf("final: %w", e)
	}
	return
}

const c19Rule = "random mutation sequences (immediate/deferred add, replace, remove, clear, detect) over a pool of 7 node identities (types x keys x groups) with every query compared to a plain digraph after (most) steps; non-trivial = sequence contains a rejected add, a replace, or a removal of a node with both in- and out-edges; distinct by op sequence"

func TestC19Graph(t *testing.T) {
	col := evid.New("C19", "random-sequences", c19Rule)
	defer col.Flush()
	maxLen := 30
	if thorough() {
		maxLen = 80
	}
	rapid.Check(t, func(t *rapid.T) {
		n := 7
		ops := rapid.SliceOfN(genGOp(n), 1, maxLen).Draw(t, "ops")
		rej, rep, rmb, err := applyGOps(n, ops, false)
		labels := []string{}
		if rej > 0 {
			labels = append(labels, "has-rejected-add")
		}
		if rep > 0 {
			labels = append(labels, "has-replace")
		}
		if rmb > 0 {
			labels = append(labels, "has-remove-inout")
		}
		col.Case(rej+rep+rmb > 0, fmt.Sprint(ops), fmt.Sprint(ops), labels...)
		if err != nil {
			t.Fatalf("%v\nops: %v", err, ops)
		}
	})
}

// TestC19Exhaustive enumerates all sequences of <= L mutations over n
// identities, with all queries after each mutation: (n=3,L=2) in the quick tier,
// (n=3,L=3) and (n=2,L=4) in the thorough tier.
func TestC19Exhaustive(t *testing.T) {
	col := evid.New("C19", "exhaustive-short-sequences", "all sequences of up to L mutations over n node identities - quick: n=3,L=2; thorough: n=3,L=3 and n=2,L=4 - with the alphabet: add / deferred add with every dependency list of length<=2 drawn from the n ids (incl. self and duplicates), remove, clear, detect; all queries after each mutation; non-trivial = contains a rejected add, replace or in/out removal")
	col.Exhaust = true
	defer col.Flush()
	type bound struct{ n, L int }
	bounds := []bound{{3, 2}}
	if thorough() {
		bounds = []bound{{3, 3}, {2, 4}}
	}
	si, sn := shardInfo()
	for _, b := range bounds {
		n, L := b.n, b.L
		var depLists [][]int
		depLists = append(depLists, nil)
		for a := 0; a < n; a++ {
			depLists = append(depLists, []int{a})
			for c := 0; c < n; c++ {
				depLists = append(depLists, []int{a, c})
			}
		}
		var alphabet []gOp
		for k := 0; k <= 1; k++ {
			for v := 0; v < n; v++ {
				for _, d := range depLists {
					alphabet = append(alphabet, gOp{Kind: k, V: v, Deps: d})
				}
			}
		}
		for v := 0; v < n; v++ {
			alphabet = append(alphabet, gOp{Kind: 2, V: v})
		}
		alphabet = append(alphabet, gOp{Kind: 3}, gOp{Kind: 4})
		failed := false
		var rec func(prefix []gOp, depth int)
		rec = func(prefix []gOp, depth int) {
			if failed {
				return
			}
			if len(prefix) > 0 {
				rej, rep, rmb, err := applyGOps(n, prefix, true)
				col.Case(rej+rep+rmb > 0, fmt.Sprintf("n=%d %v", n, prefix), fmt.Sprintf("n=%d %v", n, prefix))
				if err != nil {
					evid.Violation("C19", "exhaustive", map[string]any{"n": n, "ops": fmt.Sprint(prefix), "error": err.Error()})
					t.Errorf("%v\nn=%d ops: %v", err, n, prefix)
					failed = true
					return
				}
			}
			if depth == L {
				return
			}
			for i, o := range alphabet {
				if depth == 0 && i%sn != si {
					continue
				}
				rec(append(prefix[:len(prefix):len(prefix)], o), depth+1)
			}
		}
		rec(nil, 0)
		col.Note(fmt.Sprintf("n=%d: alphabet=%d ops, L=%d", n, len(alphabet), L))
		if failed {
			return
		}
	}
}

// TestC19Concurrent: the graph guards itself with a lock and caches answers.
// Queries issued from other goroutines while a mutation is in progress must
// not leave anything behind: once everything has returned, every query agrees
// with the reference that received the mutations (which are all issued by one
// goroutine, so their order is defined). What the concurrent queries themselves
// return is not judged - only that they return.
func TestC19Concurrent(t *testing.T) {
	col := evid.New("C19", "queries-overlapping-mutations", "rounds over one graph of up to 16 node identities: a mutation (immediate/deferred add, replace, remove, clear, detect) that invalidates the cached answers, then 1-3 goroutines issuing read-only queries (topological order, acyclicity, roots, leaves, transitive dependencies) released by a spin barrier at the very moment the next mutation is issued; after all have returned (and a pending deferred add was completed) every query is compared with the reference digraph; non-trivial = a round in which a query that fills a cache overlapped a mutation; distinct by (mutations, query plan)")
	defer col.Flush()
	rapid.Check(t, func(rt *rapid.T) {
		n := 16
		s := newGSys(n)
		// a starting graph of some size: the longer a query computes, the wider the window
		for v := 0; v < n; v++ {
			if rapid.IntRange(0, 4).Draw(rt, "startHas") > 0 {
				var deps []int
				for d := v + 1; d < n; d++ {
					if rapid.IntRange(0, 3).Draw(rt, "startEdge") == 0 {
						deps = append(deps, d)
					}
				}
				if err := s.addDeferred(v, deps); err != nil {
					rt.Fatal(err)
				}
			}
		}
		if err := s.detect(); err != nil {
			rt.Fatalf("start graph: %v", err)
		}
		apply := func(o gOp) error {
			switch o.Kind {
			case 0:
				_, e := s.addImmediate(o.V, o.Deps)
				return e
			case 1:
				return s.addDeferred(o.V, o.Deps)
			case 2:
				s.remove(o.V)
			case 3:
				s.clear()
			case 4:
				return s.detect()
			}
			return nil
		}
		rounds := rapid.IntRange(2, 10).Draw(rt, "rounds")
		var log []string
		for r := 0; r < rounds; r++ {
			a := genGOp(n).Draw(rt, "first")
			b := genGOp(n).Draw(rt, "second")
			if a.Kind == 3 && rapid.IntRange(0, 3).Draw(rt, "keepClear") > 0 {
				a.Kind = 2 // clear now and then only: it empties the graph
			}
			if b.Kind == 3 && rapid.IntRange(0, 3).Draw(rt, "keepClear2") > 0 {
				b.Kind = 2
			}
			if err := apply(a); err != nil {
				rt.Fatalf("round %d %s: %v\nlog: %v", r, a, err, log)
			}
			nq := rapid.IntRange(1, 3).Draw(rt, "readers")
			plans := make([][]int, nq)
			for i := range plans {
				plans[i] = rapid.SliceOfN(rapid.IntRange(0, 4), 1, 3).Draw(rt, "queries")
			}
			log = append(log, fmt.Sprintf("%s | %s with queries %v", a, b, plans))
			var goFlag atomic.Bool
			var wg sync.WaitGroup
			var ready atomic.Int32
			for _, plan := range plans {
				wg.Add(1)
				go func(plan []int) {
					defer wg.Done()
					ready.Add(1)
					for !goFlag.Load() {
					}
					for _, q := range plan {
						switch q {
						case 0:
							_, _ = s.g.TopologicalSort()
						case 1:
							_ = s.g.IsAcyclic()
						case 2:
							_ = s.g.GetRoots()
						case 3:
							_ = s.g.GetLeaves()
						case 4:
							k := s.pool[len(plan)%len(s.pool)]
							_ = s.g.GetTransitiveDependencies(k.Type, k.Key, k.Group)
						}
					}
				}(plan)
			}
			for ready.Load() < int32(nq) {
			}
			goFlag.Store(true)
			err := apply(b)
			wg.Wait()
			if err != nil {
				rt.Fatalf("round %d %s: %v\nlog: %v", r, b, err, log)
			}
			if s.pending {
				if err := s.detect(); err != nil {
					rt.Fatalf("round %d detect: %v\nlog: %v", r, err, log)
				}
			}
			if err := s.checkQueries(); err != nil {
				rt.Fatalf("round %d, after everything returned: %v\nlog: %v", r, err, log)
			}
		}
		col.Case(true, fmt.Sprint(log), fmt.Sprint(log), fmt.Sprintf("rounds=%d", rounds))
	})
}

package props

import (
	"fmt"
	"testing"

	"verif/evid"

	"pgregory.net/rapid"
)

// gOp is one graph mutation.
type gOp struct {
	Kind  int // 0 add, 1 deferred add, 2 remove, 3 clear, 4 detect
	V     int
	Deps  []int
	Query bool
}

func (o gOp) String() string {
	switch o.Kind {
	case 0:
		return fmt.Sprintf("add(%d<-%v)", o.V, o.Deps)
	case 1:
		return fmt.Sprintf("defer(%d<-%v)", o.V, o.Deps)
	case 2:
		return fmt.Sprintf("remove(%d)", o.V)
	case 3:
		return "clear"
	default:
		return "detect"
	}
}

func genGOp(n int) *rapid.Generator[gOp] {
	return rapid.Custom(func(t *rapid.T) gOp {
		k := rapid.SampledFrom([]int{0, 0, 0, 0, 1, 1, 1, 2, 2, 3, 4, 4}).Draw(t, "kind")
		o := gOp{Kind: k, Query: rapid.IntRange(0, 9).Draw(t, "q") < 8}
		if k <= 2 {
			o.V = rapid.IntRange(0, n-1).Draw(t, "v")
		}
		if k <= 1 {
			o.Deps = rapid.SliceOfN(rapid.IntRange(0, n-1), 0, 3).Draw(t, "deps")
		}
		return o
	})
}

// applyGOps runs ops on a fresh system; returns the first discrepancy.
func applyGOps(n int, ops []gOp, forceQuery bool) (rejected, replaced, rmBoth int, err error) {
	s := newGSys(n)
	for i, o := range ops {
		switch o.Kind {
		case 0:
			if s.m.Has[o.V] && s.m.Prov[o.V] != 0 {
				replaced++
			}
			rej, e := s.addImmediate(o.V, o.Deps)
			if e != nil {
				return 0, 0, 0, fmt.Errorf("step %d %s: %w", i, o, e)
			}
			if rej {
				rejected++
			}
		case 1:
			if s.m.Has[o.V] && s.m.Prov[o.V] != 0 {
				replaced++
			}
			if e := s.addDeferred(o.V, o.Deps); e != nil {
				return 0, 0, 0, fmt.Errorf("step %d %s: %w", i, o, e)
			}
		case 2:
			if s.m.Has[o.V] && len(s.m.Out[o.V]) > 0 && s.m.InDeg(o.V) > 0 {
				rmBoth++
			}
			s.remove(o.V)
		case 3:
			s.clear()
		case 4:
			if e := s.detect(); e != nil {
				return 0, 0, 0, fmt.Errorf("step %d %s: %w", i, o, e)
			}
		}
		if o.Query || forceQuery {
			if e := s.checkQueries(); e != nil {
				return 0, 0, 0, fmt.Errorf("after step %d %s: %w", i, o, e)
			}
		}
	}
	if e := s.checkQueries(); e != nil {
		return 0, 0, 0, fmt.Errorf("final: %w", e)
	}
	return
}

const c19Rule = "random mutation sequences (immediate/deferred add, replace, remove, clear, detect) over a pool of 7 node identities (types x keys x groups) with every query compared to a plain digraph after (most) steps; non-trivial = sequence contains a rejected add, a replace, or a removal of a node with both in- and out-edges; distinct by op sequence"

func TestC19Graph(t *testing.T) {
	col := evid.New("C19", "random-sequences", c19Rule)
	defer col.Flush()
	maxLen := 30
	if thorough() {
		maxLen = 80
	}
	rapid.Check(t, func(t *rapid.T) {
		n := 7
		ops := rapid.SliceOfN(genGOp(n), 1, maxLen).Draw(t, "ops")
		rej, rep, rmb, err := applyGOps(n, ops, false)
		labels := []string{}
		if rej > 0 {
			labels = append(labels, "has-rejected-add")
		}
		if rep > 0 {
			labels = append(labels, "has-replace")
		}
		if rmb > 0 {
			labels = append(labels, "has-remove-inout")
		}
		col.Case(rej+rep+rmb > 0, fmt.Sprint(ops), fmt.Sprint(ops), labels...)
		if err != nil {
			t.Fatalf("%v\nops: %v", err, ops)
		}
	})
}

// TestC19Exhaustive enumerates all sequences of <= L mutations over n
// identities, with all queries after each mutation: (n=3,L=2) in the quick tier,
// (n=3,L=3) and (n=2,L=4) in the thorough tier.
func TestC19Exhaustive(t *testing.T) {
	col := evid.New("C19", "exhaustive-short-sequences", "all sequences of up to L mutations over n node identities - quick: n=3,L=2; thorough: n=3,L=3 and n=2,L=4 - with the alphabet: add / deferred add with every dependency list of length<=2 drawn from the n ids (incl. self and duplicates), remove, clear, detect; all queries after each mutation; non-trivial = contains a rejected add, replace or in/out removal")
	col.Exhaust = true
	defer col.Flush()
	type bound struct{ n, L int }
	bounds := []bound{{3, 2}}
	if thorough() {
		bounds = []bound{{3, 3}, {2, 4}}
	}
	si, sn := shardInfo()
	for _, b := range bounds {
		n, L := b.n, b.L
		var depLists [][]int
		depLists = append(depLists, nil)
		for a := 0; a < n; a++ {
			depLists = append(depLists, []int{a})
			for c := 0; c < n; c++ {
				depLists = append(depLists, []int{a, c})
			}
		}
		var alphabet []gOp
		for k := 0; k <= 1; k++ {
			for v := 0; v < n; v++ {
				for _, d := range depLists {
					alphabet = append(alphabet, gOp{Kind: k, V: v, Deps: d})
				}
			}
		}
		for v := 0; v < n; v++ {
			alphabet = append(alphabet, gOp{Kind: 2, V: v})
		}
		alphabet = append(alphabet, gOp{Kind: 3}, gOp{Kind: 4})
		failed := false
		var rec func(prefix []gOp, depth int)
		rec = func(prefix []gOp, depth int) {
			if failed {
				return
			}
			if len(prefix) > 0 {
				rej, rep, rmb, err := applyGOps(n, prefix, true)
				col.Case(rej+rep+rmb > 0, fmt.Sprintf("n=%d %v", n, prefix), fmt.Sprintf("n=%d %v", n, prefix))
				if err != nil {
					evid.Violation("C19", "exhaustive", map[string]any{"n": n, "ops": fmt.Sprint(prefix), "error": err.Error()})
					t.Errorf("%v\nn=%d ops: %v", err, n, prefix)
					failed = true
					return
				}
			}
			if depth == L {
				return
			}
			for i, o := range alphabet {
				if depth == 0 && i%sn != si {
					continue
				}
				rec(append(prefix[:len(prefix):len(prefix)], o), depth+1)
			}
		}
		rec(nil, 0)
		col.Note(fmt.Sprintf("n=%d: alphabet=%d ops, L=%d", n, len(alphabet), L))
		if failed {
			return
		}
	}
}

package props

import (
	"context"
	"fmt"
	"testing"

	"verif/evid"
	"verif/kit"

	"github.com/junioryono/godi/v4"
	"pgregory.net/rapid"
)

// ---------- C01 ----------

func (x *run) singletonExpected(reg *kit.Reg) ([]*kit.Entry, *Failure) {
	if reg.Form == kit.FormInstance {
		return []*kit.Entry{x.W.InstEnt[reg.ID]}, nil
	}
	invs := x.W.InvsOf(reg.ID)
	if len(invs) != 1 {
		return nil, fail("C01", "runs-once", formFeature(reg), "singleton r%d (%s) constructor ran %d times, want exactly 1", reg.ID, reg, len(invs))
	}
	if invs[0].Outcome != 1 {
		return nil, fail("C01", "runs-once", "outcome", "singleton r%d constructor did not complete normally", reg.ID)
	}
	if invs[0].EndSeq > x.Build.EndSeq {
		return nil, fail("C01", "during-build", formFeature(reg), "singleton r%d (%s) was constructed after Build returned", reg.ID, reg)
	}
	return invs[0].Outs, nil
}

func (x *run) checkC01(obs []seen) *Failure {
	exp := map[int][]*kit.Entry{}
	for _, id := range x.M.Order {
		reg := x.M.Regs[id]
		if reg.Life != kit.Singleton {
			continue
		}
		// (a singleton function that returns nothing is a singleton too: it runs once, at Build)
		outs, f := x.singletonExpected(reg)
		if f != nil {
			return f
		}
		exp[id] = outs
	}
	for _, s := range obs {
		outs, isSingle := exp[s.Owner.Reg]
		if !isSingle {
			continue
		}
		want := outs[s.Owner.Out]
		if s.E != want {
			return fail("C01", "same-instance", s.ViaKind+"/"+formFeature(x.M.Regs[s.Owner.Reg]), "%s yielded %v, but singleton r%d.%d's one instance is %v", s.Where, s.E, s.Owner.Reg, s.Owner.Out, want)
		}
	}
	// "having it injected into any other service yields that one instance": whoever declares a
	// dependency on a registered singleton receives it - also through an optional field, and
	// whatever the order of the registration calls was
	vis := x.visibleInvs()
	for _, inv := range x.W.AllInvs() {
		if inv.Outcome != 1 || !vis[inv] {
			continue // (what an operation that overlapped a Close built and discarded is not anybody's instance)
		}
		for ai, a := range inv.Args {
			if a.Dep.Builtin != 0 || a.Dep.Ignored || a.Dep.Group != "" {
				continue
			}
			tg := x.M.DepTargets(a.Dep)
			if len(tg) != 1 || x.M.NilOutput(kit.Ident{T: a.Dep.T, Key: a.Dep.Key}) {
				continue
			}
			if _, isSingle := exp[tg[0].Reg]; isSingle && !a.Present {
				kind := "required"
				if a.Dep.Optional {
					kind = "optional"
				}
				return fail("C01", "injected", kind+"/"+lifeName(x.M.Regs[inv.Reg].Life), "arg %d (%s) of r%d#%d received nothing although singleton r%d provides it", ai, a.Dep, inv.Reg, inv.N, tg[0].Reg)
			}
		}
	}
	return nil
}

// ---------- C02 ----------

// visibleInvs: invocations whose result reached somebody - an output was
// returned by a successful resolution or received by a visible invocation;
// initializer functions (of scopes that came into being) and singleton
// constructors are visible by definition.
func (x *run) visibleInvs() map[*kit.Inv]bool {
	vis := map[*kit.Inv]bool{}
	var work []*kit.Inv
	mark := func(inv *kit.Inv) {
		if inv != nil && !vis[inv] {
			vis[inv] = true
			work = append(work, inv)
		}
	}
	for _, o := range x.R.Obs {
		if o.Kind == "resolve" && o.Err == nil && o.Panic == nil {
			for _, e := range o.Entries {
				if e != nil {
					mark(e.Inv)
				}
			}
		}
	}
	for _, inv := range x.W.AllInvs() {
		r := x.M.Regs[inv.Reg]
		if r == nil {
			continue
		}
		if r.Form == kit.FormVoid && r.Life != kit.Singleton && inv.ScopeTag > 0 {
			// the initializer of a scope whose creation went on to fail (it overlapped a Close and
			// reported the disposed error) ran for a scope nobody ever got
			if rec := x.R.ScopeRecOf(inv.ScopeTag); rec == nil || !rec.Created {
				continue
			}
		}
		if r.Form == kit.FormVoid || r.Life == kit.Singleton {
			mark(inv)
		}
	}
	for len(work) > 0 {
		inv := work[len(work)-1]
		work = work[:len(work)-1]
		for _, a := range inv.Args {
			for _, e := range a.Entries {
				if e != nil {
					mark(e.Inv)
				}
			}
		}
	}
	return vis
}

func (x *run) checkC02(obs []seen) *Failure {
	type rs struct{ reg, scope int }
	inst := map[rs]*kit.Inv{}
	visible := x.visibleInvs()
	for _, id := range x.M.Order {
		reg := x.M.Regs[id]
		if reg.Life != kit.Scoped || reg.Form == kit.FormInstance {
			continue
		}
		if reg.Form == kit.FormVoid {
			// runs that failed (an injected fault) are attempts, not runs: "a failed construction
			// yields no instance and may be retried" - when the attempt was made on behalf of
			// somebody's optional dependency the creation goes on and runs the initializer itself
			perScope := map[int][]*kit.Inv{}
			for _, inv := range x.W.InvsOf(id) {
				if inv.Outcome > 1 {
					continue
				}
				perScope[inv.ScopeTag] = append(perScope[inv.ScopeTag], inv)
			}
			for tag, rec := range x.R.Scopes {
				n := len(perScope[tag])
				switch {
				case tag == 0:
					if n > 1 {
						return fail("C02", "initializer-once", "root", "initializer r%d ran %d times for the root scope", id, n)
					}
					if n == 1 && perScope[0][0].EndSeq > x.Build.EndSeq {
						return fail("C02", "initializer-once", "root-late", "initializer r%d ran for the root scope after Build returned", id)
					}
				case rec.Created:
					if n != 1 {
						return fail("C02", "initializer-once", "count", "initializer r%d (%s) ran %d times for scope s%d, want exactly 1", id, reg, n, tag)
					}
					var create *kit.Obs
					for _, o := range x.R.Obs {
						if o.Kind == "create" && o.Scope == tag {
							create = o
						}
					}
					if create != nil && (perScope[tag][0].StartSeq < create.StartSeq || perScope[tag][0].EndSeq > create.EndSeq) {
						return fail("C02", "initializer-once", "when", "initializer r%d for scope s%d did not run during its creation", id, tag)
					}
				}
			}
			continue
		}
		for _, inv := range okInvs(x.W, id) {
			if !visible[inv] {
				// constructed but discarded (the operation overlapped a Close and reported the
				// disposed error): the scope did not end up with this instance
				continue
			}
			k := rs{id, inv.ScopeTag}
			if prev, dup := inst[k]; dup {
				return fail("C02", "one-per-scope", formFeature(reg)+seqOrConc(prev, inv), "scoped r%d (%s) was constructed twice in scope s%d (invocations #%d and #%d)", id, reg, inv.ScopeTag, prev.N, inv.N)
			}
			inst[k] = inv
		}
	}
	// what a singleton was constructed with is seen by every scope that resolves the singleton
	for _, inv := range x.W.AllInvs() {
		if x.M.Regs[inv.Reg].Life != kit.Singleton {
			continue
		}
		for _, a := range inv.Args {
			for _, e := range a.Entries {
				if e != nil && e.Inv != nil && x.M.Regs[e.Reg].Life == kit.Scoped {
					return fail("C02", "not-shared", "held-by-singleton/"+depVia(a.Dep), "singleton r%d was constructed with %v, an instance of scoped r%d: every scope that resolves the singleton shares that one instance", inv.Reg, e, e.Reg)
				}
			}
		}
	}
	for _, s := range obs {
		reg := x.M.Regs[s.Owner.Reg]
		if reg.Life != kit.Scoped || reg.Form == kit.FormInstance {
			continue
		}
		if s.E == nil {
			return fail("C02", "same-instance", "nil", "%s yielded nil", s.Where)
		}
		if s.E.ScopeTag != s.Scope {
			return fail("C02", "not-shared", s.ViaKind+"/"+formFeature(reg), "%s (issued on s%d) yielded %v which was created in scope s%d", s.Where, s.Scope, s.E, s.E.ScopeTag)
		}
		if s.ByInv != nil && !visible[s.ByInv] {
			continue // received by a constructor whose result was discarded
		}
		inv := inst[rs{s.Owner.Reg, s.Scope}]
		if inv == nil || s.E != inv.Outs[s.Owner.Out] {
			return fail("C02", "same-instance", s.ViaKind+"/"+formFeature(reg), "%s yielded %v, but scope s%d's instance of r%d.%d is another one", s.Where, s.E, s.Scope, s.Owner.Reg, s.Owner.Out)
		}
	}
	return nil
}

func seqOrConc(a, b *kit.Inv) string {
	if a.Goid != b.Goid {
		return "/concurrent"
	}
	return "/sequential"
}

// ---------- C03 ----------

// checkC03Fresh: no transient instance is observed at two places (the half of C03 that
// holds whether or not every call succeeded).
func (x *run) checkC03Fresh(obs []seen) *Failure {
	vis := x.visibleInvs()
	seenOnce := map[*kit.Entry]string{}
	for _, s := range obs {
		reg := x.M.Regs[s.Owner.Reg]
		if s.E == nil || (s.ByInv != nil && !vis[s.ByInv]) {
			continue
		}
		// judged by who asked (an identity owned by a transient registration) and by who made
		// it (an instance a transient constructor returned, whatever it was handed out as)
		if !(reg.Life == kit.Transient && reg.Form != kit.FormInstance) && !x.madeByTransient(s.E) {
			continue
		}
		if prev, dup := seenOnce[s.E]; dup {
			return fail("C03", "fresh", s.ViaKind+"/"+formFeature(reg)+"/after-fault", "transient instance %v handed out twice: at %s and at %s", s.E, prev, s.Where)
		}
		seenOnce[s.E] = s.Where
	}
	return nil
}

// madeByTransient: the instance was returned by a constructor registered as transient.
func (x *run) madeByTransient(e *kit.Entry) bool {
	if e == nil || e.Inv == nil {
		return false
	}
	r, ok := x.M.Regs[e.Reg]
	return ok && r.Life == kit.Transient && r.Form != kit.FormInstance
}

func (x *run) checkC03(obs []seen) *Failure {
	sites := map[int]int{}
	seenOnce := map[*kit.Entry]string{}
	for _, s := range obs {
		reg := x.M.Regs[s.Owner.Reg]
		if reg.Life != kit.Transient || reg.Form == kit.FormInstance {
			// not a request for a transient - but what a transient constructor made must not
			// turn up here either: that instance belongs to the one site that asked for it
			if s.E != nil && x.madeByTransient(s.E) {
				if prev, dup := seenOnce[s.E]; dup {
					return fail("C03", "fresh", s.ViaKind+"/"+formFeature(reg)+"/handed-out-as-another-service", "transient instance %v handed out twice: at %s and at %s", s.E, prev, s.Where)
				}
				seenOnce[s.E] = s.Where
			}
			continue
		}
		sites[s.Owner.Reg]++
		if s.E == nil && s.Owner.Out < len(reg.Outs) && reg.Outs[s.Owner.Out].Nil {
			continue // an output its constructor always leaves nil: nothing to be fresh
		}
		if s.E == nil {
			return fail("C03", "fresh", "nil", "%s yielded nil", s.Where)
		}
		if prev, dup := seenOnce[s.E]; dup {
			return fail("C03", "fresh", s.ViaKind+"/"+formFeature(reg), "transient instance %v handed out twice: at %s and at %s", s.E, prev, s.Where)
		}
		seenOnce[s.E] = s.Where
	}
	// a direct resolution of an output the constructor leaves nil is a request site too (its value is not judged)
	for _, o := range x.R.Obs {
		if o.Kind == "resolve" && o.Err == nil && o.Panic == nil && o.Ident.Group == "" && x.M.NilOutput(o.Ident) {
			if ow, ok := x.M.Owner(o.Ident); ok && x.M.Regs[ow.Reg].Life == kit.Transient {
				sites[ow.Reg]++
			}
		}
	}
	for _, id := range x.M.Order {
		reg := x.M.Regs[id]
		if reg.Life != kit.Transient || reg.Form == kit.FormInstance || reg.Form == kit.FormVoid {
			continue
		}
		if got := len(x.W.InvsOf(id)); got != sites[id] {
			return fail("C03", "once-per-site", formFeature(reg), "transient r%d (%s): constructor ran %d times for %d request sites", id, reg, got, sites[id])
		}
	}
	return nil
}

// ---------- C04 ----------

func (x *run) checkC04(obs []seen, problems []*Failure) *Failure {
	if len(problems) > 0 {
		return problems[0]
	}
	for _, s := range obs {
		reg := x.M.Regs[s.Owner.Reg]
		if s.E == nil {
			return fail("C04", "right-constructor", "nil/"+formFeature(reg), "%s yielded a nil or foreign value", s.Where)
		}
		if s.E.Reg != s.Owner.Reg || s.E.Out != s.Owner.Out {
			return fail("C04", "right-constructor", s.ViaKind+"/"+formFeature(reg)+fmt.Sprintf("/k%d", reg.Kind), "%s yielded %v, but that identity is provided by output %d of r%d (%s)", s.Where, s.E, s.Owner.Out, s.Owner.Reg, reg)
		}
	}
	if st := x.W.StaleArgs(); len(st) > 0 {
		return fail("C04", "right-argument", "parameter-object-changed-later", "%s", st[0])
	}
	for _, inv := range x.W.AllInvs() {
		for ai, a := range inv.Args {
			if a.Foreign {
				return fail("C04", "right-argument", "foreign", "arg %d of r%d received a value not made by any registered constructor", ai, inv.Reg)
			}
			if a.Dep.Ignored && (a.Present || len(a.Entries) > 0) {
				return fail("C04", "ignored-untouched", "set", "ignored field %d of r%d was populated", ai, inv.Reg)
			}
			if a.Dep.Group != "" && !a.Dep.Ignored && len(a.Entries) == 0 && !a.Present {
				// an empty group must arrive as an empty (non-nil or nil) slice: both have length 0, accepted
				continue
			}
		}
	}
	return nil
}

// ---------- tests ----------

func nontrivialC01(x *run, obs []seen) bool {
	routes := map[int]map[string]bool{}
	for _, s := range obs {
		reg := x.M.Regs[s.Owner.Reg]
		if reg.Life != kit.Singleton {
			continue
		}
		if routes[reg.ID] == nil {
			routes[reg.ID] = map[string]bool{}
		}
		r := s.ViaKind
		if s.Direct && x.R.Scopes[s.Scope] != nil && x.R.Scopes[s.Scope].Depth >= 2 {
			r += "-deep"
		}
		routes[reg.ID][r] = true
		if reg.Form == kit.FormMulti || reg.Form == kit.FormOut || len(reg.As) > 1 {
			routes[reg.ID]["multi-output"] = true
			routes[reg.ID]["multi-output2"] = true
		}
	}
	for _, r := range routes {
		if len(r) >= 2 {
			return true
		}
	}
	return false
}

func nontrivialC02(x *run, obs []seen) bool {
	type rs struct{ reg, scope int }
	cnt := map[rs]map[string]bool{}
	scopesOf := map[int]map[int]bool{}
	for _, s := range obs {
		reg := x.M.Regs[s.Owner.Reg]
		if reg.Life != kit.Scoped {
			continue
		}
		k := rs{reg.ID, s.Scope}
		if cnt[k] == nil {
			cnt[k] = map[string]bool{}
		}
		cnt[k][s.Where] = true
		if scopesOf[reg.ID] == nil {
			scopesOf[reg.ID] = map[int]bool{}
		}
		scopesOf[reg.ID][s.Scope] = true
	}
	for _, c := range cnt {
		if len(c) >= 2 {
			return true
		}
	}
	for _, sc := range scopesOf {
		if len(sc) >= 2 {
			for t := range sc {
				if rec := x.R.Scopes[t]; rec != nil && rec.Depth >= 2 {
					return true
				}
			}
		}
	}
	return false
}

func nontrivialC03(x *run, obs []seen) bool {
	perInv := map[string]int{}
	for _, s := range obs {
		reg := x.M.Regs[s.Owner.Reg]
		if reg.Life != kit.Transient || reg.Form == kit.FormInstance {
			continue
		}
		if s.ViaKind == "group" || s.ViaKind == "arg-group" || s.ViaKind == "key" {
			return true
		}
		if !s.Direct {
			perInv[s.Where[:len(s.Where)]]++
		}
	}
	// a transient injected into a singleton at Build
	for _, inv := range x.W.AllInvs() {
		if x.M.Regs[inv.Reg].Life == kit.Singleton {
			for _, a := range inv.Args {
				for _, tg := range x.M.DepTargets(a.Dep) {
					if x.M.Regs[tg.Reg].Life == kit.Transient {
						return true
					}
				}
			}
		}
		n := 0
		for _, a := range inv.Args {
			for _, tg := range x.M.DepTargets(a.Dep) {
				if x.M.Regs[tg.Reg].Life == kit.Transient {
					n++
				}
			}
		}
		if n >= 2 {
			return true
		}
	}
	return false
}

func nontrivialC04(x *run) bool {
	for i := range x.Cfg.Regs {
		r := &x.Cfg.Regs[i]
		if (r.Form == kit.FormMulti && (r.Group != "" || r.Name != "")) || (len(r.As) > 0 && r.Group != "") || r.Kind != 0 {
			return true
		}
		if r.Form == kit.FormOut {
			for _, o := range r.Outs {
				if o.Group != "" || o.Key != "" {
					return true
				}
			}
		}
		kinds := map[string]bool{}
		for _, d := range r.Deps {
			switch {
			case d.Ignored:
				kinds["ign"] = true
			case d.Group != "":
				kinds["grp"] = true
			case d.Key != "":
				kinds["key"] = true
			case d.Optional:
				kinds["opt"] = true
			}
		}
		if len(kinds) >= 2 {
			return true
		}
	}
	return false
}

type coreCheck struct {
	prop   string
	rule   string
	gen    func() kit.GenOpts
	hist   histOpts
	oracle func(x *run, obs []seen, problems []*Failure) *Failure
	nt     func(x *run, obs []seen) bool
	// faulty: in a third of the cases one later constructor invocation of a non-singleton
	// registration fails (error, panic or nil). What is constructed afterwards is judged by
	// faultOracle - the part of the property that does not depend on every call succeeding.
	faulty      bool
	faultOracle func(x *run, obs []seen) *Failure
	mutate      func(rt *rapid.T, cfg *kit.Config) // optional: additions to the generated configuration
}

func runCore(t *testing.T, c coreCheck, part string) {
	col := evid.New(c.prop, part, c.rule)
	defer col.Flush()
	rapid.Check(t, func(rt *rapid.T) {
		cfg := kit.GenConfig(rt, c.gen())
		if c.mutate != nil {
			c.mutate(rt, cfg)
		}
		x, err := startRun(cfg, nil)
		if err != nil {
			rt.Fatalf("generator produced an invalid configuration: %v", err)
		}
		labels := configLabels(cfg)
		if x.Build.Err != nil || x.Build.Panic != nil {
			// acceptance of buildable sets is C08's business; not judged here
			col.Case(false, cfg.String(), nil, append(labels, "build-failed(not judged here)")...)
			return
		}
		faultPlan := ""
		if c.faulty && rapid.IntRange(0, 1).Draw(rt, "withFault") == 0 {
			var cands []*kit.Reg
			for _, id := range x.M.Order {
				if r := x.M.Regs[id]; r.Life != kit.Singleton && r.Form != kit.FormInstance {
					cands = append(cands, r)
				}
			}
			if len(cands) > 0 {
				r := rapid.SampledFrom(cands).Draw(rt, "faultReg")
				k := x.W.Count[r.ID] + rapid.IntRange(1, 3).Draw(rt, "faultNth")
				flt := faultFor(r, rapid.IntRange(0, 2).Draw(rt, "faultVariant"))
				x.W.Faults[[2]int{r.ID, k}] = flt
				faultPlan = fmt.Sprintf("\nfault: invocation #%d of r%d, kind %d", k, r.ID, flt.Kind)
			}
		}
		x.genHistory(rt, c.hist)
		obs, problems := x.observations()
		canon := x.describe() + faultPlan
		fired := false
		for _, inv := range x.W.AllInvs() {
			if inv.Outcome > 1 {
				fired = true
			}
		}
		var f *Failure
		if fired {
			labels = append(labels, "constructor-fault-fired")
			for _, o := range x.R.Obs {
				if o.Panic != nil {
					f = fail(c.prop, "no-panic", o.Kind, "%s on s%d panicked: %v", o.Kind, o.Scope, o.Panic)
				}
			}
			// only the operation during which the constructor failed may fail: everything
			// else resolves as if nothing had happened
			if f == nil {
				f = x.unexpectedErrorsExceptFaulted(c.prop)
			}
			if f == nil {
				f = c.faultOracle(x, obs)
			}
		} else {
			f = x.unexpectedErrors(c.prop)
			if f != nil && f.Prop != c.prop {
				f = nil // another property's business
			}
			if f == nil {
				f = c.oracle(x, obs, problems)
			}
		}
		if x.Stats.Batches > 0 {
			labels = append(labels, "concurrent-batch")
		}
		if x.Stats.MaxDepth >= 2 {
			labels = append(labels, "nested-scope")
		}
		if f != nil && isKnown(f) {
			col.Excluded()
			col.Case(false, canon, nil, append(labels, "excluded-known:"+f.Oracle+"/"+f.Sig)...)
			return
		}
		col.Case(c.nt(x, obs), canon, canon, labels...)
		if f != nil {
			rt.Fatalf("VIOLATION %s\n%s", f, canon)
		}
	})
}

var seqHist = histOpts{MaxSteps: 25, MaxDepth: 4, Concurrent: false, Unregistered: false, CloseScopes: true}
var concHist = histOpts{MaxSteps: 20, MaxDepth: 4, Concurrent: true, Unregistered: false, CloseScopes: true}

func TestC01Singleton(t *testing.T) {
	runCore(t, coreCheck{
		prop: "C01",
		rule: "buildable configurations mixing all forms (plain/keyed/grouped/aliased, multi-return, result objects, instances, parameter objects) x histories of scope creation (depth<=4), resolution by type/key/group from provider and scopes, scope closes and concurrent resolve batches (2-8 goroutines); non-trivial = one singleton observed through >=2 distinct routes (direct by type/key/group, injected, from a scope of depth>=2) or a multi-output singleton; distinct by (config, history)",
		gen:  kit.FullOpts, hist: concHist,
		oracle: func(x *run, obs []seen, _ []*Failure) *Failure { return x.checkC01(obs) },
		nt:     nontrivialC01,
		// now and then two consumers whose parameter-object types print alike (both declared locally as
		// "params") and ask for different singletons - of different types, or of one type by name and by type
		mutate: func(rt *rapid.T, cfg *kit.Config) {
			if rapid.IntRange(0, 7).Draw(rt, "twins") == 0 {
				kit.PlantTwins(rt, cfg)
			}
		},
	}, "histories")
}

func TestC02Scoped(t *testing.T) {
	runCore(t, coreCheck{
		prop: "C02",
		rule: "same generator as C01, sequential and concurrent-batch histories; oracle per (scoped registration, scope): <=1 successful construction, every observation in that scope is that instance and was born in that scope; initializer functions run exactly once per created scope during its creation; non-trivial = a scoped service reached >=2 times in one scope by different routes or in >=2 scopes one of which is nested",
		gen:  kit.FullOpts, hist: concHist,
		oracle: func(x *run, obs []seen, _ []*Failure) *Failure { return x.checkC02(obs) },
		nt:     nontrivialC02,
		// "a failed construction yields no instance and may be retried": with one failing
		// constructor somewhere the per-scope rule holds all the same
		faulty:      true,
		faultOracle: func(x *run, obs []seen) *Failure { return x.checkC02(obs) },
		// now and then a long-lived service is given a dependency (plain, keyed, through a group,
		// optional) on a scoped one: Build has to refuse that - when it does not, whatever the
		// singleton was built with is one scoped instance that every scope sees
		mutate: func(rt *rapid.T, cfg *kit.Config) {
			if rapid.IntRange(0, 5).Draw(rt, "plantCaptive") == 0 {
				kit.PlantCaptive(rt, cfg)
			}
		},
	}, "histories")
}

func TestC03Transient(t *testing.T) {
	runCore(t, coreCheck{
		prop: "C03",
		rule: "configurations rich in transients (consumed by singletons at Build, by scoped services, by other transients, several times by one constructor, keyed, in groups) x sequential histories; oracle: constructor invocations == request sites counted from the ledger, and no transient instance observed twice; non-trivial = a transient requested from >=2 sites of one invocation, through a group/key, or by a singleton at Build",
		gen: func() kit.GenOpts {
			o := kit.FullOpts()
			o.Lifetimes = []int{kit.Singleton, kit.Scoped, kit.Transient, kit.Transient, kit.Transient}
			return o
		},
		hist:   seqHist,
		oracle: func(x *run, obs []seen, _ []*Failure) *Failure { return x.checkC03(obs) },
		nt:     nontrivialC03,
		// after a failed construction: still no transient instance at two places
		faulty:      true,
		faultOracle: func(x *run, obs []seen) *Failure { return x.checkC03Fresh(obs) },
		// now and then a group in which a transient member is followed by a member that is always nil
		mutate: func(rt *rapid.T, cfg *kit.Config) {
			if rapid.IntRange(0, 5).Draw(rt, "nilMember") == 0 {
				kit.PlantNilMember(rt, cfg)
			}
		},
	}, "histories")
}

func TestC04Wiring(t *testing.T) {
	h := seqHist
	h.Unregistered = true
	runCore(t, coreCheck{
		prop: "C04",
		rule: "registration sets from every supported form x option combination with reflect.MakeFunc constructors (shared code pointer) and parameter objects carrying name/optional/group/ignore tags; resolves every kind of identity incl. unregistered near-misses; oracle: each observed value was made by the constructor output the model owns that identity with, arguments match declared (type,key), groups in registration order, optional set iff registered, ignored untouched, unregistered => service-not-found; non-trivial = combination form present (multi+group, alias+group, result-object tags) or a parameter object with >=2 tag kinds",
		gen:  kit.FullOpts, hist: h,
		oracle: func(x *run, obs []seen, problems []*Failure) *Failure { return x.checkC04(obs, problems) },
		nt:     func(x *run, _ []seen) bool { return nontrivialC04(x) },
		// now and then two constructors whose parameter-object types are different types with one printed name
		mutate: func(rt *rapid.T, cfg *kit.Config) {
			if rapid.IntRange(0, 7).Draw(rt, "twins") == 0 {
				kit.PlantTwins(rt, cfg)
			}
		},
	}, "histories")
}

// TestC04Kinds: constructors of every function-value kind, many sharing a
// signature and a code pointer, each must produce exactly its own services.
func TestC04Kinds(t *testing.T) {
	col := evid.New("C04", "function-value-kinds", "configurations made only of plain constructors of four function-value kinds - reflect.MakeFunc, closures created by one noinline generic factory, method values bound to different receivers, instantiations of generic top-level functions - 2-12 of them with identical signatures (same code pointer, different function value) registered under distinct names, with 0-1 dependency, all lifetimes; every identity is resolved from the provider and two scopes; oracle = C04 provenance (each value made by exactly the registered function value, arguments from the right registration) plus C01 counts; non-trivial = >=2 registrations share kind and signature")
	defer col.Flush()
	rapid.Check(t, func(rt *rapid.T) {
		cfg := kit.GenKindsConfig(rt)
		x, err := startRun(cfg, nil)
		if err != nil {
			rt.Fatalf("invalid config: %v", err)
		}
		canon := cfg.String()
		share := map[string]int{}
		nt := false
		for i := range cfg.Regs {
			r := &cfg.Regs[i]
			k := fmt.Sprintf("%d/%d/%v/%v", r.Kind, r.Outs[0].T, r.Deps, r.HasErr)
			share[k]++
			if share[k] >= 2 {
				nt = true
			}
		}
		labels := []string{}
		for i := range cfg.Regs {
			labels = append(labels, fmt.Sprintf("kind:%d", cfg.Regs[i].Kind))
		}
		col.Case(nt, canon, canon, dedup(labels)...)
		if x.Build.Err != nil || x.Build.Panic != nil {
			rt.Fatalf("VIOLATION C04/builds [kinds]: Build failed for a valid set of constructors: %v %v\n%s", firstLine(x.Build.Err), x.Build.Panic, canon)
		}
		x.exec(Op{Kind: "create", Scope: 0, Ctx: 1})
		x.exec(Op{Kind: "create", Scope: 0, Ctx: 0})
		for _, id := range x.M.AllIdents() {
			for tag := 0; tag <= 2; tag++ {
				x.exec(Op{Kind: "get", Scope: tag, Ident: id})
			}
		}
		x.exec(Op{Kind: "pclose"})
		obs, problems := x.observations()
		f := x.unexpectedErrors("C04")
		if f == nil {
			f = x.checkC04(obs, problems)
		}
		if f == nil {
			if g := x.checkC01(obs); g != nil {
				f = fail("C04", "right-constructor", "via-C01/"+g.Sig, "%s", g.Msg)
			}
		}
		if f == nil {
			if g := x.checkC02(obs); g != nil {
				f = fail("C04", "right-constructor", "via-C02/"+g.Sig, "%s", g.Msg)
			}
		}
		if f != nil {
			if isKnown(f) {
				col.Excluded()
				return
			}
			rt.Fatalf("VIOLATION %s\n%s", f, canon)
		}
	})
}

// TestC04AliasShapes: "services registered under interface aliases ... are
// resolvable under exactly those identities". Whatever shape the aliased
// service has - a constructor returning a pointer, a constructor returning a
// struct by value, an instance value - a registration that is accepted must be
// resolvable under each alias; a shape that cannot be served (a struct value of
// which only the pointer has the interface's methods) has to be refused when it
// is registered, not when somebody asks for it.
type aliasOut struct {
	godi.Out
	A *kit.N0
}

func TestC04AliasShapes(t *testing.T) {
	col := evid.New("C04", "alias-shapes", "one registration with 1-2 interface aliases (godi.As), optionally named or grouped, of every lifetime, whose service is a constructor returning a pointer / a struct by value whose value type implements the interfaces / a struct by value of which only the pointer implements them, or an instance of those; oracle: the registration is rejected, or Build succeeds and every alias identity resolves (from the provider and from a scope, through Get* and the typed helpers) to a non-nil value of the interface type; non-trivial = a by-value shape")
	defer col.Flush()
	rapid.Check(t, func(rt *rapid.T) {
		shape := rapid.IntRange(0, 7).Draw(rt, "shape")
		var svc any
		names := []string{"ctor-pointer", "ctor-value-implements", "ctor-value-pointer-implements", "instance-pointer", "instance-value-implements", "instance-value-pointer-implements", "ctor-multi-return", "ctor-result-object"}
		switch shape {
		case 0:
			svc = func() *kit.N0 { return &kit.N0{} }
		case 1:
			svc = func() kit.N4 { return kit.N4{B: &kit.Base{}} }
		case 2:
			svc = func() valSvc { return valSvc{} }
		case 3:
			svc = &kit.N0{}
		case 4:
			svc = kit.N4{B: &kit.Base{}}
		case 5:
			svc = valSvc{}
		case 6:
			// several services from one constructor: an option that names "the value" is either
			// applied (the alias resolves) or refused - not dropped
			svc = func() (*kit.N0, *kit.N1) { return &kit.N0{}, &kit.N1{} }
		case 7:
			svc = func() aliasOut { return aliasOut{A: &kit.N0{}} }
		}
		life := rapid.IntRange(0, 2).Draw(rt, "life")
		opts := []godi.AddOption{godi.As[kit.I0]()}
		two := rapid.Bool().Draw(rt, "twoAliases")
		if two {
			opts = append(opts, godi.As[kit.I1]())
		}
		key, group := "", ""
		switch rapid.IntRange(0, 2).Draw(rt, "ident") {
		case 1:
			key = "a"
			opts = append(opts, godi.Name(key))
		case 2:
			group = "g"
			opts = append(opts, godi.Group(group))
		}
		canon := fmt.Sprintf("%s life=%d aliases=%d key=%q group=%q", names[shape], life, len(opts), key, group)
		col.Case(shape != 0 && shape != 3, canon, canon, "shape:"+names[shape])
		c := godi.NewCollection()
		var err error
		switch life {
		case 0:
			err = c.AddSingleton(svc, opts...)
		case 1:
			err = c.AddScoped(svc, opts...)
		default:
			err = c.AddTransient(svc, opts...)
		}
		if err != nil {
			return // refused at registration: nothing is registered, nothing to resolve
		}
		p, err := c.Build()
		if err != nil {
			rt.Fatalf("VIOLATION C04/identity-resolvable [alias-shape/build]: the registration was accepted but Build fails: %v\n%s", firstLine(err), canon)
		}
		defer p.Close()
		sc, err := p.CreateScope(context.Background())
		if err != nil {
			rt.Fatalf("CreateScope: %v", err)
		}
		defer sc.Close()
		for _, tgt := range []godi.Provider{p, sc} {
			var v any
			var rerr error
			switch {
			case group != "":
				var vs []kit.I0
				vs, rerr = godi.ResolveGroup[kit.I0](tgt, group)
				if rerr == nil && len(vs) == 1 {
					v = vs[0]
				}
			case key != "":
				v, rerr = godi.ResolveKeyed[kit.I0](tgt, key)
			default:
				v, rerr = godi.Resolve[kit.I0](tgt)
			}
			if rerr != nil || v == nil {
				rt.Fatalf("VIOLATION C04/identity-resolvable [alias-shape/%s]: registered under the alias I0 (accepted, built), but resolving I0 yields %v, %v\n%s", names[shape], v, firstLine(rerr), canon)
			}
			if two && group == "" && key == "" {
				if v1, e1 := godi.Resolve[kit.I1](tgt); e1 != nil || v1 == nil {
					rt.Fatalf("VIOLATION C04/identity-resolvable [alias-shape/%s/second]: resolving the second alias I1 yields %v, %v\n%s", names[shape], v1, firstLine(e1), canon)
				}
			}
		}
	})
}

// TestC01Hammer: the steady state of a server - many goroutines ask one
// provider for its singletons over and over, from the provider and from their
// request scopes. Every answer is the one instance of the identity asked for.
func TestC01Hammer(t *testing.T) {
	col := evid.New("C01", "many-readers", "singleton-rich buildable configurations; 2 scopes; 4-8 free-running goroutines each resolve a generated list of 2-6 singleton identities (by type, key or group; from the provider or a scope) 150 times over, then everything is resolved once more sequentially; oracle = the C01 ledger oracle on every answer (the value returned is the one instance the owning registration made, each constructor ran once) and no error on a registered identity; non-trivial = >=3 distinct singleton identities were contended")
	defer col.Flush()
	rapid.Check(t, func(rt *rapid.T) {
		o := kit.FullOpts()
		o.MinRegs = 3
		o.Lifetimes = []int{kit.Singleton, kit.Singleton, kit.Singleton, kit.Scoped, kit.Transient}
		cfg := kit.GenConfig(rt, o)
		x, err := startRun(cfg, nil)
		if err != nil {
			rt.Fatal(err)
		}
		if x.Build.Err != nil || x.Build.Panic != nil {
			col.Case(false, cfg.String(), nil, "build-failed(not judged here)")
			return
		}
		var ids []kit.Ident
		for _, id := range noVoid(identPool(x.M, false)) {
			if id.Group != "" {
				all := len(x.M.Members(id.T, id.Group)) > 0
				for _, ow := range x.M.Members(id.T, id.Group) {
					if x.M.Regs[ow.Reg].Life != kit.Singleton {
						all = false
					}
				}
				if all {
					ids = append(ids, id)
				}
			} else if ow, ok := x.M.Owner(id); ok && x.M.Regs[ow.Reg].Life == kit.Singleton && !x.M.NilOutput(id) {
				ids = append(ids, id)
			}
		}
		if len(ids) < 2 {
			col.Case(false, cfg.String(), nil, "fewer-than-2-singleton-identities")
			return
		}
		x.exec(Op{Kind: "create", Scope: 0, Ctx: 0})
		x.exec(Op{Kind: "create", Scope: 0, Ctx: 1})
		live := x.R.LiveScopes()
		n := rapid.IntRange(4, 8).Draw(rt, "goroutines")
		jobs := make([][]batchJob, n)
		used := map[kit.Ident]bool{}
		for g := range jobs {
			var own []batchJob
			for j := rapid.IntRange(2, 6).Draw(rt, "jobs"); j > 0; j-- {
				id := rapid.SampledFrom(ids).Draw(rt, "id")
				used[id] = true
				own = append(own, batchJob{rapid.SampledFrom(live).Draw(rt, "tag"), id})
			}
			for rep := 0; rep < 150; rep++ {
				jobs[g] = append(jobs[g], own...)
			}
		}
		x.exec(Op{Kind: "batch", Jobs: jobs})
		for _, id := range ids {
			for _, tag := range live {
				x.R.Resolve(tag, id)
			}
		}
		x.R.CloseProvider()
		canon := fmt.Sprintf("%s || %d goroutines x 150 rounds over %d singleton identities", cfg, n, len(used))
		col.Case(len(used) >= 3, canon, canon, fmt.Sprintf("identities=%d", min(len(used), 6)))
		obs, _ := x.observations()
		f := x.unexpectedErrors("C01")
		if f != nil && f.Prop != "C01" {
			f = nil
		}
		if f == nil {
			f = x.checkC01(obs)
		}
		if f != nil {
			if isKnown(f) {
				col.Excluded()
				return
			}
			rt.Fatalf("VIOLATION %s\n%s", f, canon)
		}
	})
}

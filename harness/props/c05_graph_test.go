package props

import (
	"fmt"
	"testing"

	"verif/evid"

	"pgregory.net/rapid"
)

// adjacency bit i*n+j set <=> edge i->j (i depends on j)
func adjDeps(n int, bits uint32, v int) []int {
	var d []int
	for j := 0; j < n; j++ {
		if bits&(1<<uint(v*n+j)) != 0 {
			d = append(d, j)
		}
	}
	return d
}

func permutations(n int) [][]int {
	var res [][]int
	var rec func(cur []int, used uint)
	rec = func(cur []int, used uint) {
		if len(cur) == n {
			res = append(res, append([]int(nil), cur...))
			return
		}
		for i := 0; i < n; i++ {
			if used&(1<<uint(i)) == 0 {
				rec(append(cur, i), used|1<<uint(i))
			}
		}
	}
	rec(nil, 0)
	return res
}

// runDigraph drives one digraph through the real graph in the given mode and
// insertion order and checks verdict, path and (if acyclic) all queries.
func runDigraph(n int, deps func(v int) []int, order []int, deferred bool) (cyclic bool, err error) {
	s := newGSys(n)
	if deferred {
		for _, v := range order {
			if e := s.addDeferred(v, deps(v)); e != nil {
				return false, e
			}
		}
		if e := s.detect(); e != nil {
			return s.m.Cyclic(), e
		}
		cyclic = s.m.Cyclic()
		// a second call answers from the cache and must agree
		if e := s.detect(); e != nil {
			return cyclic, fmt.Errorf("second DetectCycles: %w", e)
		}
	} else {
		for _, v := range order {
			if _, e := s.addImmediate(v, deps(v)); e != nil {
				return false, e
			}
			// the question "is there a cycle" is asked of every intermediate
			// graph too, also right after an add that was rejected
			if e := s.detect(); e != nil {
				return false, fmt.Errorf("after AddProvider(%d): %w", v, e)
			}
		}
		cyclic = s.m.Cyclic()
		if cyclic {
			return cyclic, fmt.Errorf("immediate adds produced a cyclic graph: %s", s.m)
		}
	}
	if e := s.checkQueries(); e != nil {
		return cyclic, e
	}
	return cyclic, nil
}

// interesting: cycle of length>=2 avoiding node 0, or acyclic with a diamond.
func digraphNontrivial(n int, deps func(v int) []int) (bool, string) {
	m := newGSys(n).m
	for v := 0; v < n; v++ {
		m.Add(v, deps(v), v+1)
	}
	if m.Cyclic() {
		for v := 1; v < n; v++ {
			if m.OnCycle(v) && !m.IsEdge(v, v) {
				// is there a cycle through v that avoids 0? remove 0 and re-test
				c := m.Clone()
				c.Remove(0)
				if c.OnCycle(v) {
					return true, "cycle>=2-avoiding-node0"
				}
			}
		}
		return false, "cyclic-other"
	}
	// diamond: two distinct paths u ~> w
	for u := 0; u < n; u++ {
		cnt := make([]int, n)
		var walk func(x int)
		walk = func(x int) {
			for _, y := range m.Out[x] {
				cnt[y]++
				walk(y)
			}
		}
		walk(u)
		for _, c := range cnt {
			if c >= 2 {
				return true, "acyclic-reconvergent"
			}
		}
	}
	return false, "acyclic-tree"
}

func TestC05GraphExhaustive(t *testing.T) {
	maxN := 3
	sample4 := 20000
	if thorough() {
		maxN, sample4 = 4, 0
	}
	col := evid.New("C05", "graph-exhaustive", fmt.Sprintf("every digraph on 1..%d nodes incl. self-loops (adjacency-matrix enumeration), each inserted once with immediate AddProvider calls and once with AddProviderDeferred+DetectCycles; verdict compared with transitive closure AND Tarjan, reported path validated edge by edge; non-trivial = has a cycle of length>=2 avoiding node 0, or is acyclic with re-convergent paths", maxN))
	col.Exhaust = true
	defer col.Flush()
	si, sn := shardInfo()
	run := func(n int, bits uint32) bool {
		deps := func(v int) []int { return adjDeps(n, bits, v) }
		order := make([]int, n)
		for i := range order {
			order[i] = i
		}
		nt, lab := digraphNontrivial(n, deps)
		for _, deferred := range []bool{true, false} {
			if !deferred {
				// vary the insertion order with the graph so that all orders get exercised
				order = permutations(n)[int(bits)%len(permutations(n))]
			}
			_, err := runDigraph(n, deps, order, deferred)
			col.Case(nt, fmt.Sprintf("n=%d adj=%#x deferred=%v", n, bits, deferred), nil, lab)
			if err != nil {
				evid.Violation("C05", "graph-exhaustive", map[string]any{"n": n, "adj_bits": bits, "deferred": deferred, "order": order, "error": err.Error()})
				t.Errorf("n=%d adj=%#x deferred=%v order=%v: %v", n, bits, deferred, order, err)
				return false
			}
		}
		return true
	}
	for n := 1; n <= maxN; n++ {
		total := uint32(1) << uint(n*n)
		for bits := uint32(0); bits < total; bits++ {
			if int(bits)%sn != si {
				continue
			}
			if !run(n, bits) {
				return
			}
		}
	}
	if sample4 > 0 {
		col.Exhaust = false
		col.Note(fmt.Sprintf("quick tier: exhaustive up to 3 nodes, plus %d sampled 4-node digraphs (thorough enumerates all 65536)", sample4))
		rapid.Check(t, func(rt *rapid.T) {
			bits := rapid.Uint32Range(0, 1<<16-1).Draw(rt, "adj")
			if !run(4, bits) {
				rt.Fatalf("4-node digraph %#x failed", bits)
			}
		})
	}
}

func TestC05GraphRandom(t *testing.T) {
	col := evid.New("C05", "graph-random", "random digraphs on 5..14 nodes over keyed/grouped identities, edge density swept 5%..60%, duplicate edges and self-loops allowed, both insertion modes and random insertion orders; same oracle as the exhaustive part")
	defer col.Flush()
	rapid.Check(t, func(rt *rapid.T) {
		n := rapid.IntRange(5, 14).Draw(rt, "n")
		density := rapid.IntRange(5, 60).Draw(rt, "density")
		depsOf := make([][]int, n)
		for v := 0; v < n; v++ {
			for w := 0; w < n; w++ {
				if rapid.IntRange(0, 99).Draw(rt, "e") < density {
					depsOf[v] = append(depsOf[v], w)
					if rapid.IntRange(0, 9).Draw(rt, "dup") == 0 {
						depsOf[v] = append(depsOf[v], w)
					}
				}
			}
		}
		order := rapid.Permutation(seq(n)).Draw(rt, "order")
		deferred := rapid.Bool().Draw(rt, "deferred")
		deps := func(v int) []int { return depsOf[v] }
		nt, lab := digraphNontrivial(n, deps)
		col.Case(nt, fmt.Sprint(n, depsOf, order, deferred), fmt.Sprintf("n=%d deps=%v order=%v deferred=%v", n, depsOf, order, deferred), lab)
		if _, err := runDigraph(n, deps, order, deferred); err != nil {
			rt.Fatalf("n=%d deps=%v order=%v deferred=%v: %v", n, depsOf, order, deferred, err)
		}
	})
}

func seq(n int) []int {
	s := make([]int, n)
	for i := range s {
		s[i] = i
	}
	return s
}

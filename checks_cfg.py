# Per-property configuration of ./check. 'run' is the -test.run regexp; the
# tiers give rapid case counts, t.Repeat step budgets, shard counts and the
# go test deadline (hitting it is "inconclusive", exit 2, never a violation).
CHECKS = {
    "C19": {
        "run": "^TestC19",
        "level": "exploration",
        "technique": "model-based stateful PBT (rapid) + bounded-exhaustive sequence enumeration against a plain digraph",
        "level_text": "Random mutation/query sequences over a small identity pool and ALL sequences of <=2 (quick) / <=3 (thorough) mutations over 3 identities are replayed on the real graph and on a plain reference digraph; every public query is compared after each step, including exact roll-back of rejected adds and cache freshness. Exploration: finds divergences, does not prove their absence beyond the enumerated bound.",
        "level_note": "Trusted: the 100-line reference digraph (two independent cycle tests cross-checked), the build-tagged alias package verifhooks. Degree-based queries are compared only when no deferred add is pending.",
        "quick": {"checks": 4000, "shards": 1, "timeout": 300},
        "thorough": {"checks": 60000, "shards": 16, "timeout": 1500},
        "assumptions": [
            "degree-based queries (dependents, in/out degree, roots, leaves, topological order) are compared only when no deferred add is pending, as the API documents",
            "an immediate add into a graph that already contains a cycle elsewhere may be accepted or rejected when the new node merely reaches that cycle",
        ],
    },
}

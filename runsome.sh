#!/bin/sh
# usage: runsome.sh <quick|thorough> <seed> <ID>... ; one line per check (like runall.sh, for a chosen list)
tier=$1; seed=$2; shift 2
cd "$(dirname "$0")"
for id in "$@"; do
  out=$(VERIF_SEED=$seed ./check $id $tier 2>&1); rc=$?
  echo "seed=$seed $id rc=$rc $(echo "$out" | tail -1 | cut -c1-200)"
  [ $rc -ne 0 ] && echo "$out" | tail -40
done

#!/bin/bash
# usage: seedcheck.sh [tier] <seed-id>...   (default tier quick; no ids = all)
# applies seeded/<id>/patch.diff to /repo, runs the check of the property it breaks, restores /repo.
[ -z "$VERIF_NOLOCK" ] && exec env VERIF_NOLOCK=1 VERIF_SCRATCH=/tmp/verif-scratch flock -x /tmp/.verif-repo.lock "$0" "$@"
tier=quick; case "$1" in quick|thorough) tier=$1; shift;; esac
cd "$(dirname "$0")"
ids=${@:-$(ls seeded | grep '^S-\|^R[2-9]-')}
for sid in $ids; do
  prop=$(python3 -c "import json;print(json.load(open('seeded/$sid/meta.json'))['breaks_property'])")
  git -C /repo diff --quiet || { echo "/repo dirty"; exit 2; }
  git -C /repo apply "$PWD/seeded/$sid/patch.diff" || { echo "$sid: patch does not apply"; continue; }
  out=$(cd ${VERIF_ROOT:-.} && ./check $prop $tier 2>&1); rc=$?
  git -C /repo checkout -- .
  echo "$sid $prop $tier rc=$rc $(echo "$out" | grep -m1 -o 'VIOLATION C[0-9]*/[^:]*' | head -1)"
done

#!/bin/bash
# usage: seedcheck.sh [quick|thorough] [-j N] <seed-id>...   (default tier quick, 4 at a time; no ids = all)
# For each seed: a scratch worktree of /repo HEAD with seeded/<id>/patch.diff applied, the check of the property it
# breaks built against that worktree (VERIF_REPO), one result line. /repo itself is never patched.
tier=quick; jobs=4
while :; do case "$1" in quick|thorough) tier=$1; shift;; -j) jobs=$2; shift 2;; *) break;; esac; done
cd "$(dirname "$0")"; root=$PWD
ids=${@:-$(ls seeded | grep '^S-\|^R[2-9]-')}
one() {
  sid=$1; tier=$2; root=$3
  prop=$(python3 -c "import json;print(json.load(open('$root/seeded/$sid/meta.json'))['breaks_property'])")
  wt=/tmp/verif-seedcheck/$sid; rm -rf "$wt"; mkdir -p /tmp/verif-seedcheck
  for i in 1 2 3 4 5; do git -C /repo worktree add -q --detach "$wt" HEAD 2>/dev/null && break; sleep 1; done
  [ -d "$wt" ] || { echo "$sid $prop $tier worktree-failed"; return; }
  if ( cd "$wt" && git apply "$root/seeded/$sid/patch.diff" 2>/dev/null ); then
    out=$(cd "${VERIF_ROOT:-$root}" && VERIF_REPO=$wt VERIF_NOLOCK=1 VERIF_SCRATCH=/tmp/verif-scratch/$sid VERIF_JOBS=${VERIF_JOBS:-5} ./check $prop $tier 2>&1); rc=$?
    echo "$sid $prop $tier rc=$rc $(echo "$out" | grep -m1 -o 'VIOLATION C[0-9]*/[^:]*' | head -1)"
  else
    echo "$sid $prop $tier patch-does-not-apply"
  fi
  git -C /repo worktree remove --force "$wt" 2>/dev/null
}
export -f one
printf '%s\n' $ids | xargs -P "$jobs" -I{} bash -c "one {} $tier $root"

package props

import "reflect"

func reflectTypeOfProbe() reflect.Type { return reflect.TypeOf((*Probe)(nil)) }

package props

import (
	"context"
	"errors"
	"fmt"
	"io"
	"log/slog"
	"net/http"
	"net/http/httptest"
	"strings"
	"sync"
	"sync/atomic"
	"testing"
	"time"

	"verif/evid"

	"github.com/gin-gonic/gin"
	"github.com/gofiber/fiber/v2"
	"github.com/junioryono/godi/v4"
	godichi "github.com/junioryono/godi/v4/chi"
	godiecho "github.com/junioryono/godi/v4/echo"
	godifiber "github.com/junioryono/godi/v4/fiber"
	godigin "github.com/junioryono/godi/v4/gin"
	godihttp "github.com/junioryono/godi/v4/http"
	"github.com/labstack/echo/v4"
	"pgregory.net/rapid"
)

func init() {
	slog.SetDefault(slog.New(slog.NewTextHandler(io.Discard, nil)))
	gin.SetMode(gin.ReleaseMode)
}

// ---- services resolved inside requests ----

type reqKey struct{}

// Probe is a scoped disposable: it remembers the scope it was made in and counts Close calls.
type Probe struct {
	Scope  godi.Scope
	Req    string
	closes atomic.Int32
	pad    int
}

func (p *Probe) Close() error { p.closes.Add(1); return nil }

// Ctl is the controller resolved by the Handle wrappers.
type Ctl struct {
	P *Probe
	S godi.Scope
}

// Unregistered is never registered: Handle[*Unregistered] must hit the resolution error handler.
type Unregistered struct{ _ int }

// ---- per-request plan and log ----

type plan struct {
	ID       string
	Exit     string // ok, mw-err, handler-err, handler-panic, scope-fail
	MwFailAt int
	MwWrites bool // mw-err: the failing middleware has answered the request itself (status 401) before it returns its error
	PanicVal int  // handler-panic: what the handler panics with (see panicValue)
	// MwErrKind (mw-err): 0 a plain error; 1 an error of the framework's own error type (fiber.ErrUnauthorized,
	// echo.NewHTTPError, *gin.Error) - what an authentication step written for that framework returns; 2 the same wrapped with %w
	MwErrKind int
}

// panicValue: handlers do not only panic with strings. http.ErrAbortHandler is the documented
// way to abort a response in net/http (httputil.ReverseProxy raises it); frameworks and
// middlewares tend to give it special treatment.
func panicValue(kind int, id string) any {
	switch kind {
	case 1:
		return http.ErrAbortHandler
	case 2:
		return fmt.Errorf("handler panic %s", id)
	case 3:
		return struct{ Code int }{500}
	}
	return "handler panic " + id
}

type reqLog struct {
	mu         sync.Mutex
	Events     []string
	Scopes     map[string]godi.Scope
	Probes     []*Probe
	ErrH       int
	ScopeErrH  int
	ResErrH    int
	PanicH     int
	Decoy      int // callbacks configured for ANOTHER Handle wrapper that ran for this request
	CloseErrH  int
	HandlerRan bool
	CtlRan     bool
	Escaped    any
	Status     int
	// GoneBeforeHandler: a middleware saw the scope report disposed (the request's context had been cancelled)
	GoneBeforeHandler bool
}

func (l *reqLog) ev(s string) { l.mu.Lock(); l.Events = append(l.Events, s); l.mu.Unlock() }
func (l *reqLog) sawScope(who string, s godi.Scope) {
	l.mu.Lock()
	if l.Scopes == nil {
		l.Scopes = map[string]godi.Scope{}
	}
	l.Scopes[who] = s
	l.mu.Unlock()
}

type webWorld struct {
	plans sync.Map // id -> *plan
	logs  sync.Map // id -> *reqLog
}

func (w *webWorld) plan(id string) *plan {
	if v, ok := w.plans.Load(id); ok {
		return v.(*plan)
	}
	return &plan{ID: id, Exit: "ok"}
}
func (w *webWorld) log(id string) *reqLog {
	v, _ := w.logs.LoadOrStore(id, &reqLog{})
	return v.(*reqLog)
}

// appCfg is the generated configuration of one application.
type appCfg struct {
	Framework     string
	NMw           int
	CustomErr     bool
	CustomClose   bool
	UseHandle     bool
	Recovery      bool
	CustomHandle  bool // custom scope/resolution/panic handlers on Handle
	CtlRegistered bool // false: Handle resolves a type nobody registered
	NoScopeMW     bool // Handle mounted without the scope middleware
	HasInit       bool // an initializer function exists (needed for scope-fail)
	Decoy         bool // a second Handle wrapper with the opposite options is built afterwards (its route is never requested)
	NilHandlers   bool // handlers that are not customised are passed as nil explicitly (WithErrorHandler(nil)): documented as "the default is used"
	ErrHPassive   bool // the custom error handler only answers the request; it does not tell the framework to stop (gin: no Abort)
	// Fallback (gin, echo, fiber): the handler is not mounted on the route the requests ask for but as
	// what the framework runs for requests no route matches - 1: the not-found handler (gin NoRoute,
	// echo RouteNotFound, fiber: a trailing app.Use), 2 (gin): the method-not-allowed handler.
	// Such requests pass the engine-level scope middleware like any other.
	Fallback int
}

func (c appCfg) String() string {
	return fmt.Sprintf("fallback=%d ", c.Fallback) + fmt.Sprintf("%s mw=%d customErr=%v(passive=%v) nilHandlers=%v customClose=%v handle=%v recovery=%v customHandle=%v ctl=%v noScopeMW=%v init=%v decoy=%v",
		c.Framework, c.NMw, c.CustomErr, c.ErrHPassive, c.NilHandlers, c.CustomClose, c.UseHandle, c.Recovery, c.CustomHandle, c.CtlRegistered, c.NoScopeMW, c.HasInit, c.Decoy)
}

func buildProvider(w *webWorld, cfg appCfg) (godi.Provider, error) {
	c := godi.NewCollection()
	if err := c.AddScoped(func(ctx context.Context, s godi.Scope) *Probe {
		id, _ := ctx.Value(reqKey{}).(string)
		p := &Probe{Scope: s, Req: id}
		l := w.log(id)
		l.mu.Lock()
		l.Probes = append(l.Probes, p)
		l.mu.Unlock()
		return p
	}); err != nil {
		return nil, err
	}
	if cfg.CtlRegistered {
		if err := c.AddScoped(func(p *Probe, s godi.Scope) *Ctl { return &Ctl{P: p, S: s} }); err != nil {
			return nil, err
		}
	}
	if cfg.HasInit {
		if err := c.AddScoped(func(ctx context.Context, p *Probe) error {
			id, _ := ctx.Value(reqKey{}).(string)
			if id == "" {
				return nil // root scope at Build
			}
			w.log(id).ev("init")
			if w.plan(id).Exit == "scope-fail" {
				return errors.New("initializer failed")
			}
			return nil
		}); err != nil {
			return nil, err
		}
	}
	return c.Build()
}

// callbacks shared by all adapters
func (w *webWorld) onMiddleware(i int, s godi.Scope, id string) error {
	l := w.log(id)
	l.ev(fmt.Sprintf("mw%d", i))
	l.sawScope(fmt.Sprintf("mw%d", i), s)
	_, _ = godi.Resolve[*Probe](s)
	if p := w.plan(id); p.Exit == "mw-err" && p.MwFailAt == i {
		return fmt.Errorf("middleware %d failed", i)
	}
	if p := w.plan(id); p.Exit == "scope-gone" && p.MwFailAt == i {
		// the client goes away while the middlewares run: the request's context is cancelled and
		// its scope is closed (by the scope's context watcher) before the handler is reached
		w.scopeGone(id, s)
	}
	return nil
}

// scopeGone cancels the request's context and waits (bounded) until the scope reports disposed.
func (w *webWorld) scopeGone(id string, sc godi.Scope) bool {
	if c, ok := cancels.Load(id); ok {
		c.(context.CancelFunc)()
	}
	deadline := time.Now().Add(5 * time.Second)
	for time.Now().Before(deadline) {
		if _, err := sc.Get(probeType); errors.Is(err, godi.ErrScopeDisposed) {
			l := w.log(id)
			l.mu.Lock()
			l.GoneBeforeHandler = true
			l.mu.Unlock()
			return true
		}
		time.Sleep(50 * time.Microsecond)
	}
	return false
}

// mwWrites reports whether the request's failing middleware answers the request
// itself before returning its error (only adapters whose middleware signature
// gives access to the response can do that: gin, echo, fiber).
func (w *webWorld) mwWrites(id string, i int) bool {
	p := w.plan(id)
	return p.Exit == "mw-err" && p.MwFailAt == i && p.MwWrites
}

// onHandler is the body of a plain handler; returns the error to return.
func (w *webWorld) onHandler(id string, ctx context.Context, sc godi.Scope) error {
	l := w.log(id)
	l.ev("handler")
	l.mu.Lock()
	l.HandlerRan = true
	l.mu.Unlock()
	if sc == nil && ctx != nil {
		sc, _ = godi.FromContext(ctx)
	}
	if sc != nil {
		l.sawScope("handler", sc)
		_, _ = godi.Resolve[*Probe](sc)
	}
	switch w.plan(id).Exit {
	case "handler-err":
		return errors.New("handler failed")
	case "handler-panic":
		panic(panicValue(w.plan(id).PanicVal, id))
	case "client-gone":
		clientGone(id, sc)
	}
	return nil
}

func (w *webWorld) onCtl(id string, ctl *Ctl) error {
	l := w.log(id)
	l.ev("ctl")
	l.mu.Lock()
	l.CtlRan = true
	l.HandlerRan = true
	l.mu.Unlock()
	if ctl != nil {
		l.sawScope("ctl", ctl.S)
	}
	switch w.plan(id).Exit {
	case "handler-err":
		return errors.New("handler failed")
	case "handler-panic":
		panic(panicValue(w.plan(id).PanicVal, id))
	case "client-gone":
		if ctl != nil {
			clientGone(id, ctl.S)
		}
	}
	return nil
}

func (w *webWorld) count(id, what string) {
	l := w.log(id)
	l.ev(what)
	l.mu.Lock()
	switch what {
	case "errH":
		l.ErrH++
	case "scopeErrH":
		l.ScopeErrH++
	case "resErrH":
		l.ResErrH++
	case "panicH":
		l.PanicH++
	case "decoy":
		l.Decoy++
	}
	l.mu.Unlock()
}

// adapter serves one request through a framework application.
type adapter func(w *webWorld, p godi.Provider, cfg appCfg) func(id string) (status int, escaped any)

func reqID(r *http.Request) string { return r.Header.Get("X-Req") }

// cancels holds the cancel function of each request's context ("client went away").
var cancels sync.Map

// appScopeCtx, when set, is the context of a long-lived application scope that every
// incoming request context derives from (http.Server.BaseContext in a real server).
var appScopeCtx atomic.Pointer[context.Context]

func newReq(id string) *http.Request {
	r := httptest.NewRequest("GET", "/x", nil)
	r.Header.Set("X-Req", id)
	base := r.Context()
	if p := appScopeCtx.Load(); p != nil {
		base = *p
	}
	ctx, cancel := context.WithCancel(context.WithValue(base, reqKey{}, id))
	cancels.Store(id, cancel)
	return r.WithContext(ctx)
}

// clientGone cancels the request's context from inside the handler and waits until the
// scope's context watcher has closed the scope (bounded), so that the middleware's own
// deferred Close is the second, idempotent one.
func clientGone(id string, sc godi.Scope) {
	if c, ok := cancels.Load(id); ok {
		c.(context.CancelFunc)()
	}
	if sc == nil || len(id)%2 == 0 {
		return // half of the requests race the watcher against the middleware's own Close
	}
	deadline := time.Now().Add(2 * time.Second)
	for time.Now().Before(deadline) {
		if _, err := sc.Get(probeType); errors.Is(err, godi.ErrScopeDisposed) {
			return
		}
		time.Sleep(50 * time.Microsecond)
	}
}

var closeErrs atomic.Int64

// ---- net/http and chi (same shapes, different packages) ----

func stdAdapter(chi bool) adapter {
	return func(w *webWorld, p godi.Provider, cfg appCfg) func(string) (int, any) {
		mw := func(i int) func(godi.Scope, *http.Request) error {
			return func(s godi.Scope, r *http.Request) error { return w.onMiddleware(i, s, reqID(r)) }
		}
		errH := func(rw http.ResponseWriter, r *http.Request, err error) {
			w.count(reqID(r), "errH")
			http.Error(rw, "custom", 599)
		}
		var final http.Handler
		plain := http.HandlerFunc(func(rw http.ResponseWriter, r *http.Request) {
			if err := w.onHandler(reqID(r), r.Context(), nil); err != nil {
				http.Error(rw, "handler error", 500)
			}
		})
		final = plain
		var mwf func(http.Handler) http.Handler
		if chi {
			var opts []godichi.Option
			for i := 0; i < cfg.NMw; i++ {
				opts = append(opts, godichi.WithMiddleware(mw(i)))
			}
			if cfg.CustomErr {
				opts = append(opts, godichi.WithErrorHandler(errH))
			} else if cfg.NilHandlers {
				opts = append(opts, godichi.WithErrorHandler(nil))
			}
			if cfg.CustomClose {
				opts = append(opts, godichi.WithCloseErrorHandler(func(error) { closeErrs.Add(1) }))
			} else if cfg.NilHandlers {
				opts = append(opts, godichi.WithCloseErrorHandler(nil))
			}
			mwf = godichi.ScopeMiddleware(p, opts...)
			if cfg.UseHandle {
				var ho []godichi.HandlerOption
				ho = append(ho, godichi.WithPanicRecovery(cfg.Recovery))
				if cfg.CustomHandle {
					ho = append(ho, godichi.WithPanicHandler(func(rw http.ResponseWriter, r *http.Request, v any) { w.count(reqID(r), "panicH"); rw.WriteHeader(598) }),
						godichi.WithScopeErrorHandler(func(rw http.ResponseWriter, r *http.Request, err error) {
							w.count(reqID(r), "scopeErrH")
							rw.WriteHeader(597)
						}),
						godichi.WithResolutionErrorHandler(func(rw http.ResponseWriter, r *http.Request, err error) {
							w.count(reqID(r), "resErrH")
							rw.WriteHeader(596)
						}))
				}
				if cfg.CtlRegistered {
					final = godichi.Handle(func(c *Ctl, rw http.ResponseWriter, r *http.Request) {
						if err := w.onCtl(reqID(r), c); err != nil {
							http.Error(rw, "handler error", 500)
						}
					}, ho...)
				} else {
					final = godichi.Handle(func(c *Unregistered, rw http.ResponseWriter, r *http.Request) { _ = w.onCtl(reqID(r), nil) }, ho...)
				}
				if cfg.Decoy {
					dh := func(rw http.ResponseWriter, r *http.Request) { w.count(reqID(r), "decoy"); rw.WriteHeader(595) }
					_ = godichi.Handle(func(c *Ctl, rw http.ResponseWriter, r *http.Request) {}, godichi.WithPanicRecovery(!cfg.Recovery),
						godichi.WithPanicHandler(func(rw http.ResponseWriter, r *http.Request, v any) { dh(rw, r) }),
						godichi.WithScopeErrorHandler(func(rw http.ResponseWriter, r *http.Request, err error) { dh(rw, r) }),
						godichi.WithResolutionErrorHandler(func(rw http.ResponseWriter, r *http.Request, err error) { dh(rw, r) }))
				}
			}
		} else {
			var opts []godihttp.Option
			for i := 0; i < cfg.NMw; i++ {
				opts = append(opts, godihttp.WithMiddleware(mw(i)))
			}
			if cfg.CustomErr {
				opts = append(opts, godihttp.WithErrorHandler(errH))
			} else if cfg.NilHandlers {
				opts = append(opts, godihttp.WithErrorHandler(nil))
			}
			if cfg.CustomClose {
				opts = append(opts, godihttp.WithCloseErrorHandler(func(error) { closeErrs.Add(1) }))
			} else if cfg.NilHandlers {
				opts = append(opts, godihttp.WithCloseErrorHandler(nil))
			}
			mwf = godihttp.ScopeMiddleware(p, opts...)
			if cfg.UseHandle {
				var ho []godihttp.HandlerOption
				ho = append(ho, godihttp.WithPanicRecovery(cfg.Recovery))
				if cfg.CustomHandle {
					ho = append(ho, godihttp.WithPanicHandler(func(rw http.ResponseWriter, r *http.Request, v any) { w.count(reqID(r), "panicH"); rw.WriteHeader(598) }),
						godihttp.WithScopeErrorHandler(func(rw http.ResponseWriter, r *http.Request, err error) {
							w.count(reqID(r), "scopeErrH")
							rw.WriteHeader(597)
						}),
						godihttp.WithResolutionErrorHandler(func(rw http.ResponseWriter, r *http.Request, err error) {
							w.count(reqID(r), "resErrH")
							rw.WriteHeader(596)
						}))
				}
				if cfg.CtlRegistered {
					final = godihttp.Handle(func(c *Ctl, rw http.ResponseWriter, r *http.Request) {
						if err := w.onCtl(reqID(r), c); err != nil {
							http.Error(rw, "handler error", 500)
						}
					}, ho...)
				} else {
					final = godihttp.Wrap(func(c *Unregistered, rw http.ResponseWriter, r *http.Request) { _ = w.onCtl(reqID(r), nil) }, ho...)
				}
				if cfg.Decoy {
					dh := func(rw http.ResponseWriter, r *http.Request) { w.count(reqID(r), "decoy"); rw.WriteHeader(595) }
					_ = godihttp.Handle(func(c *Ctl, rw http.ResponseWriter, r *http.Request) {}, godihttp.WithPanicRecovery(!cfg.Recovery),
						godihttp.WithPanicHandler(func(rw http.ResponseWriter, r *http.Request, v any) { dh(rw, r) }),
						godihttp.WithScopeErrorHandler(func(rw http.ResponseWriter, r *http.Request, err error) { dh(rw, r) }),
						godihttp.WithResolutionErrorHandler(func(rw http.ResponseWriter, r *http.Request, err error) { dh(rw, r) }))
				}
			}
		}
		h := final
		if !cfg.NoScopeMW {
			h = mwf(final)
		}
		return func(id string) (status int, escaped any) {
			rec := httptest.NewRecorder()
			func() {
				defer func() { escaped = recover() }()
				h.ServeHTTP(rec, newReq(id))
			}()
			return rec.Code, escaped
		}
	}
}

// ---- gin ----

func ginAdapter(w *webWorld, p godi.Provider, cfg appCfg) func(string) (int, any) {
	var opts []godigin.Option
	for i := 0; i < cfg.NMw; i++ {
		i := i
		opts = append(opts, godigin.WithMiddleware(func(s godi.Scope, c *gin.Context) error {
			err := w.onMiddleware(i, s, reqID(c.Request))
			switch k := w.plan(reqID(c.Request)).MwErrKind; {
			case err != nil && k == 1:
				err = &gin.Error{Err: err, Type: gin.ErrorTypePublic}
			case err != nil && k == 2:
				err = fmt.Errorf("authentication: %w", &gin.Error{Err: err, Type: gin.ErrorTypePrivate})
			}
			if err != nil && w.mwWrites(reqID(c.Request), i) {
				c.String(401, "rejected")
			}
			return err
		}))
	}
	if cfg.CustomErr {
		opts = append(opts, godigin.WithErrorHandler(func(c *gin.Context, err error) {
			w.count(reqID(c.Request), "errH")
			if cfg.ErrHPassive {
				c.String(599, "custom") // answers the request and leaves it at that
				return
			}
			c.AbortWithStatus(599)
		}))
	} else if cfg.NilHandlers {
		opts = append(opts, godigin.WithErrorHandler(nil))
	}
	if cfg.CustomClose {
		opts = append(opts, godigin.WithCloseErrorHandler(func(error) { closeErrs.Add(1) }))
	} else if cfg.NilHandlers {
		opts = append(opts, godigin.WithCloseErrorHandler(nil))
	}
	e := gin.New()
	if !cfg.NoScopeMW {
		e.Use(godigin.ScopeMiddleware(p, opts...))
	}
	var final gin.HandlerFunc = func(c *gin.Context) {
		if err := w.onHandler(reqID(c.Request), c.Request.Context(), nil); err != nil {
			c.AbortWithStatus(500)
		}
	}
	if cfg.UseHandle {
		ho := []godigin.HandlerOption{godigin.WithPanicRecovery(cfg.Recovery)}
		if cfg.CustomHandle {
			ho = append(ho, godigin.WithPanicHandler(func(c *gin.Context, v any) { w.count(reqID(c.Request), "panicH"); c.AbortWithStatus(598) }),
				godigin.WithScopeErrorHandler(func(c *gin.Context, err error) { w.count(reqID(c.Request), "scopeErrH"); c.AbortWithStatus(597) }),
				godigin.WithResolutionErrorHandler(func(c *gin.Context, err error) { w.count(reqID(c.Request), "resErrH"); c.AbortWithStatus(596) }))
		} else if cfg.NilHandlers {
			ho = append(ho, godigin.WithPanicHandler(nil), godigin.WithScopeErrorHandler(nil), godigin.WithResolutionErrorHandler(nil))
		}
		if cfg.CtlRegistered {
			final = godigin.Handle(func(ctl *Ctl, c *gin.Context) {
				if err := w.onCtl(reqID(c.Request), ctl); err != nil {
					c.AbortWithStatus(500)
				}
			}, ho...)
		} else {
			final = godigin.Handle(func(ctl *Unregistered, c *gin.Context) { _ = w.onCtl(reqID(c.Request), nil) }, ho...)
		}
	}
	if cfg.UseHandle && cfg.Decoy {
		// another wrapper, configured the other way round: each Handle has its own configuration
		decoy := godigin.Handle(func(ctl *Ctl, c *gin.Context) {}, godigin.WithPanicRecovery(!cfg.Recovery),
			godigin.WithPanicHandler(func(c *gin.Context, v any) { w.count(reqID(c.Request), "decoy"); c.AbortWithStatus(595) }),
			godigin.WithScopeErrorHandler(func(c *gin.Context, err error) { w.count(reqID(c.Request), "decoy"); c.AbortWithStatus(595) }),
			godigin.WithResolutionErrorHandler(func(c *gin.Context, err error) { w.count(reqID(c.Request), "decoy"); c.AbortWithStatus(595) }))
		e.GET("/decoy", decoy)
	}
	switch cfg.Fallback {
	case 1:
		e.NoRoute(final)
	case 2:
		e.HandleMethodNotAllowed = true
		e.POST("/x", func(c *gin.Context) { c.Status(204) })
		e.NoMethod(final)
	default:
		e.GET("/x", final)
	}
	return func(id string) (status int, escaped any) {
		rec := httptest.NewRecorder()
		func() {
			defer func() { escaped = recover() }()
			e.ServeHTTP(rec, newReq(id))
		}()
		return rec.Code, escaped
	}
}

// ---- echo ----

func echoAdapter(w *webWorld, p godi.Provider, cfg appCfg) func(string) (int, any) {
	var opts []godiecho.Option
	for i := 0; i < cfg.NMw; i++ {
		i := i
		opts = append(opts, godiecho.WithMiddleware(func(s godi.Scope, c echo.Context) error {
			err := w.onMiddleware(i, s, reqID(c.Request()))
			switch k := w.plan(reqID(c.Request())).MwErrKind; {
			case err != nil && k == 1:
				err = echo.NewHTTPError(401, "unauthorized")
			case err != nil && k == 2:
				err = fmt.Errorf("authentication: %w", echo.ErrForbidden)
			}
			if err != nil && w.mwWrites(reqID(c.Request()), i) {
				_ = c.String(401, "rejected")
			}
			return err
		}))
	}
	if cfg.CustomErr {
		opts = append(opts, godiecho.WithErrorHandler(func(c echo.Context, err error) error { w.count(reqID(c.Request()), "errH"); return c.NoContent(599) }))
	} else if cfg.NilHandlers {
		opts = append(opts, godiecho.WithErrorHandler(nil))
	}
	if cfg.CustomClose {
		opts = append(opts, godiecho.WithCloseErrorHandler(func(error) { closeErrs.Add(1) }))
	} else if cfg.NilHandlers {
		opts = append(opts, godiecho.WithCloseErrorHandler(nil))
	}
	e := echo.New()
	e.HideBanner = true
	e.Logger.SetOutput(io.Discard)
	if !cfg.NoScopeMW {
		e.Use(godiecho.ScopeMiddleware(p, opts...))
	}
	var final echo.HandlerFunc = func(c echo.Context) error { return w.onHandler(reqID(c.Request()), c.Request().Context(), nil) }
	if cfg.UseHandle {
		ho := []godiecho.HandlerOption{godiecho.WithPanicRecovery(cfg.Recovery)}
		if cfg.CustomHandle {
			ho = append(ho, godiecho.WithPanicHandler(func(c echo.Context, v any) error { w.count(reqID(c.Request()), "panicH"); return c.NoContent(598) }),
				godiecho.WithScopeErrorHandler(func(c echo.Context, err error) error {
					w.count(reqID(c.Request()), "scopeErrH")
					return c.NoContent(597)
				}),
				godiecho.WithResolutionErrorHandler(func(c echo.Context, err error) error { w.count(reqID(c.Request()), "resErrH"); return c.NoContent(596) }))
		}
		if cfg.CtlRegistered {
			final = godiecho.Handle(func(ctl *Ctl, c echo.Context) error { return w.onCtl(reqID(c.Request()), ctl) }, ho...)
		} else {
			final = godiecho.Handle(func(ctl *Unregistered, c echo.Context) error { return w.onCtl(reqID(c.Request()), nil) }, ho...)
		}
	}
	if cfg.UseHandle && cfg.Decoy {
		decoy := godiecho.Handle(func(ctl *Ctl, c echo.Context) error { return nil }, godiecho.WithPanicRecovery(!cfg.Recovery),
			godiecho.WithPanicHandler(func(c echo.Context, v any) error { w.count(reqID(c.Request()), "decoy"); return c.NoContent(595) }),
			godiecho.WithScopeErrorHandler(func(c echo.Context, err error) error { w.count(reqID(c.Request()), "decoy"); return c.NoContent(595) }),
			godiecho.WithResolutionErrorHandler(func(c echo.Context, err error) error { w.count(reqID(c.Request()), "decoy"); return c.NoContent(595) }))
		e.GET("/decoy", decoy)
	}
	if cfg.Fallback != 0 {
		e.RouteNotFound("/*", final)
	} else {
		e.GET("/x", final)
	}
	return func(id string) (status int, escaped any) {
		rec := httptest.NewRecorder()
		func() {
			defer func() { escaped = recover() }()
			e.ServeHTTP(rec, newReq(id))
		}()
		return rec.Code, escaped
	}
}

// ---- fiber ----

func fiberAdapter(w *webWorld, p godi.Provider, cfg appCfg) func(string) (int, any) {
	fid := func(c *fiber.Ctx) string { return strings.Clone(c.Get("X-Req")) } // fiber strings alias a reused buffer
	var opts []godifiber.Option
	for i := 0; i < cfg.NMw; i++ {
		i := i
		opts = append(opts, godifiber.WithMiddleware(func(s godi.Scope, c *fiber.Ctx) error {
			err := w.onMiddleware(i, s, fid(c))
			switch k := w.plan(fid(c)).MwErrKind; {
			case err != nil && k == 1:
				err = fiber.ErrUnauthorized
			case err != nil && k == 2:
				err = fmt.Errorf("authentication: %w", fiber.NewError(403, "forbidden"))
			}
			if err != nil && w.mwWrites(fid(c), i) {
				_ = c.Status(401).SendString("rejected")
			}
			return err
		}))
	}
	if cfg.CustomErr {
		opts = append(opts, godifiber.WithErrorHandler(func(c *fiber.Ctx, err error) error { w.count(fid(c), "errH"); return c.SendStatus(599) }))
	} else if cfg.NilHandlers {
		opts = append(opts, godifiber.WithErrorHandler(nil))
	}
	if cfg.CustomClose {
		opts = append(opts, godifiber.WithCloseErrorHandler(func(error) { closeErrs.Add(1) }))
	} else if cfg.NilHandlers {
		opts = append(opts, godifiber.WithCloseErrorHandler(nil))
	}
	app := fiber.New(fiber.Config{DisableStartupMessage: true})
	// the framework's recover middleware outermost: a handler panic must not kill the process,
	// and the request's scope is then released by the framework (io.Closer user values)
	// (our own instead of the stock one, so that the harness sees which panics get this far)
	escapedPanics := &sync.Map{}
	app.Use(func(c *fiber.Ctx) (err error) {
		defer func() {
			if r := recover(); r != nil {
				escapedPanics.Store(fid(c), r)
				err = fiber.ErrInternalServerError
			}
		}()
		return c.Next()
	})
	app.Use(func(c *fiber.Ctx) error {
		c.SetUserContext(context.WithValue(context.Background(), reqKey{}, fid(c)))
		return c.Next()
	})
	if !cfg.NoScopeMW {
		app.Use(godifiber.ScopeMiddleware(p, opts...))
	}
	var final fiber.Handler = func(c *fiber.Ctx) error { return w.onHandler(fid(c), nil, godifiber.FromContext(c)) }
	if cfg.UseHandle {
		ho := []godifiber.HandlerOption{godifiber.WithPanicRecovery(cfg.Recovery)}
		if cfg.CustomHandle {
			ho = append(ho, godifiber.WithPanicHandler(func(c *fiber.Ctx, v any) error { w.count(fid(c), "panicH"); return c.SendStatus(598) }),
				godifiber.WithScopeErrorHandler(func(c *fiber.Ctx, err error) error { w.count(fid(c), "scopeErrH"); return c.SendStatus(597) }),
				godifiber.WithResolutionErrorHandler(func(c *fiber.Ctx, err error) error { w.count(fid(c), "resErrH"); return c.SendStatus(596) }))
		}
		if cfg.CtlRegistered {
			final = godifiber.Handle(func(ctl *Ctl, c *fiber.Ctx) error { return w.onCtl(fid(c), ctl) }, ho...)
		} else {
			final = godifiber.Handle(func(ctl *Unregistered, c *fiber.Ctx) error { return w.onCtl(fid(c), nil) }, ho...)
		}
	}
	if cfg.UseHandle && cfg.Decoy {
		decoy := godifiber.Handle(func(ctl *Ctl, c *fiber.Ctx) error { return nil }, godifiber.WithPanicRecovery(!cfg.Recovery),
			godifiber.WithPanicHandler(func(c *fiber.Ctx, v any) error { w.count(fid(c), "decoy"); return c.SendStatus(595) }),
			godifiber.WithScopeErrorHandler(func(c *fiber.Ctx, err error) error { w.count(fid(c), "decoy"); return c.SendStatus(595) }),
			godifiber.WithResolutionErrorHandler(func(c *fiber.Ctx, err error) error { w.count(fid(c), "decoy"); return c.SendStatus(595) }))
		app.Get("/decoy", decoy)
	}
	if cfg.Fallback != 0 {
		app.Use(final) // the documented way to write a 404 handler: a middleware after all routes
	} else {
		app.Get("/x", final)
	}
	return func(id string) (status int, escaped any) {
		resp, err := app.Test(newReq(id), -1)
		if err != nil {
			return -1, nil
		}
		defer resp.Body.Close()
		if v, ok := escapedPanics.Load(id); ok {
			escaped = v
		}
		return resp.StatusCode, escaped
	}
}

var adapters = map[string]adapter{
	"http": stdAdapter(false), "chi": stdAdapter(true), "gin": ginAdapter, "echo": echoAdapter, "fiber": fiberAdapter,
}

// ---- the oracle ----

type failure struct{ Oracle, Sig, Msg string }

func (f *failure) String() string { return fmt.Sprintf("C16/%s [%s]: %s", f.Oracle, f.Sig, f.Msg) }
func ff(oracle, sig, format string, a ...any) *failure {
	return &failure{oracle, sig, fmt.Sprintf(format, a...)}
}

func judge(cfg appCfg, pl *plan, l *reqLog, status int, escaped any, providerClosed bool) *failure {
	fw := cfg.Framework
	l.mu.Lock()
	defer l.mu.Unlock()
	ev := strings.Join(l.Events, ",")
	if l.Decoy != 0 {
		return ff("handle", fw+"/foreign-config", "a callback configured for another Handle wrapper ran for this request (events %s)", ev)
	}
	// --- Handle without scope middleware: exactly the scope-error handler, nothing else
	if cfg.NoScopeMW {
		if cfg.UseHandle {
			if l.CtlRan {
				return ff("handle", fw+"/no-scope", "controller method ran although the request has no scope (events %s)", ev)
			}
			if cfg.CustomHandle && (l.ScopeErrH != 1 || l.ResErrH != 0) {
				return ff("handle", fw+"/no-scope-handlers", "want exactly the scope-error handler; scope=%d resolution=%d", l.ScopeErrH, l.ResErrH)
			}
		}
		return nil
	}
	scopeFail := pl.Exit == "scope-fail" && cfg.HasInit
	if providerClosed || scopeFail {
		if l.HandlerRan {
			return ff("scope-creation-failure", fw, "the handler ran although the scope could not be created (events %s)", ev)
		}
		for k := range l.Scopes {
			if strings.HasPrefix(k, "mw") {
				return ff("scope-creation-failure", fw, "a middleware ran although the scope could not be created")
			}
		}
		if cfg.CustomErr && l.ErrH != 1 {
			return ff("scope-creation-failure", fw+"/errh", "error handler ran %d times, want 1", l.ErrH)
		}
		if !cfg.CustomErr && status != 500 {
			return ff("scope-creation-failure", fw+"/status", "default error handler should answer 500, got %d", status)
		}
		for _, p := range l.Probes {
			if p.closes.Load() != 1 {
				return ff("closed-once", fw+"/scope-fail", "probe created during the failed scope creation was closed %d times", p.closes.Load())
			}
		}
		return nil
	}
	// --- one scope, the same everywhere
	var sc godi.Scope
	for who, s := range l.Scopes {
		if s == nil {
			return ff("same-scope", fw+"/nil", "%s saw a nil scope", who)
		}
		if sc == nil {
			sc = s
		} else if s != sc {
			return ff("same-scope", fw+"/"+who, "%s saw a different scope than the others (events %s)", who, ev)
		}
	}
	if len(l.Probes) > 1 {
		return ff("one-scope", fw, "%d scoped probe instances were created for one request", len(l.Probes))
	}
	for _, p := range l.Probes {
		if sc != nil && p.Scope != sc {
			return ff("same-scope", fw+"/probe", "the probe was constructed in a different scope than the one the callbacks saw")
		}
		if p.Req != pl.ID {
			return ff("same-scope", fw+"/ctx", "the probe's scope context belongs to request %q", p.Req)
		}
	}
	// --- middlewares in order, stop at the failing one
	wantMw := cfg.NMw
	if pl.Exit == "mw-err" && pl.MwFailAt < cfg.NMw {
		wantMw = pl.MwFailAt + 1
	}
	pos := 0
	for _, e := range l.Events {
		if strings.HasPrefix(e, "mw") {
			if e != fmt.Sprintf("mw%d", pos) {
				return ff("middleware-order", fw, "middlewares ran as %s", ev)
			}
			pos++
		}
	}
	if pos != wantMw {
		return ff("middleware-order", fw+"/count", "%d middlewares ran, want %d (events %s)", pos, wantMw, ev)
	}
	mwFailed := pl.Exit == "mw-err" && pl.MwFailAt < cfg.NMw
	if mwFailed {
		if l.HandlerRan {
			return ff("middleware-error", fw+"/handler-ran", "the handler ran after middleware %d failed", pl.MwFailAt)
		}
		if cfg.CustomErr && l.ErrH != 1 {
			return ff("middleware-error", fw+"/errh", "error handler ran %d times, want 1", l.ErrH)
		}
		wrote := pl.MwWrites && (fw == "gin" || fw == "echo" || fw == "fiber")
		if !cfg.CustomErr && status != 500 && !wrote {
			return ff("middleware-error", fw+"/status", "default error handler should answer 500, got %d", status)
		}
	} else {
		if l.ErrH != 0 {
			return ff("error-handler", fw+"/spurious", "error handler ran %d times on exit path %s", l.ErrH, pl.Exit)
		}
		// --- Handle semantics
		if pl.Exit == "scope-gone" && !l.GoneBeforeHandler {
			// the scope did not report disposed within the wait: what Handle found is anybody's guess
		} else if cfg.UseHandle && l.GoneBeforeHandler {
			// the request's scope was closed before Handle could resolve the controller:
			// the method must not run, and exactly one of Handle's two error handlers does
			if l.CtlRan {
				return ff("handle", fw+"/called-on-closed-scope", "controller method ran although the request's scope had been closed before Handle resolved the controller (events %s)", ev)
			}
			if cfg.CustomHandle && l.ScopeErrH+l.ResErrH != 1 {
				return ff("handle", fw+"/handlers-on-closed-scope", "the request's scope was closed before Handle resolved the controller: want exactly one of the scope-error / resolution-error handlers; scope=%d resolution=%d (events %s)", l.ScopeErrH, l.ResErrH, ev)
			}
			if l.PanicH != 0 {
				return ff("handle-recovery", fw+"/spurious", "panic handler ran without a panic")
			}
		} else if cfg.UseHandle {
			if cfg.CtlRegistered {
				if !l.CtlRan {
					return ff("handle", fw+"/not-called", "controller method did not run (events %s)", ev)
				}
				if l.ScopeErrH+l.ResErrH != 0 {
					return ff("handle", fw+"/handlers", "an error handler of Handle ran although resolution succeeded")
				}
			} else {
				if l.CtlRan {
					return ff("handle", fw+"/called-unresolved", "controller method ran although the controller cannot be resolved")
				}
				if cfg.CustomHandle && (l.ResErrH != 1 || l.ScopeErrH != 0) {
					return ff("handle", fw+"/handlers", "want exactly the resolution-error handler; scope=%d resolution=%d", l.ScopeErrH, l.ResErrH)
				}
			}
			panics := pl.Exit == "handler-panic" && cfg.CtlRegistered
			if panics && cfg.Recovery {
				if escaped != nil {
					return ff("handle-recovery", fw+"/escaped", "panic escaped Handle although recovery is on")
				}
				if cfg.CustomHandle && l.PanicH != 1 {
					return ff("handle-recovery", fw+"/handler", "panic handler ran %d times", l.PanicH)
				}
			}
			if panics && !cfg.Recovery && escaped == nil {
				return ff("handle-recovery", fw+"/swallowed", "panic was swallowed although recovery is off")
			}
			if !panics && l.PanicH != 0 {
				return ff("handle-recovery", fw+"/spurious", "panic handler ran without a panic")
			}
		} else {
			if !l.HandlerRan {
				return ff("handler-runs", fw, "the handler did not run on exit path %s (events %s)", pl.Exit, ev)
			}
			if pl.Exit == "handler-panic" && escaped == nil {
				return ff("handler-panic", fw+"/swallowed", "the scope middleware swallowed the handler's panic")
			}
		}
	}
	// --- closed exactly once, on every exit path
	if sc != nil {
		if _, err := sc.Get(probeType); !errors.Is(err, godi.ErrScopeDisposed) {
			return ff("closed", fw+"/"+pl.Exit, "the request's scope is still usable after the request ended on path %s (Get -> %v)", pl.Exit, err)
		}
	}
	for _, p := range l.Probes {
		if n := p.closes.Load(); n != 1 {
			return ff("closed-once", fw+"/"+pl.Exit, "the request's scoped disposable was closed %d times after exit path %s", n, pl.Exit)
		}
	}
	return nil
}

var probeType = reflectTypeOfProbe()

func TestC16Web(t *testing.T) {
	col := evid.New("C16", "requests", "for each of net/http, chi, gin, echo, fiber: generated application configurations (0-3 middlewares, custom/default error and close-error handlers, plain handler or Handle wrapper with/without panic recovery and custom handlers, controller registered or not, Handle mounted with/without the scope middleware, optional initializer; gin, echo, fiber: the handler mounted on the requested route or as the framework's not-found / method-not-allowed handler) x request sequences and concurrent batches (2-12 requests) x exit path per request (ok, middleware error at position i - a plain error, an error of the framework's own error type or one wrapping it -, handler error, handler panic, scope-creation failure, client gone: the request context is cancelled while the handler runs, so the scope's context watcher closes the scope before the middleware's own Close) plus requests after the provider was closed; oracle from callback logs and a scoped disposable probe: one scope per request, identical for every middleware (in order), the handler, the probe's own scope/context and the controller Handle resolves; concurrent requests never share; scope disposed and probe closed exactly once after every exit path; error handler runs and handler does not on middleware error / scope-creation failure; Handle calls the method iff resolution succeeded else exactly one error handler, and swallows panics iff recovery is on; non-trivial = exit path != ok, >=2 middlewares, or a concurrent batch >=4")
	defer col.Flush()
	names := []string{"http", "chi", "gin", "echo", "fiber"}
	rapid.Check(t, func(rt *rapid.T) {
		cfg := appCfg{
			Framework:     rapid.SampledFrom(names).Draw(rt, "framework"),
			NMw:           rapid.IntRange(0, 3).Draw(rt, "nmw"),
			CustomErr:     rapid.Bool().Draw(rt, "customErr"),
			CustomClose:   rapid.Bool().Draw(rt, "customClose"),
			UseHandle:     rapid.Bool().Draw(rt, "useHandle"),
			Decoy:         rapid.Bool().Draw(rt, "decoy"),
			Recovery:      rapid.Bool().Draw(rt, "recovery"),
			CustomHandle:  rapid.Bool().Draw(rt, "customHandle"),
			CtlRegistered: rapid.IntRange(0, 3).Draw(rt, "ctl") != 0,
			HasInit:       rapid.Bool().Draw(rt, "hasInit"),
			ErrHPassive:   rapid.Bool().Draw(rt, "errHPassive"),
			NilHandlers:   rapid.IntRange(0, 2).Draw(rt, "nilHandlers") == 0,
		}
		if cfg.UseHandle {
			cfg.NoScopeMW = rapid.IntRange(0, 5).Draw(rt, "noScopeMW") == 0
		}
		if fb := rapid.IntRange(0, 5).Draw(rt, "fallback"); fb >= 4 && (cfg.Framework == "gin" || cfg.Framework == "echo" || cfg.Framework == "fiber") {
			cfg.Fallback = fb - 3
			col.Label("fallback-handler")
		}
		w := &webWorld{}
		p, err := buildProvider(w, cfg)
		if err != nil {
			rt.Fatalf("build failed: %v", err)
		}
		// the incoming request contexts may already carry a scope (an application-wide one):
		// the request still gets a fresh scope of its own
		appScopeCtx.Store(nil)
		if !cfg.NoScopeMW && rapid.IntRange(0, 3).Draw(rt, "appScope") == 0 { // (without the scope middleware the application scope IS the request's scope)
			if as, err := p.CreateScope(context.Background()); err == nil {
				actx := as.Context()
				appScopeCtx.Store(&actx)
				defer func() { appScopeCtx.Store(nil); _ = as.Close() }()
			}
		}
		serve := adapters[cfg.Framework](w, p, cfg)
		exits := []string{"ok", "ok", "mw-err", "handler-err", "handler-panic", "scope-fail", "client-gone", "scope-gone"}
		nreq := 0
		mkPlan := func() *plan {
			nreq++
			pl := &plan{ID: fmt.Sprintf("q%d", nreq), Exit: rapid.SampledFrom(exits).Draw(rt, "exit")}
			if pl.Exit == "scope-gone" {
				if cfg.NMw == 0 || cfg.Framework == "fiber" || cfg.NoScopeMW {
					pl.Exit = "ok" // needs a configured middleware to stage it; fiber's user context is not tied to the connection
				} else {
					pl.MwFailAt = rapid.IntRange(0, cfg.NMw-1).Draw(rt, "goneAt")
				}
			}
			if pl.Exit == "handler-panic" {
				pl.PanicVal = rapid.IntRange(0, 3).Draw(rt, "panicVal")
			}
			if pl.Exit == "mw-err" {
				pl.MwFailAt = rapid.IntRange(0, 3).Draw(rt, "mwFailAt")
				pl.MwWrites = rapid.IntRange(0, 2).Draw(rt, "mwWrites") == 0
			pl.MwErrKind = rapid.IntRange(0, 2).Draw(rt, "mwErrKind")
			}
			if pl.Exit == "client-gone" && cfg.Framework == "fiber" {
				pl.Exit = "ok" // fiber's user context is not tied to the connection: nothing to cancel
			}
			w.plans.Store(pl.ID, pl)
			return pl
		}
		var trace []string
		nt := cfg.NMw >= 2
		check := func(pl *plan, status int, escaped any, closed bool) {
			if f := judge(cfg, pl, w.log(pl.ID), status, escaped, closed); f != nil {
				rt.Fatalf("VIOLATION %s\napp: %s\nrequests: %s\nfailing request %s exit=%s mwFailAt=%d status=%d escaped=%v events=%v", f, cfg, strings.Join(trace, " "), pl.ID, pl.Exit, pl.MwFailAt, status, escaped, w.log(pl.ID).Events)
			}
		}
		steps := rapid.IntRange(1, 6).Draw(rt, "steps")
		for i := 0; i < steps; i++ {
			if rapid.IntRange(0, 3).Draw(rt, "batch") == 0 {
				n := rapid.IntRange(2, 12).Draw(rt, "batchsize")
				plans := make([]*plan, n)
				for j := range plans {
					plans[j] = mkPlan()
					trace = append(trace, fmt.Sprintf("||%s:%s", plans[j].ID, plans[j].Exit))
				}
				status := make([]int, n)
				esc := make([]any, n)
				var wg sync.WaitGroup
				for j := range plans {
					wg.Add(1)
					go func(j int) { defer wg.Done(); status[j], esc[j] = serve(plans[j].ID) }(j)
				}
				wg.Wait()
				seenScopes := map[godi.Scope]string{}
				for j, pl := range plans {
					check(pl, status[j], esc[j], false)
					l := w.log(pl.ID)
					for _, s := range l.Scopes {
						if other, dup := seenScopes[s]; dup && other != pl.ID {
							rt.Fatalf("VIOLATION C16/not-shared [%s]: requests %s and %s of one concurrent batch saw the same scope\napp: %s", cfg.Framework, other, pl.ID, cfg)
						}
						seenScopes[s] = pl.ID
					}
				}
				if n >= 4 {
					nt = true
				}
			} else {
				pl := mkPlan()
				trace = append(trace, fmt.Sprintf("%s:%s", pl.ID, pl.Exit))
				st, esc := serve(pl.ID)
				check(pl, st, esc, false)
				if pl.Exit != "ok" {
					nt = true
				}
			}
		}
		// requests after the provider was closed: the error handler runs instead of the handler
		_ = p.Close()
		if rapid.Bool().Draw(rt, "afterClose") && !cfg.NoScopeMW {
			pl := mkPlan()
			pl.Exit = "ok"
			trace = append(trace, pl.ID+":after-provider-close")
			st, esc := serve(pl.ID)
			check(pl, st, esc, true)
			nt = true
		}
		canon := cfg.String() + " :: " + strings.Join(trace, " ")
		col.Case(nt, canon, canon, "fw:"+cfg.Framework, fmt.Sprintf("handle=%v", cfg.UseHandle))
	})
}
